SPECIFICATION Spec
CONSTANTS
  CronPeriod <- MCCronPeriod
  Expand <- MCExpand
INVARIANTS
  I_C14_TraversalExact
