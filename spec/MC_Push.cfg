SPECIFICATION Spec
CONSTANTS
  Size = 1
  Msgs <- MCMsgs
INVARIANTS
  P_SuccessMeansDelivered
  P_NoStrayRequest
  P_Bounded
  P_Fifo
PROPERTIES
  P_ReportedOnce
  P_EveryMessageReported
