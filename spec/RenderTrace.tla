---------------------------- MODULE RenderTrace ----------------------------
(***************************************************************************)
(* Judges the observations frontx recorded from the real front ends.       *)
(***************************************************************************)
EXTENDS Render
CONSTANT TraceFile
CONSTANT Known
TraceLog == ndJsonDeserialize(TraceFile)
NoteFinding(name) == TLCSet(42, TLCGet(42) \cup {name})

VARIABLES l, seenVec
vars == <<l, seenVec>>
Ev == TraceLog[l]
Last == IF l > 1 THEN TraceLog[l - 1] ELSE [e |-> "none"]

Init == l = 1 /\ seenVec = {} /\ TLCSet(42, {})
Next == /\ l <= Len(TraceLog) /\ l' = l + 1
        /\ seenVec' = IF Ev.e = "obs"
                      THEN seenVec \cup {<<[op |-> Ev.op, status |-> Ev.status, via |-> Ev.via, shape |-> Ev.shape, cause |-> Ev.cause], Ev.proto>>}
                      ELSE seenVec
Spec == Init /\ [][Next]_vars

IsObs == Last.e = "obs"
IsPair == Last.e = "pair"
C15_NoDrop == IsObs => NoDrop(Last)
\* C12: an explicit error of the kernel (queue full, scheduler full, shutting down, subsystem failure - with or without an
\* underlying cause) reaches the client as exactly that error over both protocols
C12_ExplicitErrorReachesClient ==
  (IsObs /\ Last.via = "error" /\ Last.status >= 50000) => (NoDrop(Last) /\ HttpOK(Last) /\ GrpcOK(Last))
C15_HttpRendering == (IsObs /\ NoDrop(Last)) => HttpOK(Last)
C15_GrpcRendering == (IsObs /\ NoDrop(Last)) => GrpcOK(Last)
\* a claimed task is rendered with the type of its message and exactly the promises the kernel handed
\* out with it (root; leaf only for a resume), identically over both protocols
C15_ClaimCarriesItsPromises ==
  (IsObs /\ Last.op = "ClaimTask" /\ Last.status = 20100 /\ Last.shape \in {"invoke", "resume", "notify"} /\ NoDrop(Last)) =>
     LET o == IF Last.proto = "http" THEN Last.http ELSE Last.grpc IN
     /\ o.mesgType = Last.shape
     /\ o.promises = IF Last.shape = "resume" THEN <<"leaf", "root">> ELSE <<"root">>
\* every promise of a successful kernel answer is rendered, in order, in the state the kernel gave it,
\* with the same name over both protocols (answers that carry a promise of each state are in the table)
C15_StatesRendered ==
  (IsObs /\ NoDrop(Last) /\ Last.via = "response" /\ Last.status \in {20000, 20100}
         /\ (Last.op = "ClaimTask" => Last.status = 20100)) =>   \* a claim hands out promises only when it succeeds
     \* (an http 204 has no body by definition)
     /\ (Last.proto = "http" /\ Last.http.bodyKind = "resource") => Last.http.states = StateNames(Last.kstates)
     /\ Last.proto = "grpc" => Last.grpc.states = StateNames(Last.kstates)
\* equivalent requests are translated into the same kernel request
C15_SameRequest == IsPair => (Last.http.kind = Last.grpc.kind /\ Last.http.args = Last.grpc.args /\ Last.http.kind = Last.op)

\* every vector of the table was played over both protocols (checked at the end)
Complete == (l = Len(TraceLog) + 1 /\ \E i \in DOMAIN TraceLog : TraceLog[i].e = "obs") =>
               \A v \in Vectors : <<v, "http">> \in seenVec /\ <<v, "grpc">> \in seenVec

TraceAccepted ==
  LET d == TLCGet("stats").diameter IN
  IF d - 1 = Len(TraceLog) THEN PrintT(<<"KNOWN-FINDINGS-SEEN", TLCGet(42)>>)
  ELSE Print(<<"TRACE NOT CONSUMED", d - 1, Len(TraceLog)>>, FALSE)
Alias == [l |-> l, event |-> Last]
=============================================================================
