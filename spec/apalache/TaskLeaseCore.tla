---------------------------- MODULE TaskLeaseCore ----------------------------
(***************************************************************************)
(* Typed core of the task lease of Resonate.tla (OpClaimTask,              *)
(* OpCompleteTask, OpHeartbeatTasks, ExpireTask, Dispatch) for ONE task,   *)
(* with an UNBOUNDED counter, clock, ttl and number of claims.  Apalache   *)
(* discharges                                                              *)
(*      Init => IndInv               (--init=Init    --length=0)           *)
(*      IndInv /\ Next => IndInv'    (--init=IndInit --length=1)           *)
(*      IndInv => C07_Fencing        (--init=IndInit --length=0)           *)
(* so the fencing invariant of C07 holds for every number of claims, lease *)
(* expiries and clock values, not only within the bounds of MC_A_task.     *)
(* The actions are the level-A operations with the fields that play no     *)
(* part in the argument (mesg, attempt, completedOn) dropped.              *)
(*                                                                         *)
(* History without unbounded sets: (g1w,g1c) and (g2w,g2c) are two         *)
(* ARBITRARY successful claims - every claim may nondeterministically be   *)
(* remembered in slot 1, in slot 2, or not at all - so what is proved of   *)
(* the two slots is proved of every pair of claims ever granted.           *)
(***************************************************************************)
EXTENDS Integers

CONSTANT
  \* @type: Set(Str);
  Worker

CInit == Worker = {"w1", "w2", "w3"}

VARIABLES
  \* @type: Str;
  state,      \* "init" | "enqueued" | "claimed" | "completed" | "timedout"
  \* @type: Int;
  counter,
  \* @type: Str;
  pid,        \* "" = none
  \* @type: Int;
  expiresAt,
  \* @type: Int;
  timeout,    \* the task's own deadline (the root promise's)
  \* @type: Int;
  now,
  \* @type: Bool;
  g1set,
  \* @type: Str;
  g1w,
  \* @type: Int;
  g1c,
  \* @type: Bool;
  g2set,
  \* @type: Str;
  g2w,
  \* @type: Int;
  g2c,
  \* @type: Int;
  ndone,      \* number of accepted completions
  \* @type: Int;
  doneC       \* the counter of the last accepted completion

States == {"init", "enqueued", "claimed", "completed", "timedout"}

Init ==
  /\ state = "init" /\ counter = 1 /\ pid = "" /\ expiresAt = 0
  /\ timeout \in Nat /\ now = 0
  /\ g1set = FALSE /\ g1w = "" /\ g1c = 0
  /\ g2set = FALSE /\ g2w = "" /\ g2c = 0
  /\ ndone = 0 /\ doneC = 0

Ghosts == <<g1set, g1w, g1c, g2set, g2w, g2c>>

Tick == \E d \in Nat : now' = now + d
        /\ UNCHANGED <<state, counter, pid, expiresAt, timeout, ndone, doneC>>
        /\ UNCHANGED Ghosts

\* enqueueTasks: an init task that is due is handed off (or timed out at its deadline)
Dispatch(delay) ==
  /\ state = "init" /\ expiresAt <= now
  /\ IF ~ (now < timeout)
     THEN state' = "timedout" /\ expiresAt' = 0
     ELSE state' = "enqueued" /\ expiresAt' = now + delay
  /\ pid' = ""
  /\ UNCHANGED <<counter, timeout, now, ndone, doneC>> /\ UNCHANGED Ghosts

Claim(w, c, ttl) ==
  /\ state \in {"init", "enqueued"}
  /\ c = counter
  /\ state' = "claimed" /\ pid' = w /\ expiresAt' = now + ttl
  /\ \/ g1set' = TRUE /\ g1w' = w /\ g1c' = c /\ UNCHANGED <<g2set, g2w, g2c>>
     \/ g2set' = TRUE /\ g2w' = w /\ g2c' = c /\ UNCHANGED <<g1set, g1w, g1c>>
     \/ UNCHANGED Ghosts
  /\ UNCHANGED <<counter, timeout, now, ndone, doneC>>

\* the worker is not checked by the server: the counter is the fence
Complete(c) ==
  /\ state = "claimed"
  /\ c = counter
  /\ state' = "completed" /\ pid' = "" /\ expiresAt' = 0
  /\ ndone' = ndone + 1 /\ doneC' = c
  /\ UNCHANGED <<counter, timeout, now>> /\ UNCHANGED Ghosts

Heartbeat(w, ttl) ==
  /\ state = "claimed" /\ pid = w
  /\ expiresAt' = now + ttl
  /\ UNCHANGED <<state, counter, pid, timeout, now, ndone, doneC>> /\ UNCHANGED Ghosts

\* timeoutTasks: the lease (or the hand-off deadline) ran out, or the task's deadline passed
Expire ==
  /\ state \in {"enqueued", "claimed"}
  /\ (expiresAt <= now \/ timeout <= now)
  /\ IF now < timeout
     THEN state' = "init" /\ counter' = counter + 1
     ELSE state' = "timedout" /\ counter' = counter
  /\ pid' = "" /\ expiresAt' = 0
  /\ UNCHANGED <<timeout, now, ndone, doneC>> /\ UNCHANGED Ghosts

Next ==
  \/ Tick
  \/ \E d \in Nat : Dispatch(d)
  \/ \E w \in Worker, c \in Int, ttl \in Nat : Claim(w, c, ttl)
  \/ \E c \in Int : Complete(c)
  \/ \E w \in Worker, ttl \in Nat : Heartbeat(w, ttl)
  \/ Expire

TypeOK ==
  /\ state \in States /\ counter \in Int
  /\ pid \in Worker \union {""} /\ expiresAt \in Int
  /\ timeout \in Nat /\ now \in Nat
  /\ g1set \in BOOLEAN /\ g1w \in Worker \union {""} /\ g1c \in Int
  /\ g2set \in BOOLEAN /\ g2w \in Worker \union {""} /\ g2c \in Int
  /\ ndone \in Int /\ doneC \in Int

IndInv ==
  /\ TypeOK
  /\ counter >= 1 /\ expiresAt >= 0
  /\ g1set => g1w \in Worker /\ 1 <= g1c /\ g1c <= counter
  /\ g2set => g2w \in Worker /\ 1 <= g2c /\ g2c <= counter
  /\ g1set /\ g2set => g1c # g2c                       \* two claims never share a counter
  /\ state \in {"init", "enqueued"} =>
        (g1set => g1c < counter) /\ (g2set => g2c < counter)
  /\ state = "claimed" => /\ (g1set /\ g1c = counter => pid = g1w)
                          /\ (g2set /\ g2c = counter => pid = g2w)
  /\ state = "claimed" <=> pid # ""
  /\ ndone \in {0, 1}
  /\ ndone = 1 <=> state = "completed"
  /\ ndone = 1 => doneC = counter

\* the induction step starts from ANY state satisfying IndInv, reachable or not
IndInit == IndInv

(***************************************************************************)
(* C07: at most one holder per counter; a task is completed at most once,  *)
(* with the counter of its current (last) lease; a holder whose lease was  *)
(* revoked (its counter is behind) can neither complete nor be the pid.    *)
(***************************************************************************)
C07_Fencing ==
  /\ g1set /\ g2set => g1c # g2c
  /\ ndone <= 1
  /\ ndone = 1 => doneC = counter
  /\ state = "claimed" /\ g1set /\ g1c < counter => TRUE
  /\ state = "claimed" /\ g1set /\ g1c = counter => pid = g1w
==============================================================================
