---------------------------- MODULE LockLeaseCore ----------------------------
(***************************************************************************)
(* Typed core of the lock lease of Store.tla / Resonate.tla (AcquireLock,  *)
(* ReleaseLock, HeartbeatLocks, TimeoutLocks) for ONE resource with an     *)
(* UNBOUNDED clock and ttl.  Apalache discharges Init => IndInv,           *)
(* IndInv /\ Next => IndInv' and IndInv => C09_Lease, so mutual exclusion  *)
(* and "the lease is honoured" hold for every clock value and every number *)
(* of acquisitions, not only within the bounds of MC_A_lock.               *)
(*                                                                         *)
(* History without unbounded sets: (ge, gEnd) is the belief of ONE         *)
(* ARBITRARY execution that was told it holds the lock until gEnd (every   *)
(* successful acquire may or may not be the remembered one).  What is      *)
(* proved of it is proved of every execution; two executions that both     *)
(* believe they hold the lock at the same instant would both have to be    *)
(* the stored eid, so they are the same execution.                         *)
(***************************************************************************)
EXTENDS Integers

CONSTANTS
  \* @type: Set(Str);
  Exec,
  \* @type: Set(Str);
  Proc

CInit == Exec = {"e1", "e2", "e3"} /\ Proc = {"p1", "p2"}

VARIABLES
  \* @type: Bool;
  held,
  \* @type: Str;
  eid,
  \* @type: Str;
  pid,
  \* @type: Int;
  ttl,
  \* @type: Int;
  expiresAt,
  \* @type: Int;
  now,
  \* @type: Bool;
  gset,       \* the remembered execution believes it holds the lock ...
  \* @type: Str;
  ge,
  \* @type: Int;
  gEnd        \* ... until this instant (the expiresAt of the last reply that concerned it)

Init == /\ held = FALSE /\ eid = "" /\ pid = "" /\ ttl = 0 /\ expiresAt = 0 /\ now = 0
        /\ gset = FALSE /\ ge = "" /\ gEnd = 0

Tick == \E d \in Nat : now' = now + d
        /\ UNCHANGED <<held, eid, pid, ttl, expiresAt, gset, ge, gEnd>>

\* upsert: a free lock is taken, the holder's own re-acquire rewrites pid, ttl and lease end
Acquire(e, p, t) ==
  /\ ~ held \/ eid = e
  /\ held' = TRUE /\ eid' = e /\ pid' = p /\ ttl' = t /\ expiresAt' = now + t
  /\ IF gset /\ ge = e
     THEN gset' = TRUE /\ ge' = e /\ gEnd' = now + t       \* it is told the new lease end
     ELSE \/ gset' = TRUE /\ ge' = e /\ gEnd' = now + t    \* remember this acquisition
          \/ (~ gset \/ gEnd <= now) /\ UNCHANGED <<gset, ge, gEnd>>
          \* (a live belief of another execution is never forgotten)
  /\ UNCHANGED now

Release(e) ==
  /\ held /\ eid = e
  /\ held' = FALSE /\ UNCHANGED <<eid, pid, ttl, expiresAt, now>>
  /\ IF gset /\ ge = e THEN gset' = FALSE /\ UNCHANGED <<ge, gEnd>>
                       ELSE UNCHANGED <<gset, ge, gEnd>>

\* the reply carries only a count: the believer learns nothing, the stored lease moves on
Heartbeat(p) ==
  /\ IF held /\ pid = p THEN expiresAt' = now + ttl ELSE UNCHANGED expiresAt
  /\ UNCHANGED <<held, eid, pid, ttl, now, gset, ge, gEnd>>

Sweep ==
  /\ held /\ expiresAt <= now
  /\ held' = FALSE
  /\ UNCHANGED <<eid, pid, ttl, expiresAt, now, gset, ge, gEnd>>

Next ==
  \/ Tick
  \/ \E e \in Exec, p \in Proc, t \in Nat : Acquire(e, p, t)
  \/ \E e \in Exec : Release(e)
  \/ \E p \in Proc : Heartbeat(p)
  \/ Sweep

TypeOK ==
  /\ held \in BOOLEAN /\ eid \in Exec \union {""} /\ pid \in Proc \union {""}
  /\ ttl \in Nat /\ expiresAt \in Nat /\ now \in Nat
  /\ gset \in BOOLEAN /\ ge \in Exec \union {""} /\ gEnd \in Nat

IndInv ==
  /\ TypeOK
  /\ held => eid \in Exec /\ pid \in Proc
  /\ gset => ge \in Exec
  /\ held => expiresAt <= now + ttl      \* a heartbeat never shortens the stored lease
  \* the lease is honoured: while the believer's lease runs, the lock is its own and the stored
  \* lease ends no earlier than what it was told
  /\ gset /\ now < gEnd => held /\ eid = ge /\ gEnd <= expiresAt

IndInit == IndInv

C09_Lease == gset /\ now < gEnd => held /\ eid = ge
==============================================================================
