------------------------------- MODULE Route -------------------------------
(***************************************************************************)
(* C19: receiver resolution.                                               *)
(*                                                                         *)
(* Part 1 (router): the value of the routing tag decides whether a promise *)
(* is routed and to which receiver.  Part 2 (sender): a stored receiver is *)
(* resolved to a transport plugin and its data; the dispatched body names  *)
(* the task.  Both are finite tables over classes of values with concrete  *)
(* representatives; TLC enumerates the vectors, the harness routex plays   *)
(* them against the REAL router worker and the REAL sender worker (with    *)
(* recording plugins) and TLC judges the observations.                     *)
(***************************************************************************)
EXTENDS Integers, Sequences, FiniteSets, TLC, Json

Q(s) == "\"" \o s \o "\""                      \* JSON string literal of a plain string

(***************************************************************************)
(* Routing-tag cases: [v: tag value, class, recv: the receiver that must   *)
(* be stored ("" when the promise is not routed)].                         *)
(***************************************************************************)
PhysPoll == "{\"type\":\"poll\",\"data\":{\"group\":\"g1\",\"id\":\"i1\"}}"
PhysHttp == "{\"type\":\"http\",\"data\":{\"url\":\"http://h.test/x\"}}"
PhysOdd  == "{\"type\":\"carrier-pigeon\",\"data\":{\"loft\":7}}"

TagCases ==
  { \* plain strings: kept as a logical name, stored JSON-quoted
    [v |-> "w1", class |-> "plain", recv |-> Q("w1")],
    [v |-> "default", class |-> "plain", recv |-> Q("default")],
    [v |-> "poll://g1/i1", class |-> "plain", recv |-> Q("poll://g1/i1")],
    [v |-> "http://h.test/x", class |-> "plain", recv |-> Q("http://h.test/x")],
    [v |-> "not json {", class |-> "plain", recv |-> Q("not json {")],
    \* JSON receiver objects: kept as a physical receiver
    [v |-> PhysPoll, class |-> "physical", recv |-> PhysPoll],
    [v |-> PhysHttp, class |-> "physical", recv |-> PhysHttp],
    [v |-> PhysOdd, class |-> "physical", recv |-> PhysOdd],
    \* anything else that is valid JSON does not route
    [v |-> "{\"data\":{\"group\":\"g1\"}}", class |-> "json-no-type", recv |-> ""],
    [v |-> "{\"type\":\"\",\"data\":{}}", class |-> "json-empty-type", recv |-> ""],
    [v |-> "{\"type\":\"poll\",\"data\":{},\"extra\":1}", class |-> "json-unknown-field", recv |-> ""],
    [v |-> "123", class |-> "json-number", recv |-> ""],
    [v |-> "[1,2]", class |-> "json-array", recv |-> ""],
    [v |-> "true", class |-> "json-bool", recv |-> ""],
    [v |-> "null", class |-> "json-null", recv |-> ""],
    [v |-> "\"quoted\"", class |-> "json-string", recv |-> ""] }
  \cup { [v |-> "<absent>", class |-> "absent", recv |-> ""] }

Routed(tc) == tc.recv # ""

(***************************************************************************)
(* Receiver resolution at dispatch.  Target tables (sender configuration): *)
(***************************************************************************)
TargetTables ==
  { [name |-> "default-only", targets |-> <<>>],
    [name |-> "named", targets |-> << [name |-> "w1", type |-> "http", data |-> "{\"url\":\"http://w1.test/\"}"] >>],
    [name |-> "shadow-url", targets |-> << [name |-> "poll://g1/i1", type |-> "http", data |-> "{\"url\":\"http://shadow.test/\"}"] >>],
    \* a configured target named "default" replaces the built-in one (poll group "default")
    [name |-> "default-configured", targets |-> << [name |-> "default", type |-> "poll", data |-> "{\"group\":\"workers\",\"id\":\"w9\"}"] >>],
    [name |-> "unknown-plugin", targets |-> << [name |-> "w1", type |-> "smoke-signal", data |-> "{}"] >>] }

\* stored receivers handed to the sender: [recv, kind, ...]
StoredRecvs ==
  { [recv |-> Q("w1"), kind |-> "logical", name |-> "w1"],
    [recv |-> Q("default"), kind |-> "logical", name |-> "default"],
    [recv |-> Q("nowhere"), kind |-> "logical", name |-> "nowhere"],
    [recv |-> Q("poll://g1/i1"), kind |-> "logical", name |-> "poll://g1/i1"],
    [recv |-> Q("poll://g2"), kind |-> "logical", name |-> "poll://g2"],
    [recv |-> Q("poll://g1/eu/w1"), kind |-> "logical", name |-> "poll://g1/eu/w1"],     \* an id with a slash in it
    [recv |-> Q("poll://g1/worker%201"), kind |-> "logical", name |-> "poll://g1/worker%201"],   \* percent-encoded: the listener registered as "worker 1"
    [recv |-> Q("poll://g1/a%2Fb"), kind |-> "logical", name |-> "poll://g1/a%2Fb"],
    [recv |-> Q("http://h.test/x"), kind |-> "logical", name |-> "http://h.test/x"],
    [recv |-> Q("https://h.test/y?z=1"), kind |-> "logical", name |-> "https://h.test/y?z=1"],
    [recv |-> Q("ftp://h.test/x"), kind |-> "logical", name |-> "ftp://h.test/x"],
    [recv |-> PhysPoll, kind |-> "physical", type |-> "poll", data |-> "{\"group\":\"g1\",\"id\":\"i1\"}"],
    [recv |-> PhysHttp, kind |-> "physical", type |-> "http", data |-> "{\"url\":\"http://h.test/x\"}"],
    [recv |-> PhysOdd, kind |-> "physical", type |-> "carrier-pigeon", data |-> "{\"loft\":7}"] }

Plugins == {"http", "poll"}

TargetOf(tt, name) ==
  LET hits == {i \in DOMAIN tt.targets : tt.targets[i].name = name} IN
  IF name = "default" /\ hits = {} THEN [type |-> "poll", data |-> "{\"group\":\"default\"}"]
  ELSE IF hits = {} THEN [type |-> "", data |-> ""]
  ELSE [type |-> tt.targets[CHOOSE i \in hits : TRUE].type, data |-> tt.targets[CHOOSE i \in hits : TRUE].data]

\* resolution by URL scheme of a logical name that is not a configured target
SchemeOf(name) ==
  CASE name = "poll://g1/i1" -> [type |-> "poll", data |-> "{\"group\":\"g1\",\"id\":\"i1\"}"]
    [] name = "poll://g2" -> [type |-> "poll", data |-> "{\"group\":\"g2\"}"]
    [] name = "poll://g1/eu/w1" -> [type |-> "poll", data |-> "{\"group\":\"g1\",\"id\":\"eu/w1\"}"]
    [] name = "poll://g1/worker%201" -> [type |-> "poll", data |-> "{\"group\":\"g1\",\"id\":\"worker 1\"}"]
    [] name = "poll://g1/a%2Fb" -> [type |-> "poll", data |-> "{\"group\":\"g1\",\"id\":\"a/b\"}"]
    [] name = "http://h.test/x" -> [type |-> "http", data |-> "{\"url\":\"http://h.test/x\"}"]
    [] name = "https://h.test/y?z=1" -> [type |-> "http", data |-> "{\"url\":\"https://h.test/y?z=1\"}"]
    [] OTHER -> [type |-> "", data |-> ""]

\* [plugin, data] or plugin = "" for "unknown / undeliverable: a failed hand-off"
Resolve(tt, sr) ==
  LET r == IF sr.kind = "physical" THEN [type |-> sr.type, data |-> sr.data]
           ELSE LET t == TargetOf(tt, sr.name) IN IF t.type # "" THEN t ELSE SchemeOf(sr.name)
  IN IF r.type \in Plugins THEN [plugin |-> r.type, data |-> r.data] ELSE [plugin |-> "", data |-> ""]

TaskKinds == {"invoke", "resume", "notify"}

(***************************************************************************)
(* Source tables (router configuration): every source names the tag it     *)
(* looks at; the first source whose tag the promise carries decides; the   *)
(* built-in source (tag resonate:invoke) is there exactly when no          *)
(* configured source is named "default".                                   *)
(***************************************************************************)
Src(n, k) == [name |-> n, key |-> k]
SourceTables ==
  { [name |-> "stock", sources |-> <<>>],
    [name |-> "default-replaced", sources |-> << Src("default", "acme:route") >>],
    [name |-> "default-first", sources |-> << Src("default", "acme:route"), Src("audit", "acme:audit") >>],
    [name |-> "default-last", sources |-> << Src("audit", "acme:audit"), Src("default", "acme:route") >>],
    [name |-> "default-middle", sources |-> << Src("audit", "acme:audit"), Src("default", "acme:route"), Src("billing", "acme:bill") >>],
    [name |-> "extra-only", sources |-> << Src("audit", "acme:audit") >>] }
TagSets ==
  { [name |-> "invoke-only", tags |-> << <<"resonate:invoke", "w1">> >>],
    [name |-> "route-only", tags |-> << <<"acme:route", "w2">> >>],
    [name |-> "audit-only", tags |-> << <<"acme:audit", "w3">> >>],
    [name |-> "bill-and-invoke", tags |-> << <<"acme:bill", "w4">>, <<"resonate:invoke", "w1">> >>],
    [name |-> "all", tags |-> << <<"resonate:invoke", "w1">>, <<"acme:route", "w2">>, <<"acme:audit", "w3">> >>],
    [name |-> "none", tags |-> << <<"other", "x">> >>] }
EffectiveKeys(st) ==
  [i \in DOMAIN st.sources |-> st.sources[i].key]
  \o (IF \E i \in DOMAIN st.sources : st.sources[i].name = "default" THEN <<>> ELSE <<"resonate:invoke">>)
ValueOf(ts, k) == LET i == CHOOSE i \in DOMAIN ts.tags : ts.tags[i][1] = k IN ts.tags[i][2]
Carries(ts, k) == \E i \in DOMAIN ts.tags : ts.tags[i][1] = k
\* the receiver the router must answer ("" = not routed)
SourceRecv(st, ts) ==
  LET keys == EffectiveKeys(st)
      hits == {i \in DOMAIN keys : Carries(ts, keys[i])} IN
  IF hits = {} THEN "" ELSE Q(ValueOf(ts, keys[CHOOSE i \in hits : \A j \in hits : i <= j]))

RouteVectors == {[part |-> "route", tag |-> tc.v, class |-> tc.class, table |-> "stock", sources |-> <<>>, ptags |-> <<>>] : tc \in TagCases}
                \cup {[part |-> "route", tag |-> st.name \o "/" \o ts.name, class |-> "sources", table |-> st.name, sources |-> st.sources, ptags |-> ts.tags] :
                        st \in SourceTables, ts \in TagSets}
SendVectors == {[part |-> "send", table |-> tt.name, targets |-> tt.targets, recv |-> sr.recv, kind |-> k] :
                  tt \in TargetTables, sr \in StoredRecvs, k \in TaskKinds}

(***************************************************************************)
(* Judging observations.                                                   *)
(***************************************************************************)
TagCase(v) == CHOOSE tc \in TagCases : tc.v = v
RouteOK(o) ==   \* o = [tag, class, table, tagset, matched, recv, err, dead]
  IF o.class = "sources"
  THEN LET st == CHOOSE st \in SourceTables : st.name = o.table
           ts == CHOOSE ts \in TagSets : ts.name = o.tagset
           want == SourceRecv(st, ts) IN
       /\ ~ o.dead /\ ~ o.err
       /\ o.matched = (want # "")
       /\ (want # "") => o.recvNorm = want
  ELSE LET tc == TagCase(o.tag) IN
       /\ ~ o.dead /\ ~ o.err
       /\ o.matched = Routed(tc)
       /\ Routed(tc) => o.recvNorm = tc.recv

TableByName(n) == CHOOSE tt \in TargetTables : tt.name = n
StoredBy(r) == CHOOSE sr \in StoredRecvs : sr.recv = r
SendOK(o) ==    \* o = [table, recv, kind, handed, plugin, dataNorm, outcome, body..., dead]
  LET want == Resolve(TableByName(o.table), StoredBy(o.recv)) IN
  /\ ~ o.dead
  /\ IF want.plugin = ""
     THEN ~ o.handed /\ o.outcome = "err"          \* a failed hand-off, to be retried; nothing misdirected
     ELSE /\ o.handed /\ o.plugin = want.plugin /\ o.dataNorm = want.data
          /\ o.outcome = "ok"
          /\ o.msgType = o.kind          \* the transport is told what kind of message it carries
          /\ o.bodyType = o.kind
          /\ IF o.kind = "notify"
             THEN o.bodyPromiseId = o.promiseId /\ ~ o.bodyHasTask
             ELSE /\ o.bodyHasTask /\ o.bodyTaskId = o.taskId /\ o.bodyTaskCounter = o.taskCounter
                  /\ o.hrefClaim = o.base \o "/tasks/claim/" \o o.taskId \o "/" \o ToString(o.taskCounter)
                  /\ o.hrefComplete = o.base \o "/tasks/complete/" \o o.taskId \o "/" \o ToString(o.taskCounter)
                  /\ o.hrefHeartbeat = o.base \o "/tasks/heartbeat/" \o o.taskId \o "/" \o ToString(o.taskCounter)
=============================================================================
