---- MODULE ResonateTrace_TTrace_1790361746 ----
EXTENDS Sequences, TLCExt, Toolbox, Naturals, TLC, ResonateTrace

_expression ==
    LET ResonateTrace_TEExpression == INSTANCE ResonateTrace_TEExpression
    IN ResonateTrace_TEExpression!expression
----

_trace ==
    LET ResonateTrace_TETrace == INSTANCE ResonateTrace_TETrace
    IN ResonateTrace_TETrace!trace
----

_inv ==
    ~(
        TLCGet("level") = Len(_TETrace)
        /\
        reqs = ([r1 |-> [t |-> 11861, kind |-> "ReadSchedule", args |-> [id |-> "sc2"]], r2 |-> [t |-> 11861, kind |-> "CompletePromise", args |-> [id |-> "p1", state |-> "REJECTED_CANCELED", value |-> [headers |-> [], data |-> ""], ikey |-> <<>>, strict |-> FALSE]], r3 |-> [t |-> 11861, kind |-> "ReleaseLock", args |-> [eid |-> "e2", rid |-> "l2"]], r4 |-> [t |-> 11862, kind |-> "DeleteSchedule", args |-> [id |-> "sc1"]], r5 |-> [t |-> 11862, kind |-> "CreateCallback", args |-> [timeout |-> 11863, rootId |-> "p1", promiseId |-> "p1", recv |-> "\"w1\""]], r6 |-> [t |-> 11862, kind |-> "CreateCallback", args |-> [timeout |-> 11865, rootId |-> "p2", promiseId |-> "p3", recv |-> "\"w1\""]]])
        /\
        lapsed = ({})
        /\
        snaps = ([r1 |-> {[S |-> [tasks |-> [], schedules |-> [], promises |-> [], porder |-> <<>>, callbacks |-> [], locks |-> [], sorder |-> <<>>], dt |-> 11861]}, r2 |-> {[S |-> [tasks |-> [], schedules |-> [], promises |-> [], porder |-> <<>>, callbacks |-> [], locks |-> [], sorder |-> <<>>], dt |-> 11862]}])
        /\
        faulted = ({})
        /\
        cfg = ([taskEnqueueDelay |-> 1, coroutineMaxSize |-> 100, submissionBatchSize |-> 8, completionBatchSize |-> 10, promiseBatchSize |-> 2, scheduleBatchSize |-> 2, taskBatchSize |-> 1, signalTimeout |-> 0, apiSize |-> 100, background |-> <<"TimeoutPromises", "SchedulePromises", "TimeoutLocks", "EnqueueTasks", "TimeoutTasks">>])
        /\
        chk = ([tables |-> {}, who |-> "CreateCallback", resp |-> "CreateCallback", why |-> "", drift |-> "", dup |-> {}])
        /\
        l = (17)
        /\
        seen = (<<>>)
        /\
        pdb = ([tasks |-> [], schedules |-> [], promises |-> [], porder |-> <<>>, callbacks |-> [], locks |-> [], sorder |-> <<>>])
        /\
        sends = (<<>>)
        /\
        now = (11863)
        /\
        claims = ({})
        /\
        cand = (<<>>)
        /\
        exp = ([tasks |-> <<>>, schedules |-> [], promises |-> [], porder |-> <<>>, callbacks |-> [], locks |-> [], sorder |-> <<>>])
        /\
        db = ([tasks |-> [], schedules |-> [], promises |-> [], porder |-> <<>>, callbacks |-> [], locks |-> [], sorder |-> <<>>])
    )
----

_init ==
    /\ reqs = _TETrace[1].reqs
    /\ l = _TETrace[1].l
    /\ db = _TETrace[1].db
    /\ lapsed = _TETrace[1].lapsed
    /\ cfg = _TETrace[1].cfg
    /\ cand = _TETrace[1].cand
    /\ chk = _TETrace[1].chk
    /\ now = _TETrace[1].now
    /\ seen = _TETrace[1].seen
    /\ pdb = _TETrace[1].pdb
    /\ exp = _TETrace[1].exp
    /\ faulted = _TETrace[1].faulted
    /\ snaps = _TETrace[1].snaps
    /\ sends = _TETrace[1].sends
    /\ claims = _TETrace[1].claims
----

_next ==
    /\ \E i,j \in DOMAIN _TETrace:
        /\ \/ /\ j = i + 1
              /\ i = TLCGet("level")
        /\ reqs  = _TETrace[i].reqs
        /\ reqs' = _TETrace[j].reqs
        /\ l  = _TETrace[i].l
        /\ l' = _TETrace[j].l
        /\ db  = _TETrace[i].db
        /\ db' = _TETrace[j].db
        /\ lapsed  = _TETrace[i].lapsed
        /\ lapsed' = _TETrace[j].lapsed
        /\ cfg  = _TETrace[i].cfg
        /\ cfg' = _TETrace[j].cfg
        /\ cand  = _TETrace[i].cand
        /\ cand' = _TETrace[j].cand
        /\ chk  = _TETrace[i].chk
        /\ chk' = _TETrace[j].chk
        /\ now  = _TETrace[i].now
        /\ now' = _TETrace[j].now
        /\ seen  = _TETrace[i].seen
        /\ seen' = _TETrace[j].seen
        /\ pdb  = _TETrace[i].pdb
        /\ pdb' = _TETrace[j].pdb
        /\ exp  = _TETrace[i].exp
        /\ exp' = _TETrace[j].exp
        /\ faulted  = _TETrace[i].faulted
        /\ faulted' = _TETrace[j].faulted
        /\ snaps  = _TETrace[i].snaps
        /\ snaps' = _TETrace[j].snaps
        /\ sends  = _TETrace[i].sends
        /\ sends' = _TETrace[j].sends
        /\ claims  = _TETrace[i].claims
        /\ claims' = _TETrace[j].claims

\* Uncomment the ASSUME below to write the states of the error trace
\* to the given file in Json format. Note that you can pass any tuple
\* to `JsonSerialize`. For example, a sub-sequence of _TETrace.
    \* ASSUME
    \*     LET J == INSTANCE Json
    \*         IN J!JsonSerialize("ResonateTrace_TTrace_1790361746.json", _TETrace)

=============================================================================

 Note that you can extract this module `ResonateTrace_TEExpression`
  to a dedicated file to reuse `expression` (the module in the 
  dedicated `ResonateTrace_TEExpression.tla` file takes precedence 
  over the module `ResonateTrace_TEExpression` below).

---- MODULE ResonateTrace_TEExpression ----
EXTENDS Sequences, TLCExt, Toolbox, Naturals, TLC, ResonateTrace

expression == 
    [
        \* To hide variables of the `ResonateTrace` spec from the error trace,
        \* remove the variables below.  The trace will be written in the order
        \* of the fields of this record.
        reqs |-> reqs
        ,l |-> l
        ,db |-> db
        ,lapsed |-> lapsed
        ,cfg |-> cfg
        ,cand |-> cand
        ,chk |-> chk
        ,now |-> now
        ,seen |-> seen
        ,pdb |-> pdb
        ,exp |-> exp
        ,faulted |-> faulted
        ,snaps |-> snaps
        ,sends |-> sends
        ,claims |-> claims
        
        \* Put additional constant-, state-, and action-level expressions here:
        \* ,_stateNumber |-> _TEPosition
        \* ,_reqsUnchanged |-> reqs = reqs'
        
        \* Format the `reqs` variable as Json value.
        \* ,_reqsJson |->
        \*     LET J == INSTANCE Json
        \*     IN J!ToJson(reqs)
        
        \* Lastly, you may build expressions over arbitrary sets of states by
        \* leveraging the _TETrace operator.  For example, this is how to
        \* count the number of times a spec variable changed up to the current
        \* state in the trace.
        \* ,_reqsModCount |->
        \*     LET F[s \in DOMAIN _TETrace] ==
        \*         IF s = 1 THEN 0
        \*         ELSE IF _TETrace[s].reqs # _TETrace[s-1].reqs
        \*             THEN 1 + F[s-1] ELSE F[s-1]
        \*     IN F[_TEPosition - 1]
    ]

=============================================================================



Parsing and semantic processing can take forever if the trace below is long.
 In this case, it is advised to uncomment the module below to deserialize the
 trace from a generated binary file.

\*
\*---- MODULE ResonateTrace_TETrace ----
\*EXTENDS IOUtils, TLC, ResonateTrace
\*
\*trace == IODeserialize("ResonateTrace_TTrace_1790361746.bin", TRUE)
\*
\*=============================================================================
\*

---- MODULE ResonateTrace_TETrace ----
EXTENDS TLC, ResonateTrace

trace == 
    <<
    ([reqs |-> <<>>,lapsed |-> {},snaps |-> <<>>,faulted |-> {},cfg |-> <<>>,chk |-> [tables |-> {}, who |-> "", resp |-> "", why |-> "", drift |-> "", dup |-> {}],l |-> 1,seen |-> <<>>,pdb |-> [tasks |-> <<>>, schedules |-> <<>>, promises |-> <<>>, porder |-> <<>>, callbacks |-> <<>>, locks |-> <<>>, sorder |-> <<>>],sends |-> <<>>,now |-> 0,claims |-> {},cand |-> <<>>,exp |-> [tasks |-> <<>>, schedules |-> <<>>, promises |-> <<>>, porder |-> <<>>, callbacks |-> <<>>, locks |-> <<>>, sorder |-> <<>>],db |-> [tasks |-> <<>>, schedules |-> <<>>, promises |-> <<>>, porder |-> <<>>, callbacks |-> <<>>, locks |-> <<>>, sorder |-> <<>>]]),
    ([reqs |-> <<>>,lapsed |-> {},snaps |-> <<>>,faulted |-> {},cfg |-> [taskEnqueueDelay |-> 1, coroutineMaxSize |-> 100, submissionBatchSize |-> 8, completionBatchSize |-> 10, promiseBatchSize |-> 2, scheduleBatchSize |-> 2, taskBatchSize |-> 1, signalTimeout |-> 0, apiSize |-> 100, background |-> <<"TimeoutPromises", "SchedulePromises", "TimeoutLocks", "EnqueueTasks", "TimeoutTasks">>],chk |-> [tables |-> {}, who |-> "", resp |-> "", why |-> "", drift |-> "", dup |-> {}],l |-> 2,seen |-> <<>>,pdb |-> [tasks |-> <<>>, schedules |-> <<>>, promises |-> <<>>, porder |-> <<>>, callbacks |-> <<>>, locks |-> <<>>, sorder |-> <<>>],sends |-> <<>>,now |-> 11861,claims |-> {},cand |-> <<>>,exp |-> [tasks |-> <<>>, schedules |-> <<>>, promises |-> <<>>, porder |-> <<>>, callbacks |-> <<>>, locks |-> <<>>, sorder |-> <<>>],db |-> [tasks |-> <<>>, schedules |-> <<>>, promises |-> <<>>, porder |-> <<>>, callbacks |-> <<>>, locks |-> <<>>, sorder |-> <<>>]]),
    ([reqs |-> [r1 |-> [t |-> 11861, kind |-> "ReadSchedule", args |-> [id |-> "sc2"]]],lapsed |-> {},snaps |-> <<>>,faulted |-> {},cfg |-> [taskEnqueueDelay |-> 1, coroutineMaxSize |-> 100, submissionBatchSize |-> 8, completionBatchSize |-> 10, promiseBatchSize |-> 2, scheduleBatchSize |-> 2, taskBatchSize |-> 1, signalTimeout |-> 0, apiSize |-> 100, background |-> <<"TimeoutPromises", "SchedulePromises", "TimeoutLocks", "EnqueueTasks", "TimeoutTasks">>],chk |-> [tables |-> {}, who |-> "", resp |-> "", why |-> "", drift |-> "", dup |-> {}],l |-> 3,seen |-> <<>>,pdb |-> [tasks |-> <<>>, schedules |-> <<>>, promises |-> <<>>, porder |-> <<>>, callbacks |-> <<>>, locks |-> <<>>, sorder |-> <<>>],sends |-> <<>>,now |-> 11861,claims |-> {},cand |-> <<>>,exp |-> [tasks |-> <<>>, schedules |-> <<>>, promises |-> <<>>, porder |-> <<>>, callbacks |-> <<>>, locks |-> <<>>, sorder |-> <<>>],db |-> [tasks |-> <<>>, schedules |-> <<>>, promises |-> <<>>, porder |-> <<>>, callbacks |-> <<>>, locks |-> <<>>, sorder |-> <<>>]]),
    ([reqs |-> [r1 |-> [t |-> 11861, kind |-> "ReadSchedule", args |-> [id |-> "sc2"]]],lapsed |-> {},snaps |-> <<>>,faulted |-> {},cfg |-> [taskEnqueueDelay |-> 1, coroutineMaxSize |-> 100, submissionBatchSize |-> 8, completionBatchSize |-> 10, promiseBatchSize |-> 2, scheduleBatchSize |-> 2, taskBatchSize |-> 1, signalTimeout |-> 0, apiSize |-> 100, background |-> <<"TimeoutPromises", "SchedulePromises", "TimeoutLocks", "EnqueueTasks", "TimeoutTasks">>],chk |-> [tables |-> {}, who |-> "", resp |-> "", why |-> "", drift |-> "", dup |-> {}],l |-> 4,seen |-> <<>>,pdb |-> [tasks |-> <<>>, schedules |-> <<>>, promises |-> <<>>, porder |-> <<>>, callbacks |-> <<>>, locks |-> <<>>, sorder |-> <<>>],sends |-> <<>>,now |-> 11861,claims |-> {},cand |-> <<>>,exp |-> [tasks |-> <<>>, schedules |-> <<>>, promises |-> <<>>, porder |-> <<>>, callbacks |-> <<>>, locks |-> <<>>, sorder |-> <<>>],db |-> [tasks |-> <<>>, schedules |-> <<>>, promises |-> <<>>, porder |-> <<>>, callbacks |-> <<>>, locks |-> <<>>, sorder |-> <<>>]]),
    ([reqs |-> [r1 |-> [t |-> 11861, kind |-> "ReadSchedule", args |-> [id |-> "sc2"]]],lapsed |-> {},snaps |-> <<>>,faulted |-> {},cfg |-> [taskEnqueueDelay |-> 1, coroutineMaxSize |-> 100, submissionBatchSize |-> 8, completionBatchSize |-> 10, promiseBatchSize |-> 2, scheduleBatchSize |-> 2, taskBatchSize |-> 1, signalTimeout |-> 0, apiSize |-> 100, background |-> <<"TimeoutPromises", "SchedulePromises", "TimeoutLocks", "EnqueueTasks", "TimeoutTasks">>],chk |-> [tables |-> {}, who |-> "{\"EnqueueTasks\"}", resp |-> "", why |-> "", drift |-> "", dup |-> {}],l |-> 5,seen |-> <<>>,pdb |-> [tasks |-> <<>>, schedules |-> <<>>, promises |-> <<>>, porder |-> <<>>, callbacks |-> <<>>, locks |-> <<>>, sorder |-> <<>>],sends |-> <<>>,now |-> 11861,claims |-> {},cand |-> <<>>,exp |-> [tasks |-> <<>>, schedules |-> <<>>, promises |-> <<>>, porder |-> <<>>, callbacks |-> <<>>, locks |-> <<>>, sorder |-> <<>>],db |-> [tasks |-> [], schedules |-> [], promises |-> [], porder |-> <<>>, callbacks |-> [], locks |-> [], sorder |-> <<>>]]),
    ([reqs |-> [r1 |-> [t |-> 11861, kind |-> "ReadSchedule", args |-> [id |-> "sc2"]]],lapsed |-> {},snaps |-> [r1 |-> {[S |-> [tasks |-> [], schedules |-> [], promises |-> [], porder |-> <<>>, callbacks |-> [], locks |-> [], sorder |-> <<>>], dt |-> 11861]}],faulted |-> {},cfg |-> [taskEnqueueDelay |-> 1, coroutineMaxSize |-> 100, submissionBatchSize |-> 8, completionBatchSize |-> 10, promiseBatchSize |-> 2, scheduleBatchSize |-> 2, taskBatchSize |-> 1, signalTimeout |-> 0, apiSize |-> 100, background |-> <<"TimeoutPromises", "SchedulePromises", "TimeoutLocks", "EnqueueTasks", "TimeoutTasks">>],chk |-> [tables |-> {}, who |-> "{\"ReadSchedule\", \"SchedulePromises\"}", resp |-> "", why |-> "", drift |-> "", dup |-> {}],l |-> 6,seen |-> <<>>,pdb |-> [tasks |-> [], schedules |-> [], promises |-> [], porder |-> <<>>, callbacks |-> [], locks |-> [], sorder |-> <<>>],sends |-> <<>>,now |-> 11861,claims |-> {},cand |-> <<>>,exp |-> [tasks |-> <<>>, schedules |-> [], promises |-> [], porder |-> <<>>, callbacks |-> [], locks |-> [], sorder |-> <<>>],db |-> [tasks |-> [], schedules |-> [], promises |-> [], porder |-> <<>>, callbacks |-> [], locks |-> [], sorder |-> <<>>]]),
    ([reqs |-> [r1 |-> [t |-> 11861, kind |-> "ReadSchedule", args |-> [id |-> "sc2"]], r2 |-> [t |-> 11861, kind |-> "CompletePromise", args |-> [id |-> "p1", state |-> "REJECTED_CANCELED", value |-> [headers |-> [], data |-> ""], ikey |-> <<>>, strict |-> FALSE]]],lapsed |-> {},snaps |-> [r1 |-> {[S |-> [tasks |-> [], schedules |-> [], promises |-> [], porder |-> <<>>, callbacks |-> [], locks |-> [], sorder |-> <<>>], dt |-> 11861]}],faulted |-> {},cfg |-> [taskEnqueueDelay |-> 1, coroutineMaxSize |-> 100, submissionBatchSize |-> 8, completionBatchSize |-> 10, promiseBatchSize |-> 2, scheduleBatchSize |-> 2, taskBatchSize |-> 1, signalTimeout |-> 0, apiSize |-> 100, background |-> <<"TimeoutPromises", "SchedulePromises", "TimeoutLocks", "EnqueueTasks", "TimeoutTasks">>],chk |-> [tables |-> {}, who |-> "", resp |-> "", why |-> "", drift |-> "", dup |-> {}],l |-> 7,seen |-> <<>>,pdb |-> [tasks |-> [], schedules |-> [], promises |-> [], porder |-> <<>>, callbacks |-> [], locks |-> [], sorder |-> <<>>],sends |-> <<>>,now |-> 11861,claims |-> {},cand |-> <<>>,exp |-> [tasks |-> <<>>, schedules |-> [], promises |-> [], porder |-> <<>>, callbacks |-> [], locks |-> [], sorder |-> <<>>],db |-> [tasks |-> [], schedules |-> [], promises |-> [], porder |-> <<>>, callbacks |-> [], locks |-> [], sorder |-> <<>>]]),
    ([reqs |-> [r1 |-> [t |-> 11861, kind |-> "ReadSchedule", args |-> [id |-> "sc2"]], r2 |-> [t |-> 11861, kind |-> "CompletePromise", args |-> [id |-> "p1", state |-> "REJECTED_CANCELED", value |-> [headers |-> [], data |-> ""], ikey |-> <<>>, strict |-> FALSE]], r3 |-> [t |-> 11861, kind |-> "ReleaseLock", args |-> [eid |-> "e2", rid |-> "l2"]]],lapsed |-> {},snaps |-> [r1 |-> {[S |-> [tasks |-> [], schedules |-> [], promises |-> [], porder |-> <<>>, callbacks |-> [], locks |-> [], sorder |-> <<>>], dt |-> 11861]}],faulted |-> {},cfg |-> [taskEnqueueDelay |-> 1, coroutineMaxSize |-> 100, submissionBatchSize |-> 8, completionBatchSize |-> 10, promiseBatchSize |-> 2, scheduleBatchSize |-> 2, taskBatchSize |-> 1, signalTimeout |-> 0, apiSize |-> 100, background |-> <<"TimeoutPromises", "SchedulePromises", "TimeoutLocks", "EnqueueTasks", "TimeoutTasks">>],chk |-> [tables |-> {}, who |-> "", resp |-> "", why |-> "", drift |-> "", dup |-> {}],l |-> 8,seen |-> <<>>,pdb |-> [tasks |-> [], schedules |-> [], promises |-> [], porder |-> <<>>, callbacks |-> [], locks |-> [], sorder |-> <<>>],sends |-> <<>>,now |-> 11861,claims |-> {},cand |-> <<>>,exp |-> [tasks |-> <<>>, schedules |-> [], promises |-> [], porder |-> <<>>, callbacks |-> [], locks |-> [], sorder |-> <<>>],db |-> [tasks |-> [], schedules |-> [], promises |-> [], porder |-> <<>>, callbacks |-> [], locks |-> [], sorder |-> <<>>]]),
    ([reqs |-> [r1 |-> [t |-> 11861, kind |-> "ReadSchedule", args |-> [id |-> "sc2"]], r2 |-> [t |-> 11861, kind |-> "CompletePromise", args |-> [id |-> "p1", state |-> "REJECTED_CANCELED", value |-> [headers |-> [], data |-> ""], ikey |-> <<>>, strict |-> FALSE]], r3 |-> [t |-> 11861, kind |-> "ReleaseLock", args |-> [eid |-> "e2", rid |-> "l2"]]],lapsed |-> {},snaps |-> [r1 |-> {[S |-> [tasks |-> [], schedules |-> [], promises |-> [], porder |-> <<>>, callbacks |-> [], locks |-> [], sorder |-> <<>>], dt |-> 11861]}],faulted |-> {},cfg |-> [taskEnqueueDelay |-> 1, coroutineMaxSize |-> 100, submissionBatchSize |-> 8, completionBatchSize |-> 10, promiseBatchSize |-> 2, scheduleBatchSize |-> 2, taskBatchSize |-> 1, signalTimeout |-> 0, apiSize |-> 100, background |-> <<"TimeoutPromises", "SchedulePromises", "TimeoutLocks", "EnqueueTasks", "TimeoutTasks">>],chk |-> [tables |-> {}, who |-> "", resp |-> "", why |-> "", drift |-> "", dup |-> {}],l |-> 9,seen |-> <<>>,pdb |-> [tasks |-> [], schedules |-> [], promises |-> [], porder |-> <<>>, callbacks |-> [], locks |-> [], sorder |-> <<>>],sends |-> <<>>,now |-> 11862,claims |-> {},cand |-> <<>>,exp |-> [tasks |-> <<>>, schedules |-> [], promises |-> [], porder |-> <<>>, callbacks |-> [], locks |-> [], sorder |-> <<>>],db |-> [tasks |-> [], schedules |-> [], promises |-> [], porder |-> <<>>, callbacks |-> [], locks |-> [], sorder |-> <<>>]]),
    ([reqs |-> [r1 |-> [t |-> 11861, kind |-> "ReadSchedule", args |-> [id |-> "sc2"]], r2 |-> [t |-> 11861, kind |-> "CompletePromise", args |-> [id |-> "p1", state |-> "REJECTED_CANCELED", value |-> [headers |-> [], data |-> ""], ikey |-> <<>>, strict |-> FALSE]], r3 |-> [t |-> 11861, kind |-> "ReleaseLock", args |-> [eid |-> "e2", rid |-> "l2"]]],lapsed |-> {},snaps |-> [r1 |-> {[S |-> [tasks |-> [], schedules |-> [], promises |-> [], porder |-> <<>>, callbacks |-> [], locks |-> [], sorder |-> <<>>], dt |-> 11861]}],faulted |-> {},cfg |-> [taskEnqueueDelay |-> 1, coroutineMaxSize |-> 100, submissionBatchSize |-> 8, completionBatchSize |-> 10, promiseBatchSize |-> 2, scheduleBatchSize |-> 2, taskBatchSize |-> 1, signalTimeout |-> 0, apiSize |-> 100, background |-> <<"TimeoutPromises", "SchedulePromises", "TimeoutLocks", "EnqueueTasks", "TimeoutTasks">>],chk |-> [tables |-> {}, who |-> "ReadSchedule", resp |-> "", why |-> "", drift |-> "", dup |-> {}],l |-> 10,seen |-> <<>>,pdb |-> [tasks |-> [], schedules |-> [], promises |-> [], porder |-> <<>>, callbacks |-> [], locks |-> [], sorder |-> <<>>],sends |-> <<>>,now |-> 11862,claims |-> {},cand |-> <<>>,exp |-> [tasks |-> <<>>, schedules |-> [], promises |-> [], porder |-> <<>>, callbacks |-> [], locks |-> [], sorder |-> <<>>],db |-> [tasks |-> [], schedules |-> [], promises |-> [], porder |-> <<>>, callbacks |-> [], locks |-> [], sorder |-> <<>>]]),
    ([reqs |-> [r1 |-> [t |-> 11861, kind |-> "ReadSchedule", args |-> [id |-> "sc2"]], r2 |-> [t |-> 11861, kind |-> "CompletePromise", args |-> [id |-> "p1", state |-> "REJECTED_CANCELED", value |-> [headers |-> [], data |-> ""], ikey |-> <<>>, strict |-> FALSE]], r3 |-> [t |-> 11861, kind |-> "ReleaseLock", args |-> [eid |-> "e2", rid |-> "l2"]]],lapsed |-> {},snaps |-> [r1 |-> {[S |-> [tasks |-> [], schedules |-> [], promises |-> [], porder |-> <<>>, callbacks |-> [], locks |-> [], sorder |-> <<>>], dt |-> 11861]}],faulted |-> {},cfg |-> [taskEnqueueDelay |-> 1, coroutineMaxSize |-> 100, submissionBatchSize |-> 8, completionBatchSize |-> 10, promiseBatchSize |-> 2, scheduleBatchSize |-> 2, taskBatchSize |-> 1, signalTimeout |-> 0, apiSize |-> 100, background |-> <<"TimeoutPromises", "SchedulePromises", "TimeoutLocks", "EnqueueTasks", "TimeoutTasks">>],chk |-> [tables |-> {}, who |-> "{\"TimeoutPromises\"}", resp |-> "", why |-> "", drift |-> "", dup |-> {}],l |-> 11,seen |-> <<>>,pdb |-> [tasks |-> [], schedules |-> [], promises |-> [], porder |-> <<>>, callbacks |-> [], locks |-> [], sorder |-> <<>>],sends |-> <<>>,now |-> 11862,claims |-> {},cand |-> <<>>,exp |-> [tasks |-> <<>>, schedules |-> [], promises |-> [], porder |-> <<>>, callbacks |-> [], locks |-> [], sorder |-> <<>>],db |-> [tasks |-> [], schedules |-> [], promises |-> [], porder |-> <<>>, callbacks |-> [], locks |-> [], sorder |-> <<>>]]),
    ([reqs |-> [r1 |-> [t |-> 11861, kind |-> "ReadSchedule", args |-> [id |-> "sc2"]], r2 |-> [t |-> 11861, kind |-> "CompletePromise", args |-> [id |-> "p1", state |-> "REJECTED_CANCELED", value |-> [headers |-> [], data |-> ""], ikey |-> <<>>, strict |-> FALSE]], r3 |-> [t |-> 11861, kind |-> "ReleaseLock", args |-> [eid |-> "e2", rid |-> "l2"]]],lapsed |-> {},snaps |-> [r1 |-> {[S |-> [tasks |-> [], schedules |-> [], promises |-> [], porder |-> <<>>, callbacks |-> [], locks |-> [], sorder |-> <<>>], dt |-> 11861]}, r2 |-> {[S |-> [tasks |-> [], schedules |-> [], promises |-> [], porder |-> <<>>, callbacks |-> [], locks |-> [], sorder |-> <<>>], dt |-> 11862]}],faulted |-> {},cfg |-> [taskEnqueueDelay |-> 1, coroutineMaxSize |-> 100, submissionBatchSize |-> 8, completionBatchSize |-> 10, promiseBatchSize |-> 2, scheduleBatchSize |-> 2, taskBatchSize |-> 1, signalTimeout |-> 0, apiSize |-> 100, background |-> <<"TimeoutPromises", "SchedulePromises", "TimeoutLocks", "EnqueueTasks", "TimeoutTasks">>],chk |-> [tables |-> {}, who |-> "{\"CompletePromise\", \"TimeoutTasks\"}", resp |-> "", why |-> "", drift |-> "", dup |-> {}],l |-> 12,seen |-> <<>>,pdb |-> [tasks |-> [], schedules |-> [], promises |-> [], porder |-> <<>>, callbacks |-> [], locks |-> [], sorder |-> <<>>],sends |-> <<>>,now |-> 11862,claims |-> {},cand |-> <<>>,exp |-> [tasks |-> <<>>, schedules |-> [], promises |-> [], porder |-> <<>>, callbacks |-> [], locks |-> [], sorder |-> <<>>],db |-> [tasks |-> [], schedules |-> [], promises |-> [], porder |-> <<>>, callbacks |-> [], locks |-> [], sorder |-> <<>>]]),
    ([reqs |-> [r1 |-> [t |-> 11861, kind |-> "ReadSchedule", args |-> [id |-> "sc2"]], r2 |-> [t |-> 11861, kind |-> "CompletePromise", args |-> [id |-> "p1", state |-> "REJECTED_CANCELED", value |-> [headers |-> [], data |-> ""], ikey |-> <<>>, strict |-> FALSE]], r3 |-> [t |-> 11861, kind |-> "ReleaseLock", args |-> [eid |-> "e2", rid |-> "l2"]], r4 |-> [t |-> 11862, kind |-> "DeleteSchedule", args |-> [id |-> "sc1"]]],lapsed |-> {},snaps |-> [r1 |-> {[S |-> [tasks |-> [], schedules |-> [], promises |-> [], porder |-> <<>>, callbacks |-> [], locks |-> [], sorder |-> <<>>], dt |-> 11861]}, r2 |-> {[S |-> [tasks |-> [], schedules |-> [], promises |-> [], porder |-> <<>>, callbacks |-> [], locks |-> [], sorder |-> <<>>], dt |-> 11862]}],faulted |-> {},cfg |-> [taskEnqueueDelay |-> 1, coroutineMaxSize |-> 100, submissionBatchSize |-> 8, completionBatchSize |-> 10, promiseBatchSize |-> 2, scheduleBatchSize |-> 2, taskBatchSize |-> 1, signalTimeout |-> 0, apiSize |-> 100, background |-> <<"TimeoutPromises", "SchedulePromises", "TimeoutLocks", "EnqueueTasks", "TimeoutTasks">>],chk |-> [tables |-> {}, who |-> "", resp |-> "", why |-> "", drift |-> "", dup |-> {}],l |-> 13,seen |-> <<>>,pdb |-> [tasks |-> [], schedules |-> [], promises |-> [], porder |-> <<>>, callbacks |-> [], locks |-> [], sorder |-> <<>>],sends |-> <<>>,now |-> 11862,claims |-> {},cand |-> <<>>,exp |-> [tasks |-> <<>>, schedules |-> [], promises |-> [], porder |-> <<>>, callbacks |-> [], locks |-> [], sorder |-> <<>>],db |-> [tasks |-> [], schedules |-> [], promises |-> [], porder |-> <<>>, callbacks |-> [], locks |-> [], sorder |-> <<>>]]),
    ([reqs |-> [r1 |-> [t |-> 11861, kind |-> "ReadSchedule", args |-> [id |-> "sc2"]], r2 |-> [t |-> 11861, kind |-> "CompletePromise", args |-> [id |-> "p1", state |-> "REJECTED_CANCELED", value |-> [headers |-> [], data |-> ""], ikey |-> <<>>, strict |-> FALSE]], r3 |-> [t |-> 11861, kind |-> "ReleaseLock", args |-> [eid |-> "e2", rid |-> "l2"]], r4 |-> [t |-> 11862, kind |-> "DeleteSchedule", args |-> [id |-> "sc1"]], r5 |-> [t |-> 11862, kind |-> "CreateCallback", args |-> [timeout |-> 11863, rootId |-> "p1", promiseId |-> "p1", recv |-> "\"w1\""]]],lapsed |-> {},snaps |-> [r1 |-> {[S |-> [tasks |-> [], schedules |-> [], promises |-> [], porder |-> <<>>, callbacks |-> [], locks |-> [], sorder |-> <<>>], dt |-> 11861]}, r2 |-> {[S |-> [tasks |-> [], schedules |-> [], promises |-> [], porder |-> <<>>, callbacks |-> [], locks |-> [], sorder |-> <<>>], dt |-> 11862]}],faulted |-> {},cfg |-> [taskEnqueueDelay |-> 1, coroutineMaxSize |-> 100, submissionBatchSize |-> 8, completionBatchSize |-> 10, promiseBatchSize |-> 2, scheduleBatchSize |-> 2, taskBatchSize |-> 1, signalTimeout |-> 0, apiSize |-> 100, background |-> <<"TimeoutPromises", "SchedulePromises", "TimeoutLocks", "EnqueueTasks", "TimeoutTasks">>],chk |-> [tables |-> {}, who |-> "", resp |-> "", why |-> "", drift |-> "", dup |-> {}],l |-> 14,seen |-> <<>>,pdb |-> [tasks |-> [], schedules |-> [], promises |-> [], porder |-> <<>>, callbacks |-> [], locks |-> [], sorder |-> <<>>],sends |-> <<>>,now |-> 11862,claims |-> {},cand |-> <<>>,exp |-> [tasks |-> <<>>, schedules |-> [], promises |-> [], porder |-> <<>>, callbacks |-> [], locks |-> [], sorder |-> <<>>],db |-> [tasks |-> [], schedules |-> [], promises |-> [], porder |-> <<>>, callbacks |-> [], locks |-> [], sorder |-> <<>>]]),
    ([reqs |-> [r1 |-> [t |-> 11861, kind |-> "ReadSchedule", args |-> [id |-> "sc2"]], r2 |-> [t |-> 11861, kind |-> "CompletePromise", args |-> [id |-> "p1", state |-> "REJECTED_CANCELED", value |-> [headers |-> [], data |-> ""], ikey |-> <<>>, strict |-> FALSE]], r3 |-> [t |-> 11861, kind |-> "ReleaseLock", args |-> [eid |-> "e2", rid |-> "l2"]], r4 |-> [t |-> 11862, kind |-> "DeleteSchedule", args |-> [id |-> "sc1"]], r5 |-> [t |-> 11862, kind |-> "CreateCallback", args |-> [timeout |-> 11863, rootId |-> "p1", promiseId |-> "p1", recv |-> "\"w1\""]], r6 |-> [t |-> 11862, kind |-> "CreateCallback", args |-> [timeout |-> 11865, rootId |-> "p2", promiseId |-> "p3", recv |-> "\"w1\""]]],lapsed |-> {},snaps |-> [r1 |-> {[S |-> [tasks |-> [], schedules |-> [], promises |-> [], porder |-> <<>>, callbacks |-> [], locks |-> [], sorder |-> <<>>], dt |-> 11861]}, r2 |-> {[S |-> [tasks |-> [], schedules |-> [], promises |-> [], porder |-> <<>>, callbacks |-> [], locks |-> [], sorder |-> <<>>], dt |-> 11862]}],faulted |-> {},cfg |-> [taskEnqueueDelay |-> 1, coroutineMaxSize |-> 100, submissionBatchSize |-> 8, completionBatchSize |-> 10, promiseBatchSize |-> 2, scheduleBatchSize |-> 2, taskBatchSize |-> 1, signalTimeout |-> 0, apiSize |-> 100, background |-> <<"TimeoutPromises", "SchedulePromises", "TimeoutLocks", "EnqueueTasks", "TimeoutTasks">>],chk |-> [tables |-> {}, who |-> "", resp |-> "", why |-> "", drift |-> "", dup |-> {}],l |-> 15,seen |-> <<>>,pdb |-> [tasks |-> [], schedules |-> [], promises |-> [], porder |-> <<>>, callbacks |-> [], locks |-> [], sorder |-> <<>>],sends |-> <<>>,now |-> 11862,claims |-> {},cand |-> <<>>,exp |-> [tasks |-> <<>>, schedules |-> [], promises |-> [], porder |-> <<>>, callbacks |-> [], locks |-> [], sorder |-> <<>>],db |-> [tasks |-> [], schedules |-> [], promises |-> [], porder |-> <<>>, callbacks |-> [], locks |-> [], sorder |-> <<>>]]),
    ([reqs |-> [r1 |-> [t |-> 11861, kind |-> "ReadSchedule", args |-> [id |-> "sc2"]], r2 |-> [t |-> 11861, kind |-> "CompletePromise", args |-> [id |-> "p1", state |-> "REJECTED_CANCELED", value |-> [headers |-> [], data |-> ""], ikey |-> <<>>, strict |-> FALSE]], r3 |-> [t |-> 11861, kind |-> "ReleaseLock", args |-> [eid |-> "e2", rid |-> "l2"]], r4 |-> [t |-> 11862, kind |-> "DeleteSchedule", args |-> [id |-> "sc1"]], r5 |-> [t |-> 11862, kind |-> "CreateCallback", args |-> [timeout |-> 11863, rootId |-> "p1", promiseId |-> "p1", recv |-> "\"w1\""]], r6 |-> [t |-> 11862, kind |-> "CreateCallback", args |-> [timeout |-> 11865, rootId |-> "p2", promiseId |-> "p3", recv |-> "\"w1\""]]],lapsed |-> {},snaps |-> [r1 |-> {[S |-> [tasks |-> [], schedules |-> [], promises |-> [], porder |-> <<>>, callbacks |-> [], locks |-> [], sorder |-> <<>>], dt |-> 11861]}, r2 |-> {[S |-> [tasks |-> [], schedules |-> [], promises |-> [], porder |-> <<>>, callbacks |-> [], locks |-> [], sorder |-> <<>>], dt |-> 11862]}],faulted |-> {},cfg |-> [taskEnqueueDelay |-> 1, coroutineMaxSize |-> 100, submissionBatchSize |-> 8, completionBatchSize |-> 10, promiseBatchSize |-> 2, scheduleBatchSize |-> 2, taskBatchSize |-> 1, signalTimeout |-> 0, apiSize |-> 100, background |-> <<"TimeoutPromises", "SchedulePromises", "TimeoutLocks", "EnqueueTasks", "TimeoutTasks">>],chk |-> [tables |-> {}, who |-> "", resp |-> "", why |-> "", drift |-> "", dup |-> {}],l |-> 16,seen |-> <<>>,pdb |-> [tasks |-> [], schedules |-> [], promises |-> [], porder |-> <<>>, callbacks |-> [], locks |-> [], sorder |-> <<>>],sends |-> <<>>,now |-> 11863,claims |-> {},cand |-> <<>>,exp |-> [tasks |-> <<>>, schedules |-> [], promises |-> [], porder |-> <<>>, callbacks |-> [], locks |-> [], sorder |-> <<>>],db |-> [tasks |-> [], schedules |-> [], promises |-> [], porder |-> <<>>, callbacks |-> [], locks |-> [], sorder |-> <<>>]]),
    ([reqs |-> [r1 |-> [t |-> 11861, kind |-> "ReadSchedule", args |-> [id |-> "sc2"]], r2 |-> [t |-> 11861, kind |-> "CompletePromise", args |-> [id |-> "p1", state |-> "REJECTED_CANCELED", value |-> [headers |-> [], data |-> ""], ikey |-> <<>>, strict |-> FALSE]], r3 |-> [t |-> 11861, kind |-> "ReleaseLock", args |-> [eid |-> "e2", rid |-> "l2"]], r4 |-> [t |-> 11862, kind |-> "DeleteSchedule", args |-> [id |-> "sc1"]], r5 |-> [t |-> 11862, kind |-> "CreateCallback", args |-> [timeout |-> 11863, rootId |-> "p1", promiseId |-> "p1", recv |-> "\"w1\""]], r6 |-> [t |-> 11862, kind |-> "CreateCallback", args |-> [timeout |-> 11865, rootId |-> "p2", promiseId |-> "p3", recv |-> "\"w1\""]]],lapsed |-> {},snaps |-> [r1 |-> {[S |-> [tasks |-> [], schedules |-> [], promises |-> [], porder |-> <<>>, callbacks |-> [], locks |-> [], sorder |-> <<>>], dt |-> 11861]}, r2 |-> {[S |-> [tasks |-> [], schedules |-> [], promises |-> [], porder |-> <<>>, callbacks |-> [], locks |-> [], sorder |-> <<>>], dt |-> 11862]}],faulted |-> {},cfg |-> [taskEnqueueDelay |-> 1, coroutineMaxSize |-> 100, submissionBatchSize |-> 8, completionBatchSize |-> 10, promiseBatchSize |-> 2, scheduleBatchSize |-> 2, taskBatchSize |-> 1, signalTimeout |-> 0, apiSize |-> 100, background |-> <<"TimeoutPromises", "SchedulePromises", "TimeoutLocks", "EnqueueTasks", "TimeoutTasks">>],chk |-> [tables |-> {}, who |-> "CreateCallback", resp |-> "CreateCallback", why |-> "", drift |-> "", dup |-> {}],l |-> 17,seen |-> <<>>,pdb |-> [tasks |-> [], schedules |-> [], promises |-> [], porder |-> <<>>, callbacks |-> [], locks |-> [], sorder |-> <<>>],sends |-> <<>>,now |-> 11863,claims |-> {},cand |-> <<>>,exp |-> [tasks |-> <<>>, schedules |-> [], promises |-> [], porder |-> <<>>, callbacks |-> [], locks |-> [], sorder |-> <<>>],db |-> [tasks |-> [], schedules |-> [], promises |-> [], porder |-> <<>>, callbacks |-> [], locks |-> [], sorder |-> <<>>]])
    >>
----


=============================================================================

---- CONFIG ResonateTrace_TTrace_1790361746 ----
CONSTANTS
    TraceFile = "/verif/run/t1/trace.ndjson"
    CronPeriod <- TraceCronPeriod
    Expand <- TraceExpand

INVARIANT
    _inv

CHECK_DEADLOCK
    \* CHECK_DEADLOCK off because of PROPERTY or INVARIANT above.
    FALSE

INIT
    _init

NEXT
    _next

CONSTANT
    _TETrace <- _trace

ALIAS
    _expression
=============================================================================
\* Generated on Fri Sep 25 18:42:27 UTC 2026