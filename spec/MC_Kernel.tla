------------------------------ MODULE MC_Kernel ------------------------------
(***************************************************************************)
(* Scenarios for level B (Kernel.tla): a starting database built with the  *)
(* level-A operations, a handful of requests that meet on one promise or   *)
(* one task, the instants around the deadlines, and the sweeps that may    *)
(* cut in.  TLC explores every interleaving of every scenario.             *)
(***************************************************************************)
EXTENDS Kernel

MCCronPeriod(c) == c
MCExpand(tpl, sid, ts) == tpl

V1 == [headers |-> <<>>, data |-> "v"]
NoTags == <<>>
Create(id, timeout, ikey, strict, tags) ==
  [kind |-> "CreatePromise", a |-> [id |-> id, ikey |-> ikey, strict |-> strict, param |-> EmptyValue, timeout |-> timeout, tags |-> tags]]
Read(id) == [kind |-> "ReadPromise", a |-> [id |-> id]]
CompleteP(id, state, ikey, strict) == [kind |-> "CompletePromise", a |-> [id |-> id, ikey |-> ikey, strict |-> strict, state |-> state, value |-> V1]]
Callback(p, root, timeout) == [kind |-> "CreateCallback", a |-> [promiseId |-> p, rootId |-> root, recv |-> "\"w\"", timeout |-> timeout]]
Subscribe(p, id, timeout) == [kind |-> "CreateSubscription", a |-> [promiseId |-> p, id |-> id, recv |-> "\"w\"", timeout |-> timeout]]
Claim(x, counter, pid, ttl) == [kind |-> "ClaimTask", a |-> [id |-> x, counter |-> counter, pid |-> pid, ttl |-> ttl]]
CompleteT(x, counter) == [kind |-> "CompleteTask", a |-> [id |-> x, counter |-> counter]]
Beat(pid) == [kind |-> "HeartbeatTasks", a |-> [pid |-> pid]]
CreateT(id, timeout, tags, pid, ttl) ==
  [kind |-> "CreatePromiseAndTask", a |-> [id |-> id, ikey |-> None, strict |-> FALSE, param |-> EmptyValue, timeout |-> timeout, tags |-> tags, pid |-> pid, ttl |-> ttl]]

Acquire(rid, eid, pid, ttl) == [kind |-> "AcquireLock", a |-> [rid |-> rid, eid |-> eid, pid |-> pid, ttl |-> ttl]]
Release(rid, eid) == [kind |-> "ReleaseLock", a |-> [rid |-> rid, eid |-> eid]]
BeatLocks(pid) == [kind |-> "HeartbeatLocks", a |-> [pid |-> pid]]
Schedule(id, cron, promiseId, ikey, ptags) ==
  [kind |-> "CreateSchedule", a |-> [id |-> id, desc |-> "", cron |-> cron, tags |-> NoTags, promiseId |-> promiseId, promiseTimeout |-> 3000,
                                     promiseParam |-> EmptyValue, promiseTags |-> ptags, ikey |-> ikey]]
ReadS(id) == [kind |-> "ReadSchedule", a |-> [id |-> id]]
DeleteS(id) == [kind |-> "DeleteSchedule", a |-> [id |-> id]]

Search(qc, states, limit) == [kind |-> "SearchPromises", a |-> [qc |-> qc, states |-> states, tags |-> NoTags, limit |-> limit, cursor |-> None]]
SearchS(qc, limit) == [kind |-> "SearchSchedules", a |-> [qc |-> qc, tags |-> NoTags, limit |-> limit, cursor |-> None]]
\* ids used by the search scenario, as character sequences
MCIdc == ("pc" :> <<"p", "c">>) @@ ("pa" :> <<"p", "a">>) @@ ("pb" :> <<"p", "b">>) @@ ("q" :> <<"q">>) @@ ("s" :> <<"s">>)

RECURSIVE Build(_, _)
\* (a setup step "Dispatch" is a dispatch cycle at instant 1 whose hand-off succeeds)
SetupStep(S, r) == IF r.kind = "Dispatch" THEN Dispatch(S, r.a.task, "ok", Delay, 1) ELSE Op(r.kind, S, r.a, 1).db
Build(S, reqs) == IF reqs = <<>> THEN S ELSE Build(SetupStep(S, Head(reqs)), Tail(reqs))
Handoff(x) == [kind |-> "Dispatch", a |-> [task |-> x]]
Routed1 == ("resonate:invoke" :> "w")

\* Every behaviour takes `Parties` of the scenario's requests and sweeps (Kernel!Init chooses them
\* in every possible way), so a scenario lists everything that can meet on its promise or task.

\* --- deadline: reads, completions, repeated creations and registrations meet at the deadline of a
\*     promise that somebody subscribed to, while the time-out sweep runs
Setup_deadline == << Create("p", 5, Some("k"), FALSE, NoTags), Subscribe("p", "s", 9), Create("r", 9, None, FALSE, Routed1) >>
DB_deadline == Build(EmptyDB, Setup_deadline)
Script_deadline == << Read("p"), CompleteP("p", RESOLVED, Some("c"), FALSE), CompleteP("p", REJECTED, None, TRUE),
                      Create("p", 5, Some("k"), FALSE, NoTags), Create("p", 5, None, TRUE, NoTags),
                      Callback("p", "r", 9), Subscribe("p", "s2", 9) >>
Times_deadline == {4, 5}

\* --- register: registrations race with the completion of the promise they wait for (no deadline near)
Setup_register == << Create("p", 9, None, FALSE, NoTags), Create("r", 9, None, FALSE, Routed1) >>
DB_register == Build(EmptyDB, Setup_register)
Script_register == << Callback("p", "r", 9), Subscribe("p", "s", 9), CompleteP("p", REJECTED, None, FALSE), Callback("p", "r", 9), Read("p") >>
Times_register == {3}

\* --- lease: workers, a stale completion, a heartbeat and the completion of the promise around a
\*     hand-off and the end of a lease, while the dispatcher and the lease sweep run
Setup_lease == << Create("p", 20, None, FALSE, Routed1) >>
DB_lease == Build(EmptyDB, Setup_lease)
Script_lease == << Claim("__invoke:p", 1, "w1", 2), Claim("__invoke:p", 1, "w2", 2), CompleteT("__invoke:p", 1), Beat("w1"),
                   CompleteP("p", RESOLVED, None, FALSE), Claim("__invoke:p", 2, "w2", 2) >>
Times_lease == {2, 5}

\* --- reclaim: the task has been handed off; claims, a completion and the completion of the promise
\*     race with the sweep that takes back hand-offs nobody claimed
Setup_reclaim == << Create("p", 20, None, FALSE, Routed1), Handoff("__invoke:p") >>
DB_reclaim == Build(EmptyDB, Setup_reclaim)
Script_reclaim == << Claim("__invoke:p", 1, "w1", 3), Claim("__invoke:p", 1, "w2", 3), CompleteT("__invoke:p", 1), Beat("w1"),
                     CompleteP("p", RESOLVED, None, FALSE), Claim("__invoke:p", 2, "w2", 3) >>
Times_reclaim == {2, 4}

\* --- beat: the holder's heartbeat and completion against the lease sweep and a rival
Setup_beat == << CreateT("p", 20, Routed1, "w1", 2) >>
DB_beat == Build(EmptyDB, Setup_beat)
Script_beat == << Beat("w1"), CompleteT("__invoke:p", 1), Claim("__invoke:p", 2, "w2", 2), Claim("__invoke:p", 1, "w2", 2), CompleteP("p", RESOLVED, None, FALSE) >>
Times_beat == {2, 3, 5}

\* --- wake: the completion of a promise wakes its waiters while the dispatcher and a claim run
Setup_wake == << Create("r", 20, None, FALSE, Routed1), Create("p", 20, None, FALSE, NoTags), Callback("p", "r", 20), Subscribe("p", "s", 20) >>
DB_wake == Build(EmptyDB, Setup_wake)
Script_wake == << CompleteP("p", RESOLVED, None, FALSE), CompleteP("p", REJECTED, None, TRUE), Claim("__resume:r:p", 1, "w1", 3),
                  Read("p"), CompleteP("r", RESOLVED, None, FALSE), Subscribe("p", "s2", 20) >>
Times_wake == {2}

\* --- notify: one dispatch cycle meets a resume task that runs out between the cycle's two looks at the clock and, after
\*     it in the cycle's order, a notification: the notification still carries its own promise
Setup_notify == << Create("a", 20, None, FALSE, NoTags), Create("p", 20, None, FALSE, NoTags), Create("q", 20, None, FALSE, NoTags),
                   Callback("p", "a", 4), Subscribe("q", "s", 20),
                   CompleteP("p", RESOLVED, None, FALSE), CompleteP("q", RESOLVED, None, FALSE) >>
DB_notify == Build(EmptyDB, Setup_notify)
Script_notify == << Read("q"), Read("a") >>
Times_notify == {3, 4}

\* --- collide: ids containing ":" make two registrations derive the same task id; the completion of the
\*     second one meets the task of the first (the store refuses it: the registration must not be lost)
Setup_collide == << Create("a", 20, None, FALSE, NoTags), Create("a:b", 20, None, FALSE, NoTags), Create("b:c", 20, None, FALSE, NoTags),
                    Create("c", 20, None, FALSE, NoTags), Callback("b:c", "a", 20), CompleteP("b:c", RESOLVED, None, FALSE), Callback("c", "a:b", 20) >>
DB_collide == Build(EmptyDB, Setup_collide)
Script_collide == << CompleteP("c", RESOLVED, None, FALSE), Read("c"), CompleteP("c", REJECTED, None, FALSE), Subscribe("c", "s", 20) >>
Times_collide == {2}

\* --- overdue: the same collision when the promise reaches its timeout: the time-out sweep meets it too
Setup_overdue == Setup_collide
DB_overdue == DB_collide
Script_overdue == << Read("c"), CompleteP("c", RESOLVED, None, FALSE) >>
Times_overdue == {2, 25}

\* --- locks: two executions and two processes around the end of a lease, while the lock sweep runs
Setup_locks == <<>>
DB_locks == EmptyDB
Script_locks == << Acquire("l", "e1", "w1", 2), Acquire("l", "e2", "w2", 2), Release("l", "e1"), BeatLocks("w1"), Acquire("l", "e1", "w2", 3) >>
Times_locks == {2, 4}

\* --- sched: a schedule (period 2; its promise id is fixed, so every occurrence but the first meets an existing
\*     promise) is created again, deleted and read while it fires
Setup_sched == << Schedule("s", 2000, "sp", Some("k"), NoTags) >>
DB_sched == Build(EmptyDB, Setup_sched)
Script_sched == << Schedule("s", 2000, "sp2", Some("k"), NoTags), Schedule("s", 2000, "sp2", None, Routed1), DeleteS("s"), ReadS("s"), Create("sp", 9000, None, FALSE, NoTags) >>
Times_sched == {2000, 4000}

\* --- starve: root "a" has a task handed off and a sibling waiting behind it; root "b" has a task of its own.
\*     With a task batch of ONE the dispatcher must still get to "b" (replayed with TaskBatchSize 1 and the
\*     convergence phase; the requests of the scenario only look)
Setup_starve == << Create("a", 5000, None, FALSE, Routed1), Create("p", 5000, None, FALSE, NoTags), Callback("p", "a", 5000),
                   CompleteP("p", RESOLVED, None, FALSE), Handoff("__invoke:a"), Create("b", 5000, None, FALSE, Routed1) >>
DB_starve == Build(EmptyDB, Setup_starve)
Script_starve == << Read("a"), Read("b") >>
Times_starve == {2}

\* --- search: a search meets promises at their deadline (it times the late ones out itself, in child
\*     coroutines, and searches again) while a completion and the time-out sweep do the same
Setup_search == << Create("pa", 5, None, FALSE, NoTags), Create("pb", 9, None, FALSE, NoTags), Create("q", 5, None, FALSE, NoTags) >>
DB_search == Build(EmptyDB, Setup_search)
Script_search == << Search(<<"p", "*">>, <<PENDING, RESOLVED, REJECTED, TIMEDOUT, CANCELED>>, 2), Search(<<"*">>, <<PENDING>>, 1),
                    CompleteP("pa", RESOLVED, None, FALSE), Create("pc", 9, None, FALSE, NoTags) >>
Times_search == {4, 5}

\* --- create: creations of a routed promise (with and without a task) race with each other and with its completion
Setup_create == <<>>
DB_create == EmptyDB
Script_create == << Create("p", 5, Some("k"), FALSE, Routed1), CreateT("p", 5, Routed1, "w1", 2), Read("p"),
                    Create("p", 5, Some("j"), FALSE, NoTags), CompleteP("p", RESOLVED, None, FALSE) >>
Times_create == {2, 5}
=============================================================================
