------------------------------- MODULE Kernel -------------------------------
(***************************************************************************)
(* Level B: the coroutines of internal/app/coroutines as they really run.  *)
(*                                                                         *)
(* A request is NOT atomic in the server: its coroutine reads, decides at  *)
(* the tick at which it is resumed, yields a guarded write, is resumed     *)
(* again, retries when the guard failed ...; every yield is one store      *)
(* transaction that the store commits at some later moment, interleaved    *)
(* with the transactions of every other coroutine and of the background    *)
(* sweeps.  This module transcribes the coroutines one yield at a time     *)
(* (phase ph of a coroutine = the await it is parked at) on top of the     *)
(* store commands of Store.tla, and states what level A (Resonate.tla)     *)
(* demands of them:                                                        *)
(*   - every commit that changes the database is exactly the level-A       *)
(*     operation of its request at its decision tick (A_CommitRefines);    *)
(*   - every reply is the level-A answer at that commit, or, when the      *)
(*     request had no effect, at one of its own reads (I_ReplyLinearizable)*)
(*   - the step properties of Props.tla hold for every commit.             *)
(* TLC explores every interleaving of a scenario (a few requests, a clock  *)
(* that may jump between given instants, background sweeps).  The same     *)
(* behaviours are the SCHEDULES replayed against the real kernel by        *)
(* ksim -script: start / advance / commit / resume are exactly the         *)
(* controls of the harness AIO (KernelGen.tla).                            *)
(***************************************************************************)
EXTENDS Props, TLC

CONSTANTS Script,     \* <<[kind, a], ...>>: the requests of the scenario, started in any order
          Times,      \* instants the clock may jump to
          Sweeps,     \* background coroutines that may run: subset of {"TimeoutPromises", "TimeoutTasks", "EnqueueTasks"}
          MaxSweeps,  \* how many sweeps in total
          InitDB,     \* database at the start of the scenario
          Delay,      \* TaskEnqueueDelay
          Known,      \* names of known findings (deviations of the code that are accepted and reported)
          F1Fixed,    \* FALSE: CreateCallback / CreateSubscription as they were before fix 75c0784
          Parties,    \* how many of the requests / sweeps of the scenario take part in one behaviour
          Idc         \* id -> its sequence of characters (search patterns; TLC has no substring operations on strings)

VARIABLES db, now, co, started, nsweeps, hist, last, sel
vars == <<db, now, co, started, nsweeps, hist, last, sel>>

(***************************************************************************)
(* Coroutine instances.                                                    *)
(***************************************************************************)
Rid(i) == "r" \o ToString(i)
NoCo == [own |-> "", kind |-> "", a |-> <<>>, ph |-> "", sub |-> "", tx |-> <<>>, dt |-> 0, t0 |-> 0, ready |-> FALSE,
         res |-> <<>>, p |-> <<>>, x |-> <<>>, st |-> 0, body |-> <<>>, ct |-> 0,
         reply |-> None, eff |-> None, snaps |-> {}, sends |-> <<>>, err |-> FALSE]

Yield(c, ph, tx, t) == [c EXCEPT !.ph = ph, !.sub = "store", !.tx = tx, !.dt = t, !.ready = FALSE]
YieldRouter(c, ph) == [c EXCEPT !.ph = ph, !.sub = "router", !.tx = <<>>, !.ready = FALSE]
YieldSender(c, ph, tasks) == [c EXCEPT !.ph = ph, !.sub = "sender", !.tx = <<>>, !.sends = tasks, !.ready = FALSE]
Reply(c, r) == [c EXCEPT !.ph = "done", !.sub = "", !.tx = <<>>, !.ready = FALSE, !.reply = Some(r)]
Finish(c) == [c EXCEPT !.ph = "done", !.sub = "", !.tx = <<>>, !.ready = FALSE]

ReadP(id) == [k |-> "ReadPromise", id |-> id]
ReadT(id) == [k |-> "ReadTask", id |-> id]
TimeoutCmds(p, t) == CompletionCmds(p.id, TimedoutStateOf(p.tags), EmptyValue, None, p.timeout, t)
TimedoutBody(p) == [p EXCEPT !.state = TimedoutStateOf(p.tags), !.value = EmptyValue, !.iku = None, !.completedOn = Some(p.timeout)]
Rows(c, i) == c.res[i].rows
Rec(c, i) == c.res[i].recs[1]

(***************************************************************************)
(* The request coroutines: Run*(c, t) is what the coroutine does when it   *)
(* is resumed at tick t with the results c.res of its last transaction,    *)
(* up to its next yield or its reply.                                      *)
(***************************************************************************)
\* readPromise.go
RunReadPromise(c, t) ==
  CASE c.ph = "start" -> Yield(c, "read", <<ReadP(c.a.id)>>, t)
    [] c.ph = "read" ->
         IF Rows(c, 1) = 0 THEN Reply(c, [status |-> PROMISE_NOT_FOUND, promise |-> None])
         ELSE LET p == Rec(c, 1) IN
              IF p.state = PENDING /\ p.timeout <= t
              THEN Yield([c EXCEPT !.p = <<p>>], "timeout", TimeoutCmds(p, t), t)
              ELSE Reply(c, [status |-> OK, promise |-> Some(p)])
    [] c.ph = "timeout" ->
         IF Rows(c, 1) = 1 THEN Reply(c, [status |-> OK, promise |-> Some(TimedoutBody(c.p[1]))])
         ELSE Yield(c, "read", <<ReadP(c.a.id)>>, t)           \* lost the race: start again

\* createPromise.go (CreatePromise and CreatePromiseAndTask)
CreateReply(c, st, p, task) ==
  IF c.kind = "CreatePromise" THEN [status |-> st, promise |-> p]
  ELSE [status |-> st, promise |-> p, task |-> task]
RunCreatePromise(c, t) ==
  LET a == c.a
      withTask == c.kind = "CreatePromiseAndTask"
  IN
  CASE c.ph = "start" -> Yield([c EXCEPT !.t0 = t], "read", <<ReadP(a.id)>>, t)
    [] c.ph = "read" ->
         IF Rows(c, 1) = 0
         THEN YieldRouter([c EXCEPT !.ct = t], "route")            \* createdOn is fixed here, before the router round trip
         ELSE LET p == Rec(c, 1) IN
              IF p.state = PENDING /\ p.timeout <= t
              THEN Yield([c EXCEPT !.p = <<p>>], "timeout", TimeoutCmds(p, t), t)
              ELSE Reply(c, CreateReply(c, CreateExistsStatus(p, a, FALSE), Some(p), None))
    [] c.ph = "route" ->
         IF withTask /\ ~ Routed(a.tags)
         THEN Reply(c, [status |-> RECV_NOT_FOUND, promise |-> None, task |-> None])
         ELSE LET pc == PromiseCmd(a, c.ct)
                  tc == IF withTask
                        THEN [InvokeTaskCmd(a, c.t0) EXCEPT !.pid = Some(a.pid), !.state = T_CLAIMED, !.ttl = a.ttl, !.expiresAt = c.t0 + a.ttl]
                        ELSE InvokeTaskCmd(a, c.ct)
                  cmd == IF Routed(a.tags) THEN [k |-> "CreatePromiseAndTask", promise |-> pc, task |-> tc] ELSE pc
              IN Yield(c, "create", <<cmd>>, c.ct)
    [] c.ph = "create" ->
         IF Rows(c, 1) = 0 THEN Yield(c, "read", <<ReadP(a.id)>>, t)
         ELSE LET pc == PromiseCmd(a, c.ct)
                  tc == [InvokeTaskCmd(a, c.t0) EXCEPT !.pid = Some(a.pid), !.state = T_CLAIMED, !.ttl = a.ttl, !.expiresAt = c.t0 + a.ttl]
              IN Reply(c, CreateReply(c, CREATED, Some(WithId(a.id, NewPromiseRow(pc))),
                                      IF withTask THEN Some(WithId(tc.id, NewTaskRow(tc))) ELSE None))
    [] c.ph = "timeout" ->
         IF Rows(c, 1) = 1
         THEN Reply(c, CreateReply(c, CreateExistsStatus(c.p[1], a, TRUE), Some(TimedoutBody(c.p[1])), None))
         ELSE Yield(c, "read", <<ReadP(a.id)>>, t)

\* completePromise.go
RunCompletePromise(c, t) ==
  LET a == c.a IN
  CASE c.ph = "start" -> Yield(c, "read", <<ReadP(a.id)>>, t)
    [] c.ph = "read" ->
         IF Rows(c, 1) = 0 THEN Reply(c, [status |-> PROMISE_NOT_FOUND, promise |-> None])
         ELSE LET p == Rec(c, 1) IN
              IF p.state = PENDING
              THEN IF t < p.timeout
                   THEN Yield([c EXCEPT !.st = CREATED,
                                        !.body = <<[p EXCEPT !.state = a.state, !.value = a.value, !.iku = a.ikey, !.completedOn = Some(t)]>>],
                              "update", CompletionCmds(a.id, a.state, a.value, a.ikey, t, t), t)
                   ELSE Yield([c EXCEPT !.st = IF TimedoutStateOf(p.tags) = RESOLVED THEN ALREADY_RESOLVED
                                               ELSE IF a.strict THEN ALREADY_TIMEDOUT ELSE OK,
                                        !.body = <<TimedoutBody(p)>>],
                              "update", TimeoutCmds(p, t), t)
              ELSE LET strictMismatch == a.strict /\ p.state # a.state
                       lenientTimeout == ~ a.strict /\ p.state = TIMEDOUT
                       st == IF (~ strictMismatch /\ KeyMatch(p.iku, a.ikey)) \/ lenientTimeout THEN OK ELSE AlreadyStatus(p.state)
                   IN Reply(c, [status |-> st, promise |-> Some(p)])
    [] c.ph = "update" ->
         IF Rows(c, 1) = 1 THEN Reply(c, [status |-> c.st, promise |-> Some(c.body[1])])
         ELSE Yield(c, "read", <<ReadP(a.id)>>, t)

\* createCallback.go, createSubscription.go
RunRegister(c, t) ==
  LET a == c.a
      isCb == c.kind = "CreateCallback"
      cbid == IF isCb THEN CallbackId(a.rootId, a.promiseId) ELSE SubscriptionId(a.promiseId, a.id)
      mesg == IF isCb THEN [type |-> "resume", root |-> a.rootId, leaf |-> a.promiseId]
              ELSE [type |-> "notify", root |-> a.promiseId, leaf |-> ""]
  IN
  CASE c.ph = "start" ->
         IF isCb /\ a.promiseId = a.rootId
         THEN Reply(c, [status |-> CALLBACK_INVALID, promise |-> None, callback |-> None])
         ELSE Yield(c, "read", <<ReadP(a.promiseId)>>, t)
    [] c.ph = "read" ->
         IF Rows(c, 1) = 0 THEN Reply(c, [status |-> PROMISE_NOT_FOUND, promise |-> None, callback |-> None])
         ELSE LET p == Rec(c, 1) IN
              IF p.state = PENDING
              THEN Yield([c EXCEPT !.p = <<p>>, !.ct = t], "insert",
                         <<[k |-> "CreateCallback", id |-> cbid, promiseId |-> a.promiseId, recv |-> a.recv, mesg |-> mesg,
                            timeout |-> a.timeout, createdOn |-> t]>>, t)
              ELSE Reply(c, [status |-> OK, promise |-> Some(p), callback |-> None])
    [] c.ph = "insert" ->
         IF Rows(c, 1) = 1
         THEN Reply(c, [status |-> CREATED, promise |-> Some(c.p[1]),
                        callback |-> Some([id |-> cbid, promiseId |-> a.promiseId, timeout |-> a.timeout, createdOn |-> c.ct])])
         ELSE IF F1Fixed THEN Yield(c, "reread", <<ReadP(a.promiseId)>>, t)
         ELSE Reply(c, [status |-> OK, promise |-> Some(c.p[1]), callback |-> None])     \* before the fix: the stale promise
    [] c.ph = "reread" ->
         Reply(c, [status |-> OK, promise |-> Some(IF Rows(c, 1) = 1 THEN Rec(c, 1) ELSE c.p[1]), callback |-> None])

\* claimTask.go
RunClaimTask(c, t) ==
  LET a == c.a IN
  CASE c.ph = "start" -> Yield(c, "read", <<ReadT(a.id)>>, t)
    [] c.ph = "read" ->
         IF Rows(c, 1) = 0 THEN Reply(c, [status |-> TASK_NOT_FOUND, task |-> None, root |-> None, leaf |-> None])
         ELSE LET x == Rec(c, 1)
                  no(st) == Reply(c, [status |-> st, task |-> Some(x), root |-> None, leaf |-> None])
              IN IF x.state = T_CLAIMED THEN no(TASK_ALREADY_CLAIMED)
                 ELSE IF x.state \in {T_COMPLETED, T_TIMEDOUT} THEN no(TASK_ALREADY_COMPLETED)
                 ELSE IF x.counter # a.counter THEN no(TASK_INVALID_COUNTER)
                 ELSE Yield([c EXCEPT !.x = <<x>>, !.ct = t], "claim",
                            <<[k |-> "UpdateTask", id |-> a.id, pid |-> Some(a.pid), state |-> T_CLAIMED, counter |-> a.counter,
                               attempt |-> x.attempt, ttl |-> a.ttl, expiresAt |-> t + a.ttl, completedOn |-> None,
                               currentStates |-> {T_INIT, T_ENQUEUED}, currentCounter |-> a.counter]>>, t)
    [] c.ph = "claim" ->
         IF Rows(c, 1) = 1
         THEN LET x == c.x[1] IN
              Yield(c, "promises", <<ReadP(x.mesg.root)>> \o (IF x.mesg.type = "resume" THEN <<ReadP(x.mesg.leaf)>> ELSE <<>>), t)
         ELSE Yield(c, "read", <<ReadT(a.id)>>, t)
    [] c.ph = "promises" ->
         LET x == c.x[1] IN
         Reply(c, [status |-> CREATED,
                   task |-> Some([x EXCEPT !.pid = Some(a.pid), !.state = T_CLAIMED, !.ttl = a.ttl, !.expiresAt = c.ct + a.ttl]),
                   root |-> IF Rows(c, 1) = 1 THEN Some(Rec(c, 1)) ELSE None,
                   leaf |-> IF x.mesg.type = "resume" /\ Rows(c, 2) = 1 THEN Some(Rec(c, 2)) ELSE None])

\* completeTask.go
RunCompleteTask(c, t) ==
  LET a == c.a IN
  CASE c.ph = "start" -> Yield(c, "read", <<ReadT(a.id)>>, t)
    [] c.ph = "read" ->
         IF Rows(c, 1) = 0 THEN Reply(c, [status |-> TASK_NOT_FOUND, task |-> None])
         ELSE LET x == Rec(c, 1)
                  no(st) == Reply(c, [status |-> st, task |-> Some(x)])
              IN IF x.state \in {T_COMPLETED, T_TIMEDOUT} THEN no(OK)
                 ELSE IF x.state \in {T_INIT, T_ENQUEUED} THEN no(TASK_INVALID_STATE)
                 ELSE IF x.counter # a.counter THEN no(TASK_INVALID_COUNTER)
                 ELSE Yield([c EXCEPT !.x = <<x>>, !.ct = t], "complete",
                            <<[k |-> "UpdateTask", id |-> a.id, pid |-> None, state |-> T_COMPLETED, counter |-> a.counter,
                               attempt |-> 0, ttl |-> 0, expiresAt |-> 0, completedOn |-> Some(t),
                               currentStates |-> {T_CLAIMED}, currentCounter |-> a.counter]>>, t)
    [] c.ph = "complete" ->
         IF Rows(c, 1) = 1
         THEN Reply(c, [status |-> CREATED,
                        task |-> Some([c.x[1] EXCEPT !.pid = None, !.state = T_COMPLETED, !.attempt = 0, !.ttl = 0, !.expiresAt = 0,
                                                     !.completedOn = Some(c.ct)])])
         ELSE Yield(c, "read", <<ReadT(a.id)>>, t)

\* heartbeatTasks.go
RunHeartbeatTasks(c, t) ==
  CASE c.ph = "start" -> Yield(c, "beat", <<[k |-> "HeartbeatTasks", pid |-> c.a.pid, time |-> t]>>, t)
    [] c.ph = "beat" -> Reply(c, [status |-> OK, n |-> Rows(c, 1)])

\* searchPromises.go: one search; every hit that is pending past its deadline is timed out by a child
\* coroutine (completePromise) of its own; when there was any, the search is taken again
SearchCmd(a) == [k |-> "SearchPromises", a |-> a]
RunSearchPromises(c, t) ==
  CASE c.ph = "start" -> Yield(c, "search", <<SearchCmd(c.a)>>, t)
    [] c.ph = "search" ->
         LET recs == c.res[1].recs
             late == SelectSeq(recs, LAMBDA p : p.state = PENDING /\ p.timeout <= t)
         IN IF late # <<>> THEN [c EXCEPT !.ph = "await", !.sub = "children", !.tx = <<>>, !.ready = FALSE, !.x = late, !.ct = t]
            ELSE Reply(c, [status |-> OK, promises |-> recs,
                           cursor |-> IF Len(recs) = c.a.limit THEN Some(recs[Len(recs)].id) ELSE None])
    [] c.ph = "await" -> Yield(c, "search", <<SearchCmd(c.a)>>, t)
\* searchSchedules.go: one read
RunSearchSchedules(c, t) ==
  CASE c.ph = "start" -> Yield(c, "search", <<[k |-> "SearchSchedules", a |-> c.a]>>, t)
    [] c.ph = "search" ->
         LET recs == c.res[1].recs IN
         Reply(c, [status |-> OK, schedules |-> recs, cursor |-> IF Len(recs) = c.a.limit THEN Some(recs[Len(recs)].id) ELSE None])

\* acquireLock.go, releaseLock.go, heartbeatLocks.go: one guarded command each
RunAcquireLock(c, t) ==
  LET a == c.a IN
  CASE c.ph = "start" -> Yield([c EXCEPT !.ct = t], "acquire",
                               <<[k |-> "AcquireLock", rid |-> a.rid, eid |-> a.eid, pid |-> a.pid, ttl |-> a.ttl, expiresAt |-> t + a.ttl]>>, t)
    [] c.ph = "acquire" ->
         IF Rows(c, 1) = 0 THEN Reply(c, [status |-> LOCK_ALREADY_ACQUIRED, lock |-> None])
         ELSE Reply(c, [status |-> CREATED, lock |-> Some([rid |-> a.rid, eid |-> a.eid, pid |-> a.pid, ttl |-> a.ttl, expiresAt |-> c.ct + a.ttl])])
RunReleaseLock(c, t) ==
  CASE c.ph = "start" -> Yield(c, "release", <<[k |-> "ReleaseLock", rid |-> c.a.rid, eid |-> c.a.eid]>>, t)
    [] c.ph = "release" -> Reply(c, [status |-> IF Rows(c, 1) = 0 THEN LOCK_NOT_FOUND ELSE NOCONTENT])
RunHeartbeatLocks(c, t) ==
  CASE c.ph = "start" -> Yield(c, "beat", <<[k |-> "HeartbeatLocks", pid |-> c.a.pid, time |-> t]>>, t)
    [] c.ph = "beat" -> Reply(c, [status |-> OK, n |-> Rows(c, 1)])

\* createSchedule.go, readSchedule.go, deleteSchedule.go
ScheduleCmd(a, t) ==
  [k |-> "CreateSchedule", id |-> a.id, desc |-> a.desc, cron |-> a.cron, tags |-> a.tags, promiseId |-> a.promiseId,
   promiseTimeout |-> a.promiseTimeout, promiseParam |-> a.promiseParam, promiseTags |-> a.promiseTags,
   next |-> CronNext(a.cron, t), ikey |-> a.ikey, createdOn |-> t]
RunCreateSchedule(c, t) ==
  LET a == c.a IN
  CASE c.ph = "start" -> Yield(c, "read", <<[k |-> "ReadSchedule", id |-> a.id]>>, t)
    [] c.ph = "read" ->
         IF Rows(c, 1) = 0 THEN Yield([c EXCEPT !.ct = t], "insert", <<ScheduleCmd(a, t)>>, t)
         ELSE LET s == Rec(c, 1) IN
              Reply(c, [status |-> IF KeyMatch(s.ikey, a.ikey) THEN OK ELSE SCHEDULE_EXISTS, schedule |-> Some(s)])
    [] c.ph = "insert" ->
         IF Rows(c, 1) = 1
         THEN LET k == ScheduleCmd(a, c.ct) IN
              Reply(c, [status |-> CREATED,
                        schedule |-> Some([id |-> a.id, desc |-> k.desc, cron |-> k.cron, tags |-> k.tags, promiseId |-> k.promiseId,
                                           promiseTimeout |-> k.promiseTimeout, promiseParam |-> k.promiseParam, promiseTags |-> k.promiseTags,
                                           last |-> None, next |-> k.next, ikey |-> k.ikey, createdOn |-> k.createdOn])])
         ELSE Yield(c, "read", <<[k |-> "ReadSchedule", id |-> a.id]>>, t)
RunReadSchedule(c, t) ==
  CASE c.ph = "start" -> Yield(c, "read", <<[k |-> "ReadSchedule", id |-> c.a.id]>>, t)
    [] c.ph = "read" -> IF Rows(c, 1) = 1 THEN Reply(c, [status |-> OK, schedule |-> Some(Rec(c, 1))])
                        ELSE Reply(c, [status |-> SCHEDULE_NOT_FOUND, schedule |-> None])
RunDeleteSchedule(c, t) ==
  CASE c.ph = "start" -> Yield(c, "delete", <<[k |-> "DeleteSchedule", id |-> c.a.id]>>, t)
    [] c.ph = "delete" -> Reply(c, [status |-> IF Rows(c, 1) = 1 THEN NOCONTENT ELSE SCHEDULE_NOT_FOUND])

(***************************************************************************)
(* The background coroutines.                                              *)
(***************************************************************************)
\* timeoutLocks.go: one command
RunTimeoutLocks(c, t) ==
  CASE c.ph = "start" -> Yield(c, "sweep", <<[k |-> "TimeoutLocks", time |-> t]>>, t)
    [] c.ph = "sweep" -> Finish(c)
\* schedulePromises.go: one read, then per due schedule one child (createPromise with the UpdateSchedule
\* command appended): a router round trip, then one transaction; children are instances "ScheduleChild"
RunSchedulePromises(c, t) ==
  CASE c.ph = "start" -> Yield(c, "read", <<[k |-> "ReadSchedules", time |-> t, limit |-> 100]>>, t)
    [] c.ph = "read" -> Finish(c)          \* the children are spawned by the Resume action
RunScheduleChild(c, t) ==
  LET s == c.p[1]
      a == ScheduledPromiseArgs(s.id, s)
      pc == PromiseCmd(a, c.ct)
      cmd == IF Routed(a.tags) THEN [k |-> "CreatePromiseAndTask", promise |-> pc, task |-> InvokeTaskCmd(a, c.ct)] ELSE pc
  IN
  CASE c.ph = "start" -> YieldRouter(c, "route")
    [] c.ph = "route" -> Yield(c, "fire", <<cmd, [k |-> "UpdateSchedule", id |-> s.id, last |-> Some(s.next), next |-> CronNext(s.cron, s.next)]>>, c.ct)
    [] c.ph = "fire" -> Finish(c)

RECURSIVE SetToSeq(_)
SetToSeq(S) == IF S = {} THEN <<>> ELSE LET x == CHOOSE x \in S : TRUE IN <<x>> \o SetToSeq(S \ {x})

\* timeoutPromises.go: one read, then one child coroutine (completePromise) per due promise;
\* the children are coroutine instances of kind "TimeoutChild"
RunTimeoutPromises(c, t) ==
  CASE c.ph = "start" -> Yield(c, "read", <<[k |-> "ReadPromises", time |-> t, limit |-> 100]>>, t)
    [] c.ph = "read" -> Finish(c)          \* the children are spawned by the Resume action
RunTimeoutChild(c, t) ==
  CASE c.ph = "start" -> Yield(c, "update", TimeoutCmds(c.p[1], t), t)
    [] c.ph = "update" -> Finish(c)

\* timeoutTasks.go: one read, one transaction with an UpdateTask per expired lease
RunTimeoutTasks(c, t) ==
  CASE c.ph = "start" -> Yield(c, "read", <<[k |-> "ReadTasks", states |-> {T_ENQUEUED, T_CLAIMED}, time |-> t, limit |-> 100]>>, t)
    [] c.ph = "read" ->
         LET recs == c.res[1].recs
             cmd(x) == IF t < x.timeout
                       THEN [k |-> "UpdateTask", id |-> x.id, pid |-> None, state |-> T_INIT, counter |-> x.counter + 1, attempt |-> 0,
                             ttl |-> 0, expiresAt |-> 0, completedOn |-> None, currentStates |-> {x.state}, currentCounter |-> x.counter]
                       ELSE [k |-> "UpdateTask", id |-> x.id, pid |-> None, state |-> T_TIMEDOUT, counter |-> x.counter, attempt |-> x.attempt,
                             ttl |-> 0, expiresAt |-> 0, completedOn |-> Some(x.timeout), currentStates |-> {x.state}, currentCounter |-> x.counter]
         IN IF recs = <<>> THEN Finish(c) ELSE Yield(c, "update", [i \in DOMAIN recs |-> cmd(recs[i])], t)
    [] c.ph = "update" -> Finish(c)

\* enqueueTasks.go: read the enqueueable tasks, read their root promises, hand every live one to
\* the sender, then one transaction with an UpdateTask per task
RunEnqueueTasks(c, t) ==
  CASE c.ph = "start" -> Yield(c, "tasks", <<[k |-> "ReadEnqueueableTasks", time |-> t, limit |-> 100]>>, t)
    [] c.ph = "tasks" ->
         LET recs == c.res[1].recs IN
         IF recs = <<>> THEN Finish(c)
         ELSE Yield([c EXCEPT !.x = recs], "promises", [i \in DOMAIN recs |-> ReadP(recs[i].rootId)], t)
    [] c.ph = "promises" ->
         \* live tasks go to the sender; c.ct is the tick of the decision (expiresAt = ct + delay)
         YieldSender([c EXCEPT !.ct = t], "sent", SelectSeq(c.x, LAMBDA x : t < x.timeout))
    [] c.ph = "sent" ->
         LET upd(x, state, attempt, completedOn, exp) ==
               [k |-> "UpdateTask", id |-> x.id, pid |-> None, state |-> state, counter |-> x.counter, attempt |-> attempt, ttl |-> 0,
                expiresAt |-> exp, completedOn |-> completedOn, currentStates |-> {T_INIT}, currentCounter |-> x.counter]
             exp == c.ct + Delay
             outcome(x) == LET i == CHOOSE i \in DOMAIN c.sends : c.sends[i].id = x.id IN c.sends[i].outcome
             cmd(x) == IF ~ (c.ct < x.timeout) THEN upd(x, T_TIMEDOUT, x.attempt, Some(x.timeout), 0)
                       ELSE IF x.mesg.type = "notify" THEN upd(x, T_COMPLETED, x.attempt, None, exp)
                       ELSE IF outcome(x) = "ok" THEN upd(x, T_ENQUEUED, x.attempt, None, exp)
                       ELSE upd(x, T_INIT, x.attempt + 1, None, exp)
             \* the code appends the timed-out ones while it hands off, then the others in order
             dead == SelectSeq(c.x, LAMBDA x : ~ (c.ct < x.timeout))
             live == SelectSeq(c.x, LAMBDA x : c.ct < x.timeout)
             all == dead \o live
         IN Yield(c, "update", [i \in DOMAIN all |-> cmd(all[i])], c.ct)
    [] c.ph = "update" -> Finish(c)

\* the store refused the transaction (the only way on a well-formed database: the bulk task insert of
\* a completion meets an existing task id): a request answers with a store error, a sweep gives up
RunProgram(c, t) ==
  CASE c.kind = "ReadPromise" -> RunReadPromise(c, t)
    [] c.kind \in {"CreatePromise", "CreatePromiseAndTask"} -> RunCreatePromise(c, t)
    [] c.kind = "CompletePromise" -> RunCompletePromise(c, t)
    [] c.kind \in {"CreateCallback", "CreateSubscription"} -> RunRegister(c, t)
    [] c.kind = "ClaimTask" -> RunClaimTask(c, t)
    [] c.kind = "CompleteTask" -> RunCompleteTask(c, t)
    [] c.kind = "HeartbeatTasks" -> RunHeartbeatTasks(c, t)
    [] c.kind = "SearchPromises" -> RunSearchPromises(c, t)
    [] c.kind = "SearchSchedules" -> RunSearchSchedules(c, t)
    [] c.kind = "AcquireLock" -> RunAcquireLock(c, t)
    [] c.kind = "ReleaseLock" -> RunReleaseLock(c, t)
    [] c.kind = "HeartbeatLocks" -> RunHeartbeatLocks(c, t)
    [] c.kind = "CreateSchedule" -> RunCreateSchedule(c, t)
    [] c.kind = "ReadSchedule" -> RunReadSchedule(c, t)
    [] c.kind = "DeleteSchedule" -> RunDeleteSchedule(c, t)
    [] c.kind = "TimeoutLocks" -> RunTimeoutLocks(c, t)
    [] c.kind = "SchedulePromises" -> RunSchedulePromises(c, t)
    [] c.kind = "ScheduleChild" -> RunScheduleChild(c, t)
    [] c.kind = "TimeoutPromises" -> RunTimeoutPromises(c, t)
    [] c.kind \in {"TimeoutChild", "SearchChild"} -> RunTimeoutChild(c, t)
    [] c.kind = "TimeoutTasks" -> RunTimeoutTasks(c, t)
    [] c.kind = "EnqueueTasks" -> RunEnqueueTasks(c, t)
Run(c, t) ==
  IF c.err THEN (IF c.kind \in {"TimeoutPromises", "TimeoutChild", "SearchChild", "TimeoutTasks", "EnqueueTasks", "TimeoutLocks", "SchedulePromises", "ScheduleChild"} THEN Finish(c)
                 ELSE Reply(c, [status |-> STORE_ERROR]))
  ELSE RunProgram(c, t)

(***************************************************************************)
(* The store: a transaction is applied command by command; the results are *)
(* those of Store.tla (set-valued reads: every eligible row; the scenarios *)
(* keep batch limits out of the way, they are C11's business).             *)
(***************************************************************************)
ResultOf(S, cmd) ==
  CASE cmd.k = "ReadPromises" ->
         LET ids == SetToSeq(DuePromises(S, cmd.time)) IN [rows |-> Len(ids), recs |-> [i \in DOMAIN ids |-> WithId(ids[i], S.promises[ids[i]])]]
    [] cmd.k = "SearchPromises" ->
         LET ids == SearchPromisesIds(S, cmd.a, Idc) IN [rows |-> Len(ids), recs |-> [i \in DOMAIN ids |-> PBody(S, ids[i])]]
    [] cmd.k = "SearchSchedules" ->
         LET ids == SearchSchedulesIds(S, cmd.a, Idc) IN [rows |-> Len(ids), recs |-> [i \in DOMAIN ids |-> SBody(S, ids[i])]]
    [] cmd.k = "ReadSchedules" ->
         LET ids == SetToSeq(DueSchedules(S, cmd.time)) IN [rows |-> Len(ids), recs |-> [i \in DOMAIN ids |-> WithId(ids[i], S.schedules[ids[i]])]]
    [] cmd.k = "ReadTasks" ->
         LET ids == SetToSeq(ExpirableTasks(S, cmd.states, cmd.time)) IN [rows |-> Len(ids), recs |-> [i \in DOMAIN ids |-> WithId(ids[i], S.tasks[ids[i]])]]
    [] cmd.k = "ReadEnqueueableTasks" ->
         LET roots == SetToSeq(EnqueueableRoots(S))
             pick(r) == CHOOSE x \in EnqueueableTasks(S) : S.tasks[x].rootId = r
         IN [rows |-> Len(roots), recs |-> [i \in DOMAIN roots |-> WithId(pick(roots[i]), S.tasks[pick(roots[i])])]]
    [] OTHER -> Res(S, cmd)
RECURSIVE TxResults(_, _)
TxResults(S, cmds) == IF cmds = <<>> THEN <<>> ELSE <<ResultOf(S, Head(cmds))>> \o TxResults(Apply(S, Head(cmds)), Tail(cmds))
IsReadOnly(cmds) == \A i \in DOMAIN cmds : cmds[i].k \in {"ReadPromise", "ReadTask", "ReadPromises", "ReadTasks", "ReadEnqueueableTasks", "ReadSchedule", "ReadSchedules", "ReadLock", "SearchPromises", "SearchSchedules"}

(***************************************************************************)
(* Level A's demands on one commit / one reply.                            *)
(***************************************************************************)
RequestKinds == {"ReadPromise", "CreatePromise", "CreatePromiseAndTask", "CompletePromise", "CreateCallback", "CreateSubscription",
                 "ClaimTask", "CompleteTask", "HeartbeatTasks", "AcquireLock", "ReleaseLock", "HeartbeatLocks",
                 "CreateSchedule", "ReadSchedule", "DeleteSchedule", "SearchPromises", "SearchSchedules"}
\* (a search is a read: its answer is the page of the query on the state it saw, provided no hit was overdue)
SearchOp(c, S, t) ==
  IF c.kind = "SearchPromises"
  THEN [db |-> S, res |-> IF SearchOverdueHits(S, c.a, Idc, t) = {} THEN SearchPromisesRes(S, c.a, Idc) ELSE [status |-> -1]]
  ELSE LET ids == SearchSchedulesIds(S, c.a, Idc) IN
       [db |-> S, res |-> [status |-> OK, schedules |-> [i \in DOMAIN ids |-> SBody(S, ids[i])],
                           cursor |-> IF Len(ids) = c.a.limit THEN Some(ids[Len(ids)]) ELSE None]]
OpAt(c, S) == IF c.kind = "CreatePromiseAndTask" THEN OpCreatePromiseAndTask2(S, c.a, c.dt, c.t0)
              ELSE IF c.kind \in {"SearchPromises", "SearchSchedules"} THEN SearchOp(c, S, c.dt)
              ELSE Op(c.kind, S, c.a, c.dt)

\* F14: a completion that lost the race (UpdatePromise affects no row) still completes the tasks
IsF14(S, cmds) ==
  /\ Len(cmds) >= 2 /\ cmds[1].k = "UpdatePromise" /\ cmds[2].k = "CompleteTasks"
  /\ Res(S, cmds[1]).rows = 0 /\ Res(S, cmds[2]).rows > 0

\* the attempt counter is advisory: a claim writes back the value it read earlier
NormA(S) == [S EXCEPT !.tasks = [x \in DOMAIN S.tasks |-> [S.tasks[x] EXCEPT !.attempt = 0]]]
SameAs(c, S2, S3) == IF c.kind = "ClaimTask" THEN NormA(S2) = NormA(S3) ELSE S2 = S3

\* what level A allows the commit of coroutine c to do to database S
CommitAllowed(c, S, S2) ==
  \/ S2 = S
  \/ c.kind \in RequestKinds /\ SameAs(c, S2, OpAt(c, S).db)
  \/ c.kind \in {"TimeoutChild", "SearchChild"} /\ S2 = TimeoutP(S, c.p[1].id, c.dt)
  \/ c.kind = "TimeoutLocks" /\ S2 = SweepLocks(S, c.dt)
  \* a schedule fires: its promise (unless it exists) and the advance in one step; when the schedule was deleted or
  \* re-created meanwhile the advance is refused and only the promise is created (an "orphan firing", accepted)
  \/ c.kind = "ScheduleChild" /\ (\/ (CanFire(S, c.p[1].id, c.dt) /\ S.schedules[c.p[1].id] = [x \in DOMAIN S.schedules[c.p[1].id] |-> c.p[1][x]]
                                       /\ S2 = Fire(S, c.p[1].id, c.dt))
                                    \/ (Res(S, c.tx[2]).rows = 0 /\ S2 = Apply(S, c.tx[1])))
  \/ c.kind \in {"TimeoutTasks", "EnqueueTasks"}          \* judged by the step properties of Props.tla
  \/ "F14" \in Known /\ IsF14(S, c.tx)

\* the core of a claim reply (the promises are read at a later instant)
Core(c, r) == IF c.kind = "ClaimTask" /\ "task" \in DOMAIN r
              THEN [status |-> r.status, task |-> IF IsSome(r.task) THEN Some([The(r.task) EXCEPT !.attempt = 0]) ELSE None]
              ELSE r
\* (evaluated in the state in which the reply is made)
ReplyAllowed(c) ==
  IF IsNone(c.reply) THEN TRUE
  ELSE LET r == Core(c, The(c.reply)) IN
       IF r.status = STORE_ERROR THEN TRUE          \* a failed request may or may not have taken effect
       ELSE IF IsSome(c.eff) THEN r = The(c.eff)
       ELSE IF c.kind \in {"SearchPromises", "SearchSchedules"} THEN \E s \in c.snaps : SearchOp(c, s.S, now).res = r
       ELSE \/ \E s \in c.snaps : LET o == Op(c.kind, s.S, c.a, s.dt) IN o.db = s.S /\ Core(c, o.res) = r
            \/ c.snaps = {} /\ LET o == Op(c.kind, db, c.a, now) IN o.db = db /\ Core(c, o.res) = r

(***************************************************************************)
(* Actions.                                                                *)
(***************************************************************************)
Note(e) == hist' = Append(hist, e)

Init ==
  /\ db = InitDB /\ now = CHOOSE t \in Times : \A u \in Times : t <= u
  /\ co = <<>> /\ started = {} /\ nsweeps = 0 /\ hist = <<>> /\ last = [e |-> "init"]
  \* the parties of this behaviour: every choice of Parties of the scenario's requests and sweeps
  /\ sel \in {s \in SUBSET ({Rid(i) : i \in DOMAIN Script} \cup Sweeps) : Cardinality(s) = Parties}

\* a request is admitted and its coroutine runs up to its first yield
Start(i) ==
  /\ i \in DOMAIN Script /\ Rid(i) \in sel /\ i \notin started
  /\ started' = started \cup {i}
  /\ LET c0 == [NoCo EXCEPT !.own = Rid(i), !.kind = Script[i].kind, !.a = Script[i].a, !.ph = "start"] IN
     /\ co' = Put(co, Rid(i), Run(c0, now))
     /\ last' = [e |-> "start", c |-> Rid(i), rok |-> ReplyAllowed(Run(c0, now))]
  /\ Note([e |-> "start", c |-> Rid(i), i |-> i])
  /\ UNCHANGED <<db, now, nsweeps, sel>>

Sweep(kind) ==
  /\ kind \in Sweeps /\ kind \in sel /\ nsweeps < MaxSweeps
  /\ ~ \E id \in DOMAIN co : co[id].kind = kind /\ co[id].ph # "done"     \* one instance at a time (system.go)
  /\ nsweeps' = nsweeps + 1
  /\ LET id == kind \o ToString(nsweeps + 1)
         c0 == [NoCo EXCEPT !.own = id, !.kind = kind, !.ph = "start"] IN
     /\ co' = Put(co, id, Run(c0, now))
     /\ Note([e |-> "sweep", c |-> id, kind |-> kind]) /\ last' = [e |-> "sweep", c |-> id]
  /\ UNCHANGED <<db, now, started, sel>>

Advance(t) ==
  /\ t \in Times /\ t > now /\ now' = t
  /\ Note([e |-> "advance", t |-> t]) /\ last' = [e |-> "advance"]
  /\ UNCHANGED <<db, co, started, nsweeps, sel>>

\* the store commits the transaction coroutine id is parked at
Commit(id) ==
  /\ id \in DOMAIN co /\ co[id].sub = "store" /\ ~ co[id].ready /\ co[id].ph # "done"
  /\ LET c == co[id]
         failed == SeqFails(db, c.tx)
         S2 == IF failed THEN db ELSE ApplySeq(db, c.tx)
         isEffect == c.kind \in RequestKinds /\ S2 # db /\ SameAs(c, S2, OpAt(c, db).db)
     IN
     /\ db' = S2
     /\ co' = [co EXCEPT ![id] = [c EXCEPT !.res = IF failed THEN <<>> ELSE TxResults(db, c.tx), !.ready = TRUE, !.err = failed,
                                           !.snaps = IF S2 = db THEN @ \cup {[S |-> db, dt |-> c.dt]} ELSE @,     \* a commit that changes nothing is a look at the database
                                           !.eff = IF isEffect THEN Some(Core(c, OpAt(c, db).res)) ELSE @]]
     /\ last' = [e |-> "commit", c |-> id, ok |-> CommitAllowed(c, db, S2),
                 f14 |-> IsF14(db, c.tx) /\ S2 # db]
  /\ Note([e |-> "commit", c |-> id, p |-> IF co[id].kind \in {"TimeoutChild", "ScheduleChild", "SearchChild"} THEN co[id].p[1].id ELSE ""])
  /\ UNCHANGED <<now, started, nsweeps, sel>>

\* the router answers (routing itself is C19's business: here it follows the tag)
Route(id) ==
  /\ id \in DOMAIN co /\ co[id].sub = "router" /\ ~ co[id].ready
  /\ co' = [co EXCEPT ![id].ready = TRUE]
  /\ Note([e |-> "route", c |-> id]) /\ last' = [e |-> "route", c |-> id]
  /\ UNCHANGED <<db, now, started, nsweeps, sel>>

\* the transport takes or refuses the tasks handed to it
Send(id, outcomes) ==
  /\ id \in DOMAIN co /\ co[id].sub = "sender" /\ ~ co[id].ready
  /\ DOMAIN outcomes = DOMAIN co[id].sends
  /\ co' = [co EXCEPT ![id].ready = TRUE,
                      ![id].sends = [i \in DOMAIN outcomes |-> [id |-> co[id].sends[i].id, outcome |-> outcomes[i]]]]
  /\ Note([e |-> "send", c |-> id, outcomes |-> outcomes]) /\ last' = [e |-> "send", c |-> id]
  /\ UNCHANGED <<db, now, started, nsweeps, sel>>

\* the completion is delivered and the coroutine runs up to its next yield
\* (a search that awaits its children goes on in the very resume in which the last of them finishes)
OthersDone(parent, child) == \A x \in DOMAIN co : (co[x].own = parent /\ x # parent /\ x # child) => co[x].ph = "done"
Resume(id) ==
  /\ id \in DOMAIN co /\ co[id].ready
  /\ LET c == Run(co[id], now)
         kids == IF co[id].kind \in {"TimeoutPromises", "SchedulePromises"} /\ co[id].ph = "read" /\ ~ co[id].err THEN co[id].res[1].recs
                 ELSE IF co[id].kind = "SearchPromises" /\ co[id].ph = "search" /\ ~ co[id].err /\ c.ph = "await" THEN c.x
                 ELSE <<>>
         kid(i) == Run([NoCo EXCEPT !.own = id, !.kind = CASE co[id].kind = "TimeoutPromises" -> "TimeoutChild"
                                                          [] co[id].kind = "SchedulePromises" -> "ScheduleChild"
                                                          [] OTHER -> "SearchChild",
                                    !.ph = "start", !.p = <<kids[i]>>, !.ct = now], now)
         par == co[id].own
         wakes == co[id].kind = "SearchChild" /\ c.ph = "done" /\ co[par].sub = "children" /\ OthersDone(par, id)
     IN co' = [x \in (DOMAIN co) \cup {id \o "." \o kids[i].id : i \in DOMAIN kids} |->
                 IF x = id THEN c
                 ELSE IF wakes /\ x = par THEN Run(co[par], now)
                 ELSE IF x \in DOMAIN co THEN co[x]
                 ELSE kid(CHOOSE i \in DOMAIN kids : x = id \o "." \o kids[i].id)]
  /\ Note([e |-> "resume", c |-> id]) /\ last' = [e |-> "resume", c |-> id, rok |-> ReplyAllowed(Run(co[id], now))]
  /\ UNCHANGED <<db, now, started, nsweeps, sel>>

Next ==
  \/ \E i \in DOMAIN Script : Start(i)
  \/ \E k \in Sweeps : Sweep(k)
  \/ \E t \in Times : Advance(t)
  \/ \E id \in DOMAIN co : Commit(id) \/ Route(id) \/ Resume(id)
  \/ \E id \in DOMAIN co : co[id].sub = "sender" /\ \E o \in [DOMAIN co[id].sends -> {"ok", "fail"}] : Send(id, o)
Spec == Init /\ [][Next]_vars

(***************************************************************************)
(* Properties.                                                             *)
(***************************************************************************)
\* every commit is a no-op or the level-A operation of its owner at its decision tick
I_CommitRefines == last.e = "commit" => last.ok
\* every reply is the level-A answer at the request's effect, or at one of its reads if it had none
I_ReplyLinearizable == last.e \in {"start", "resume"} => last.rok
\* nobody waits for ever: when nothing is enabled any more every request has been answered
Quiescent == \A id \in DOMAIN co : co[id].ph = "done"
AllStarted == \A i \in DOMAIN Script : Rid(i) \in sel => i \in started
TypeOK == WellFormed(db)
\* reachability probes (expected to be VIOLATED: used to see that a scenario exercises what it is for)
Probe_ScheduleFired == ~ \E id \in DOMAIN co : co[id].kind = "ScheduleChild" /\ co[id].ph = "done" /\ DOMAIN db.promises # {}
Probe_SearchTimedOut == ~ \E id \in DOMAIN co : co[id].kind = "SearchChild" /\ co[id].ph = "done"
Probe_LockSwept == ~ (last.e = "commit" /\ \E id \in DOMAIN co : co[id].kind = "TimeoutLocks" /\ co[id].ph = "sweep" /\ co[id].ready /\ co[id].res[1].rows > 0)
View == <<db, now, co, started, nsweeps, last, sel>>

\* the step properties of Props.tla, for every commit of every coroutine
A_C01 == [][/\ C01_WriteOnce(db, db') /\ C01_PendingLeavesOnce(db, db') /\ C01_CreationImmutable(db, db')
            /\ C01_NeverDisappears(db, db') /\ C01_BornPending(db, db')]_db
A_C04 == [][C04_CompletionShape(db, db')]_db
A_C05 == [][/\ C05_NoOrphanRegistration(db') /\ C05_RegistrationsConverted(db, db') /\ C05_NoneLeftBehind(db, db')]_db
A_C07 == [][/\ C07_CountersNeverDecrease(db, db') /\ C07_FinishedIsAbsorbing(db, db') /\ C07_TasksNeverDisappear(db, db')
            /\ C07_ClaimGuard(db, db') /\ C07_FencingOnReclaim(db, db')]_db
A_C08 == [][C08_RoutedHasTask(db, db') /\ C08_FinishedWithPromise(db, db')]_db
A_C09 == [][C09_NoTransferInPlace(db, db')]_db
A_C10 == [][C10_AdvancesByOne(db, db') /\ C10_NotEarly(db, db', now) /\ C10_FiringCreatesPromise(db, db')]_db
=============================================================================
