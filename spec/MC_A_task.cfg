SPECIFICATION Spec
CONSTANTS
  CronPeriod <- MCCronPeriod
  Expand <- MCExpand
  PIds = {"p1"}
  Keys = {"k1"}
  Timeouts = {3}
  TagSets <- TaskTagSets
  SubIds = {"s1"}
  Pids = {"w1", "w2"}
  Ttls = {0, 2}
  Counters = {1, 2}
  LockIds = {"l1"}
  ExecIds = {"e1"}
  SchedIds = {"sc1"}
  Crons = {2}
  Templates = {"T"}
  PTimeouts = {1}
  MaxTime = 4
  MaxSteps = 5
  Delay = 1
  MaxCounter = 2
  MaxAttempt = 1
  Families = {"task"}
INVARIANTS
  TypeOK
  I_C07_CounterStatuses
  I_C08_NoActiveInvokeOfCompleted
  I_C08_UnroutedRefused
PROPERTIES
  A_C07_CountersNeverDecrease
  A_C07_FinishedIsAbsorbing
  A_C07_TasksNeverDisappear
  A_C07_ClaimGuard
  A_C07_LeaseHonoured
  A_C07_FencingOnReclaim
  A_C08_RoutedHasTask
  A_C08_FinishedWithPromise
