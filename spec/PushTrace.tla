----------------------------- MODULE PushTrace -----------------------------
(***************************************************************************)
(* Judges what pushx recorded when it played scenarios of PushGen.tla      *)
(* against the real sender worker and the real http transport (C19).       *)
(* The record has what can be seen from outside: the call and the return   *)
(* of SenderWorker.Process, every request a receiver got, every report.    *)
(* When the transport puts a message on its queue and when its worker      *)
(* takes the next one cannot be seen; `cand` is the set of states of the   *)
(* machine of Push.tla compatible with the record so far (closed under     *)
(* those two silent steps).  An event no state of cand allows is the       *)
(* violation; it is named and cand is kept, so the rest is still judged.   *)
(***************************************************************************)
EXTENDS Push, Json
CONSTANT TraceFile
CONSTANT Known
TraceLog == ndJsonDeserialize(TraceFile)

VARIABLES l, cand, ms, bad
tvars == <<s, l, cand, ms, bad>>
Ev == TraceLog[l]
Consume == l <= Len(TraceLog) /\ l' = l + 1 /\ UNCHANGED s

TInit == s = EmptyPush /\ l = 1 /\ cand = {EmptyPush} /\ ms = <<>> /\ bad = "" /\ TLCSet(42, {})

Msg(i) == LET k == CHOOSE k \in DOMAIN ms : ms[k].id = i IN ms[k]
IsMsg(i) == \E k \in DOMAIN ms : ms[k].id = i

\* the silent steps: a put inside Process, the worker taking the next message
Grow(C) == C \cup {Take(S) : S \in {S \in C : CanTake(S)}} \cup UNION {{Enq(S, m) : m \in S.sending} : S \in C}
RECURSIVE Closure(_)
Closure(C) == LET D == Grow(C) IN IF D = C THEN C ELSE Closure(D)

Norm(r) == IF r = "success" THEN "success" ELSE "failed"      \* failure and error are both failed hand-offs

EBegin ==
  /\ Consume /\ Ev.e = "begin"
  /\ cand' = {EmptyPush} /\ ms' = Ev.msgs /\ bad' = ""
ESend ==
  /\ Consume /\ Ev.e = "send" /\ UNCHANGED ms
  /\ cand' = {Begin(S, Msg(Ev.m)) : S \in cand} /\ bad' = ""
ESent ==
  /\ Consume /\ Ev.e = "sent" /\ UNCHANGED ms
  /\ LET m == Msg(Ev.m)
         C == {End(S, m) : S \in {S \in Closure(cand) : CanEnd(S, m)}} IN
     IF C # {} THEN cand' = C /\ bad' = ""
     ELSE cand' = cand /\ bad' = "a message that was refused was not reported before the hand-off returned"

\* the request a receiver got: the POST of the message's body, with the headers of the address
ExpectedEp(S) == IF S.cur.beh = "redirect" THEN (IF S.seen = 0 THEN "redirect" ELSE "final") ELSE S.cur.beh
WellFormed(m) ==
  /\ Ev.method = "POST" /\ Ev.ct = "application/json"
  /\ Ev.type = "invoke" /\ Ev.task = "t-" \o m.id /\ Ev.counter = 7
  /\ Ev.claim = "http://resonate.test/tasks/claim/t-" \o m.id \o "/7"
  /\ Ev.xv = (IF m.addr = "physical-headers" THEN "v-" \o m.id ELSE "")
ERcv ==
  /\ Consume /\ Ev.e = "rcv" /\ UNCHANGED ms
  /\ IF ~ IsMsg(Ev.m) THEN cand' = cand /\ bad' = "a request arrived that no message accounts for"
     ELSE LET m == Msg(Ev.m)
              Now == {S \in Closure(cand) : CanArrive(S) /\ S.cur = m}
              C == {Arrive(S) : S \in {S \in Now : ExpectedEp(S) = Ev.ep}} IN
          IF C # {} /\ WellFormed(m) THEN cand' = C /\ bad' = ""
          ELSE /\ cand' = (IF C # {} THEN C ELSE cand)
               /\ bad' = IF m.addr \notin Reachable THEN "a message with an undeliverable address reached a receiver"
                         ELSE IF Now = {} THEN "a message was put on the wire when the transport could not have sent it (twice, out of order, or never accepted)"
                         ELSE IF C = {} THEN "a request arrived at another endpoint than the addressed one"
                         ELSE "the request is not the POST of the message body with its headers"
EReport ==
  /\ Consume /\ Ev.e = "report" /\ UNCHANGED ms
  /\ LET m == Msg(Ev.m)
         Due == {S \in Closure(cand) : ~ Reported(S, m) /\ ReportDue(S, m) # "none"}
         C == {Report(S, m, ReportDue(S, m)) : S \in {S \in Due : Norm(ReportDue(S, m)) = Norm(Ev.r)}} IN
     IF C # {} THEN cand' = C /\ bad' = ""
     ELSE /\ cand' = cand
          /\ bad' = IF \A S \in cand : Reported(S, m) THEN "a message was reported twice"
                    ELSE IF Due = {} THEN (IF Ev.r = "success" THEN "a hand-off was reported as successful before the receiver had the message"
                                           ELSE "a message was reported before the transport was through with it")
                    ELSE IF Ev.r = "success" THEN "a hand-off that did not succeed was reported as successful"
                    ELSE "a delivered message was reported as failed"
EEnd ==
  /\ Consume /\ Ev.e = "end" /\ UNCHANGED <<ms, cand>>
  /\ bad' = IF Ev.panicked THEN "the transport died"
            ELSE IF \E S \in cand : \E k \in DOMAIN ms : ~ Reported(S, ms[k]) THEN "a message was never reported (a lost hand-off)"
            ELSE ""
TNext == EBegin \/ ESend \/ ESent \/ ERcv \/ EReport \/ EEnd
TSpec == TInit /\ [][TNext]_tvars

\* success is reported exactly for the messages whose receiver answered 200; everything else is a failed hand-off
C19_PushReportsTruthfully == bad \notin {"a hand-off that did not succeed was reported as successful", "a delivered message was reported as failed",
                                         "a hand-off was reported as successful before the receiver had the message"}
\* nothing is misdirected, sent twice, or sent although its address cannot be contacted
C19_PushNoStrayRequest == bad \notin {"a request arrived that no message accounts for", "a message with an undeliverable address reached a receiver",
                                      "a message was put on the wire when the transport could not have sent it (twice, out of order, or never accepted)",
                                      "a request arrived at another endpoint than the addressed one"}
\* the receiver gets the message as built: POST, JSON, the task's id, counter and links, the headers of the address
C19_PushRequestAsBuilt == bad # "the request is not the POST of the message body with its headers"
\* exactly one report per message (never lost, never twice, a refusal at once)
C19_PushReportedOnce == bad \notin {"a message was reported twice", "a message was never reported (a lost hand-off)",
                                    "a message that was refused was not reported before the hand-off returned",
                                    "a message was reported before the transport was through with it"}
C19_PushSurvives == bad # "the transport died"

TraceAccepted ==
  LET d == TLCGet("stats").diameter IN
  IF d - 1 = Len(TraceLog) THEN PrintT(<<"KNOWN-FINDINGS-SEEN", TLCGet(42)>>)
  ELSE Print(<<"TRACE NOT CONSUMED", d - 1, Len(TraceLog)>>, FALSE)
Last == IF l > 1 THEN TraceLog[l - 1] ELSE [e |-> "none"]
Alias == [l |-> l, bad |-> bad, msgs |-> ms, states |-> cand,
          event |-> IF Last.e \in {"send", "sent", "report", "rcv"} THEN [e |-> Last.e, m |-> Last.m] ELSE [e |-> Last.e, m |-> ""]]
=============================================================================
