------------------------------ MODULE MC_Search ------------------------------
(***************************************************************************)
(* Exhaustive check of the search definitions of level A (C14): over every *)
(* reachable population of up to four promises in any state, every pattern *)
(* of the menu, every state filter, tag filter and page size, following    *)
(* the cursors from the first page to the end returns exactly the matching *)
(* set, once each, newest first, with a cursor exactly on full pages.      *)
(***************************************************************************)
EXTENDS Props

VARIABLES db, now
vars == <<db, now>>

MCCronPeriod(c) == 1
MCExpand(tpl, sid, ts) == tpl

Ids == {"a.x", "b.x", "ab"}
Idc == [id \in Ids |-> CASE id = "a.x" -> <<"a", ".", "x">>
                         [] id = "b.x" -> <<"b", ".", "x">> [] id = "ab" -> <<"a", "b">>]
Patterns == {<<"*">>, <<"a", "*">>, <<"*", "x">>, <<"a", "*", "x">>, <<"*", ".", "*">>, <<"a", "b">>, <<"*", "b", "*">>}
StateFilters == {<<PENDING>>, <<RESOLVED>>, <<REJECTED, TIMEDOUT, CANCELED>>,
                 <<PENDING, RESOLVED, REJECTED, TIMEDOUT, CANCELED>>}
TagFilters == {<<>>, ("a" :> "b")}
Queries == [qc : Patterns, states : StateFilters, tags : TagFilters, limit : 1..2]

Init == db = EmptyDB /\ now = 0
DoCreate(id, tags) ==
  /\ ~ Has(db.promises, id)
  /\ db' = OpCreatePromise(db, [id |-> id, ikey |-> None, strict |-> FALSE, param |-> EmptyValue, timeout |-> 2, tags |-> tags], now).db
  /\ now' = now
DoComplete(id, st) ==
  /\ IsPending(db, id)
  /\ db' = OpCompletePromise(db, [id |-> id, ikey |-> None, strict |-> FALSE, state |-> st, value |-> EmptyValue], now).db
  /\ now' = now
Tick == now < 2 /\ now' = now + 2 /\ db' = db
Sweep(id) == Overdue(db, id, now) /\ db' = TimeoutP(db, id, now) /\ now' = now
Next == \/ \E id \in Ids, tg \in {<<>>, ("a" :> "b")} : DoCreate(id, tg)
        \/ \E id \in Ids, st \in {RESOLVED, REJECTED} : DoComplete(id, st)
        \/ \E id \in Ids : Sweep(id)
        \/ Tick
Spec == Init /\ [][Next]_vars

\* all pages of query q on the fixed state S, following the cursors
RECURSIVE Pages(_, _, _)
Pages(S, q, cursor) ==
  LET r == SearchPromisesRes(S, [q EXCEPT !.cursor = cursor], Idc) IN
  IF IsNone(r.cursor) THEN <<r>> ELSE <<r>> \o Pages(S, q, r.cursor)

RECURSIVE Concat(_)
Concat(ps) == IF ps = <<>> THEN <<>> ELSE [i \in DOMAIN Head(ps).promises |-> Head(ps).promises[i].id] \o Concat(Tail(ps))

TraversalOK(S, q0) ==
  LET q == [qc |-> q0.qc, states |-> q0.states, tags |-> q0.tags, limit |-> q0.limit, cursor |-> None]
      ps == Pages(S, q, None)
      ids == Concat(ps)
  IN /\ Range(ids) = PromiseMatchSet(S, q, Idc)                 \* exactly the matching set
     /\ NoDup(ids)                                              \* once each
     /\ \A i, j \in DOMAIN ids : i < j => Pos(S.porder, ids[i]) > Pos(S.porder, ids[j])   \* newest first
     /\ \A k \in DOMAIN ps :
          /\ Len(ps[k].promises) <= q.limit
          /\ IsSome(ps[k].cursor) <=> Len(ps[k].promises) = q.limit

I_C14_TraversalExact == \A q \in Queries : TraversalOK(db, q)
=============================================================================
