------------------------------ MODULE Durable ------------------------------
(***************************************************************************)
(* C06 at the level of the PROCESS: what a client may rely on across kill  *)
(* -9, SIGTERM with the default configuration, restarts on the same        *)
(* database file and crashes during recovery.                              *)
(*                                                                         *)
(* The durable state is abstract: which promises / registrations / tasks / *)
(* schedules / locks exist and in which state.  The point of the module is *)
(* what Kill, Term, Start and StartKill do to it: NOTHING.  Requests in    *)
(* flight at a crash (Burst) leave the entities they touch either as       *)
(* before or completely changed.  Background processing (the time-out of   *)
(* the short-lived promise, the firing of the every-second schedule)       *)
(* resumes after a restart from the stored state.                          *)
(*                                                                         *)
(* TLC generates behaviours of this machine (DurableGen); procx plays them *)
(* against real `resonate serve` processes over HTTP with real signals;    *)
(* TLC re-runs the machine along what was observed (DurableTrace).         *)
(***************************************************************************)
EXTENDS Integers, Sequences, FiniteSets, TLC

CONSTANTS Promises,       \* ids of the long-lived promises, e.g. {"a", "b"}
          MaxSteps,
          Cold            \* TRUE: the behaviour begins before the server has ever been started on its (new) database file

VARIABLES
  up,      \* the server process is running
  ps,      \* promise -> "none" | "pending" | "resolved" | "rejected" | "canceled" | "maybe-created" | "maybe-completed"
  routed,  \* promises created with a routing tag: the task __invoke:<p> was created with them
  subs,    \* promises with a stored subscription (a row of the callbacks table)
  notified,\* promises whose subscription was converted into the task __notify:<p>:sub at completion
  ts,      \* task of a routed promise: "none" | "open" | "claimed" | "completed"
  sched,   \* "none" | "yearly" | "secondly"
  fired,   \* the every-second schedule must have fired (it was there during a Wait with the server up)
  lock,    \* the lock "l" is held
  short,   \* the short-lived promise "t": "none" | "pending" | "timedout"
  aged,    \* its timeout has certainly passed
  n,       \* number of steps so far
  hist     \* the steps (what the harness is to do)
vars == <<up, ps, routed, subs, notified, ts, sched, fired, lock, short, aged, n, hist>>

Completed == {"resolved", "rejected", "canceled"}
Definite(p) == ps[p] \in {"none", "pending"} \cup Completed

Init ==
  /\ up = ~ Cold /\ ps = [p \in Promises |-> "none"] /\ routed = {} /\ subs = {} /\ notified = {}
  /\ ts = [p \in Promises |-> "none"] /\ sched = "none" /\ fired = FALSE /\ lock = FALSE
  /\ short = "none" /\ aged = FALSE /\ n = 0 /\ hist = <<>>

Step(s) == n' = n + 1 /\ hist' = Append(hist, s)
RECURSIVE SetToSeq(_)
SetToSeq(S) == IF S = {} THEN <<>> ELSE LET x == CHOOSE x \in S : TRUE IN <<x>> \o SetToSeq(S \ {x})

(***************************************************************************)
(* Effects of acknowledged requests (each one is one store transaction),   *)
(* as functions of the promise part D of the durable state.                *)
(***************************************************************************)
D == [ps |-> ps, routed |-> routed, subs |-> subs, notified |-> notified, ts |-> ts]
SetD(S) == ps' = S.ps /\ routed' = S.routed /\ subs' = S.subs /\ notified' = S.notified /\ ts' = S.ts
EffCreate(S, p, r) ==
  [S EXCEPT !.ps[p] = "pending", !.routed = IF r THEN S.routed \cup {p} ELSE S.routed \ {p},
            !.ts[p] = IF r THEN "open" ELSE "none"]
EffComplete(S, p, st) ==
  [S EXCEPT !.ps[p] = st, !.subs = S.subs \ {p},
            !.notified = IF p \in S.subs THEN S.notified \cup {p} ELSE S.notified,
            !.ts[p] = IF p \in S.routed THEN "completed" ELSE S.ts[p]]

CreateP(p, r) ==
  /\ up /\ ps[p] = "none" /\ SetD(EffCreate(D, p, r))
  /\ Step([op |-> "create", p |-> p, routed |-> r])
  /\ UNCHANGED <<up, sched, fired, lock, short, aged>>
Subscribe(p) ==
  /\ up /\ ps[p] = "pending" /\ p \notin subs
  /\ subs' = subs \cup {p}
  /\ Step([op |-> "subscribe", p |-> p])
  /\ UNCHANGED <<up, ps, routed, notified, ts, sched, fired, lock, short, aged>>
CompleteP(p, st) ==
  /\ up /\ ps[p] = "pending" /\ SetD(EffComplete(D, p, st))
  /\ Step([op |-> "complete", p |-> p, state |-> st])
  /\ UNCHANGED <<up, sched, fired, lock, short, aged>>
Claim(p) ==
  /\ up /\ ps[p] = "pending" /\ ts[p] = "open"
  /\ ts' = [ts EXCEPT ![p] = "claimed"]
  /\ Step([op |-> "claim", p |-> p])
  /\ UNCHANGED <<up, ps, routed, subs, notified, sched, fired, lock, short, aged>>
CompleteT(p) ==
  /\ up /\ ts[p] = "claimed"
  /\ ts' = [ts EXCEPT ![p] = "completed"]
  /\ Step([op |-> "completetask", p |-> p])
  /\ UNCHANGED <<up, ps, routed, subs, notified, sched, fired, lock, short, aged>>
CreateS(kind) ==
  /\ up /\ sched = "none" /\ sched' = kind
  /\ Step([op |-> "createschedule", kind |-> kind])
  /\ UNCHANGED <<up, ps, routed, subs, notified, ts, fired, lock, short, aged>>
DeleteS ==
  /\ up /\ sched # "none" /\ sched' = "none" /\ fired' = FALSE
  /\ Step([op |-> "deleteschedule"])
  /\ UNCHANGED <<up, ps, routed, subs, notified, ts, lock, short, aged>>
Acquire ==
  /\ up /\ ~ lock /\ lock' = TRUE
  /\ Step([op |-> "acquire"])
  /\ UNCHANGED <<up, ps, routed, subs, notified, ts, sched, fired, short, aged>>
Release ==
  /\ up /\ lock /\ lock' = FALSE
  /\ Step([op |-> "release"])
  /\ UNCHANGED <<up, ps, routed, subs, notified, ts, sched, fired, short, aged>>
CreateShort ==
  /\ up /\ short = "none" /\ short' = "pending"
  /\ Step([op |-> "createshort"])
  /\ UNCHANGED <<up, ps, routed, subs, notified, ts, sched, fired, lock, aged>>

(***************************************************************************)
(* Time.  Wait is long enough for the short promise to run out and for     *)
(* several background cycles; with the server up the sweeper then has      *)
(* timed it out and the every-second schedule has fired; with the server   *)
(* down nothing happens, but it happens after the next Start + Wait.       *)
(***************************************************************************)
Wait ==
  /\ aged' = (aged \/ short = "pending")
  /\ short' = IF up /\ short = "pending" THEN "timedout" ELSE short
  /\ fired' = (fired \/ (up /\ sched = "secondly"))
  /\ Step([op |-> "wait"])
  /\ UNCHANGED <<up, ps, routed, subs, notified, ts, sched, lock>>

(***************************************************************************)
(* The process.  None of these touches the durable state.                  *)
(***************************************************************************)
Kill ==
  /\ up /\ up' = FALSE /\ Step([op |-> "kill"])
  /\ UNCHANGED <<ps, routed, subs, notified, ts, sched, fired, lock, short, aged>>
Term ==
  /\ up /\ up' = FALSE /\ Step([op |-> "term"])
  /\ UNCHANGED <<ps, routed, subs, notified, ts, sched, fired, lock, short, aged>>
Start ==
  /\ ~ up /\ up' = TRUE /\ Step([op |-> "start"])
  /\ UNCHANGED <<ps, routed, subs, notified, ts, sched, fired, lock, short, aged>>
StartKill(ms) ==   \* a crash during recovery
  /\ ~ up /\ Step([op |-> "startkill", ms |-> ms])
  /\ UNCHANGED <<up, ps, routed, subs, notified, ts, sched, fired, lock, short, aged>>

(***************************************************************************)
(* Requests in flight at a crash: every promise of B gets a request (a     *)
(* routed creation if it does not exist, a completion if it is pending),   *)
(* all sent at once together with `filler` further creations (carrying      *)
(* values of 100 kB when grow > 0: transactions larger than the page cache  *)
(* of the store), and the server is killed ms later, or, when grow > 0, as  *)
(* soon as the database file has grown by grow megabytes.  Acknowledged ones have taken effect; of the *)
(* others nothing is known until the database is looked at: "maybe".       *)
(***************************************************************************)
Burst(B, ms, filler, grow) ==
  /\ up /\ B # {} /\ \A p \in B : ps[p] \in {"none", "pending"}
  /\ up' = FALSE
  /\ ps' = [p \in Promises |-> IF p \notin B THEN ps[p] ELSE IF ps[p] = "none" THEN "maybe-created" ELSE "maybe-completed"]
  /\ LET seq == SetToSeq(B) IN
     Step([op |-> "burst", ms |-> ms, filler |-> filler, grow |-> grow, reqs |-> [k \in 1..Len(seq) |-> [p |-> seq[k], create |-> ps[seq[k]] = "none"]]])
  /\ UNCHANGED <<routed, subs, notified, ts, sched, fired, lock, short, aged>>

\* Looking (reads through the API and rows of the database file) changes nothing.
Look ==
  /\ Step([op |-> "look"])
  /\ UNCHANGED <<up, ps, routed, subs, notified, ts, sched, fired, lock, short, aged>>

Next ==
  /\ n < MaxSteps
  /\ \/ \E p \in Promises, r \in BOOLEAN : Definite(p) /\ CreateP(p, r)
     \/ \E p \in Promises : Definite(p) /\ (Subscribe(p) \/ Claim(p) \/ CompleteT(p))
     \/ \E p \in Promises, st \in Completed : Definite(p) /\ CompleteP(p, st)
     \/ \E k \in {"yearly", "secondly"} : CreateS(k)
     \/ DeleteS \/ Acquire \/ Release \/ CreateShort \/ Wait
     \/ Kill \/ Term \/ Start \/ \E ms \in {0, 15, 60} : StartKill(ms)
     \/ \E B \in SUBSET {p \in Promises : ps[p] \in {"none", "pending"}}, ms \in {0, 2, 6}, f \in {0, 24}, g \in {0, 1} : Burst(B, ms, f, g)
Spec == Init /\ [][Next]_vars

(***************************************************************************)
(* What the stored rows must look like in a state of the machine.          *)
(* R is what the harness read from the database file: R.promises (id,      *)
(* state, routed, sched), R.callbacks (id, promiseId), R.tasks (id, state, *)
(* rootPromiseId), R.schedules (id), R.locks (id).                         *)
(***************************************************************************)
StateNo == [none |-> 0, pending |-> 1, resolved |-> 2, rejected |-> 4, canceled |-> 8, timedout |-> 16]
TaskOpen == {1, 2}     \* init, enqueued
TaskDone == {8, 16}    \* completed, timed out

RowsOf(rows, id) == {i \in DOMAIN rows : rows[i].id = id}
Has(rows, id) == RowsOf(rows, id) # {}
Row(rows, id) == rows[CHOOSE i \in RowsOf(rows, id) : TRUE]

\* a definite promise is stored exactly as acknowledged, with everything that belongs to it
PromiseAsAcked(R, p) ==
  CASE ps[p] = "none" -> ~ Has(R.promises, p)
    [] ps[p] = "pending" ->
         /\ Has(R.promises, p) /\ Row(R.promises, p).state = 1
         /\ (p \in routed => Has(R.tasks, "__invoke:" \o p))
         /\ (p \in routed /\ ts[p] = "open" => Row(R.tasks, "__invoke:" \o p).state \in TaskOpen)
         /\ (p \in routed /\ ts[p] = "claimed" => Row(R.tasks, "__invoke:" \o p).state = 4)
         /\ (p \in routed /\ ts[p] = "completed" => Row(R.tasks, "__invoke:" \o p).state \in TaskDone)
         /\ (p \in subs <=> Has(R.callbacks, "__notify:" \o p \o ":sub"))
    [] ps[p] \in Completed ->
         /\ Has(R.promises, p) /\ Row(R.promises, p).state = StateNo[ps[p]]
         /\ (p \in routed => Has(R.tasks, "__invoke:" \o p) /\ Row(R.tasks, "__invoke:" \o p).state \in TaskDone)
         /\ ~ Has(R.callbacks, "__notify:" \o p \o ":sub")
         /\ (p \in notified <=> Has(R.tasks, "__notify:" \o p \o ":sub"))
    [] OTHER -> TRUE

\* whatever was in flight: every stored entity is whole
Whole(R) ==
  /\ \A i \in DOMAIN R.promises :
       LET r == R.promises[i] IN
       /\ (r.routed => Has(R.tasks, "__invoke:" \o r.id))                                      \* never a routed promise without its task
       /\ (r.state # 1 /\ r.routed => Row(R.tasks, "__invoke:" \o r.id).state \in TaskDone)   \* never a completed promise with live tasks
  /\ \A i \in DOMAIN R.callbacks :                                                              \* never a completed promise whose registrations were not converted
       LET c == R.callbacks[i] IN Has(R.promises, c.promiseId) /\ Row(R.promises, c.promiseId).state = 1

\* a promise touched by an unacknowledged request is as before or completely changed
MaybeResolved(R, p) ==
  CASE ps[p] = "maybe-created" -> (Has(R.promises, p) => Row(R.promises, p).state = 1 /\ Row(R.promises, p).routed)
    [] ps[p] = "maybe-completed" ->
         /\ Has(R.promises, p) /\ Row(R.promises, p).state \in {1, 2}
         /\ (Row(R.promises, p).state = 1 => (p \in subs <=> Has(R.callbacks, "__notify:" \o p \o ":sub")))
         /\ (Row(R.promises, p).state = 2 => (p \in subs <=> Has(R.tasks, "__notify:" \o p \o ":sub")))
    [] OTHER -> TRUE

Others(R) ==
  /\ (sched # "none") <=> Has(R.schedules, "s")
  /\ lock <=> Has(R.locks, "l")
  /\ (short = "none") <=> ~ Has(R.promises, "t")
  /\ (short = "timedout" => Row(R.promises, "t").state = 16)                  \* background processing resumed / ran
  /\ (short = "pending" /\ ~ aged => Row(R.promises, "t").state \in {1, 16}) \* time passes between steps as well
  /\ (fired => \E i \in DOMAIN R.promises : R.promises[i].sched = "s")

TypeOK ==
  /\ up \in BOOLEAN /\ routed \subseteq Promises /\ subs \subseteq Promises /\ notified \subseteq Promises
  /\ \A p \in Promises : p \in subs => ps[p] \in {"pending", "maybe-completed"}
  /\ \A p \in Promises : ts[p] # "none" => p \in routed
  /\ \A p \in notified : ps[p] \in Completed
=============================================================================
