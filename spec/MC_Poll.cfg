SPECIFICATION Spec
CONSTANTS
  Max = 2
  Cap = 1
  Depth = 6
  MaxConns = 4
  Gen = FALSE
VIEW View
INVARIANTS
  I_RegistryOK
PROPERTIES
  A_SendExactlyOne
