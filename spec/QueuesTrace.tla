---------------------------- MODULE QueuesTrace ----------------------------
(***************************************************************************)
(* Judges what the clients of the real production plumbing observed        *)
(* (harness queuex) against the contract of C12.  The internal steps of    *)
(* the kernel and of the workers are not logged: the contract is stated    *)
(* over what a client can see - calls, replies with their code, the        *)
(* shutdown request, the return of the loop - in the order they happened.  *)
(***************************************************************************)
EXTENDS Integers, Sequences, FiniteSets, TLC, Json
CONSTANT TraceFile
CONSTANT Known
TraceLog == ndJsonDeserialize(TraceFile)
NoteFinding(name) == TLCSet(42, TLCGet(42) \cup {name})

RESULT == 0
SHUTTING_DOWN == 50300  API_QUEUE_FULL == 50301  SCHEDULER_FULL == 50303  AIO_ERROR == 50001
STORE_ERROR == 50004   AIO_QUEUE_FULL == 50302     \* explicit subsystem failures
Codes == {RESULT, SHUTTING_DOWN, API_QUEUE_FULL, SCHEDULER_FULL, AIO_ERROR, STORE_ERROR, AIO_QUEUE_FULL}

VARIABLES l, called, replied, shut, exited, held, bad
vars == <<l, called, replied, shut, exited, held, bad>>
Ev == TraceLog[l]
Last == IF l > 1 THEN TraceLog[l - 1] ELSE [e |-> "none"]

Init == l = 1 /\ called = {} /\ replied = <<>> /\ shut = FALSE /\ exited = FALSE /\ held = {} /\ bad = "" /\ TLCSet(42, {})
Consume == l <= Len(TraceLog) /\ l' = l + 1

EReset == Consume /\ Ev.e = "reset" /\ called' = {} /\ replied' = <<>> /\ shut' = FALSE /\ exited' = FALSE /\ held' = {} /\ bad' = ""
ECall == Consume /\ Ev.e = "call" /\ called' = called \cup {Ev.c} /\ bad' = "" /\ UNCHANGED <<replied, shut, exited, held>>
EChecked == Consume /\ Ev.e = "checked" /\ held' = held \cup {Ev.c} /\ bad' = "" /\ UNCHANGED <<called, replied, shut, exited>>
ESend == Consume /\ Ev.e = "send" /\ held' = held \ {Ev.c} /\ bad' = "" /\ UNCHANGED <<called, replied, shut, exited>>
EShutdown == Consume /\ Ev.e = "shutdown" /\ shut' = TRUE /\ bad' = "" /\ UNCHANGED <<called, replied, exited, held>>
EExit == Consume /\ Ev.e = "exit" /\ exited' = TRUE /\ bad' = "" /\ UNCHANGED <<called, replied, shut, held>>
EReply ==
  /\ Consume /\ Ev.e = "reply"
  /\ replied' = (Ev.c :> Ev.code) @@ replied
  /\ bad' = IF Ev.n # 1 \/ Ev.c \in DOMAIN replied THEN "second reply"
            ELSE IF Ev.code \notin Codes THEN "unknown code"
            ELSE IF Ev.code = SHUTTING_DOWN /\ ~ shut THEN "refused as shutting down before shutdown was requested"
            ELSE IF Ev.code = RESULT /\ exited THEN "a result after the server stopped"
            ELSE ""
  /\ UNCHANGED <<called, shut, exited, held>>
\* end of a round: nobody is left without a reply
EEnd ==
  /\ Consume /\ Ev.e = "end"
  /\ bad' = IF Len(Ev.missing) > 0 THEN "no reply" ELSE IF shut /\ ~ Ev.exited THEN "the loop did not return after shutdown" ELSE ""
  /\ UNCHANGED <<called, replied, shut, exited, held>>
\* (C11 on the production queues) after a burst of short-lived promises through tiny queues the
\* time-out sweep has timed every one of them out
EConverged ==
  /\ Consume /\ Ev.e = "converged"
  /\ bad' = IF Ev.stillPending > 0 THEN "promises pending past their timeout: background processing stalled" ELSE ""
  /\ UNCHANGED <<called, replied, shut, exited, held>>
Next == EReset \/ ECall \/ EChecked \/ ESend \/ EShutdown \/ EExit \/ EReply \/ EEnd \/ EConverged
Spec == Init /\ [][Next]_vars

\* Known finding F12 (check-then-send in EnqueueSQE): a client that passed the done-check
\* before shutdown and sends after the loop has returned is accepted into a queue nobody
\* reads: it never gets a reply.  Signature: the stranded clients were held between check
\* and send across shutdown and loop exit.
C12_ExactlyOneReply ==
  \/ bad \notin {"second reply", "no reply"}
  \/ bad = "no reply" /\ "F12" \in Known /\ Last.e = "end" /\ NoteFinding("F12")
C12_RefusalCodes == bad \notin {"unknown code", "refused as shutting down before shutdown was requested"}
C12_AcceptedCompletedBeforeStop == bad # "a result after the server stopped"
C12_LoopReturns == bad # "the loop did not return after shutdown"
C11_ProductionQueuesConverge == bad # "promises pending past their timeout: background processing stalled"

TraceAccepted ==
  LET d == TLCGet("stats").diameter IN
  IF d - 1 = Len(TraceLog) THEN PrintT(<<"KNOWN-FINDINGS-SEEN", TLCGet(42)>>)
  ELSE Print(<<"TRACE NOT CONSUMED", d - 1, Len(TraceLog)>>, FALSE)
Alias == [l |-> l, bad |-> bad, event |-> Last]
=============================================================================
