----------------------------- MODULE RouteTrace -----------------------------
(* Judges the observations routex recorded from the real router and sender workers. *)
EXTENDS Route
CONSTANT TraceFile
CONSTANT Known
TraceLog == ndJsonDeserialize(TraceFile)
NoteFinding(name) == TLCSet(42, TLCGet(42) \cup {name})

VARIABLES l, seenVec
vars == <<l, seenVec>>
Ev == TraceLog[l]
Last == IF l > 1 THEN TraceLog[l - 1] ELSE [e |-> "none"]
Init == l = 1 /\ seenVec = {} /\ TLCSet(42, {})
Next == /\ l <= Len(TraceLog) /\ l' = l + 1
        /\ seenVec' = IF Ev.e = "route" THEN seenVec \cup {<<"route", Ev.tag>>}
                      ELSE IF Ev.e = "send" THEN seenVec \cup {<<"send", Ev.table, Ev.recv, Ev.kind>>}
                      ELSE seenVec
Spec == Init /\ [][Next]_vars

\* Known finding F6: a routing tag whose value is the JSON literal null makes the router
\* dereference a nil receiver (the process dies)
Dev_F6 == Last.tag = "null" /\ Last.dead
C19_RouterFollowsTag ==
  Last.e = "route" => (RouteOK(Last) \/ ("F6" \in Known /\ Dev_F6 /\ NoteFinding("F6")))
C19_SenderResolves == Last.e = "send" => SendOK(Last)
\* C18: the poll transport delivers notifications only to the exact id; it can do so only if the sender
\* tells it that a message is a notification
C18_TransportToldTheKind == (Last.e = "send" /\ Last.handed /\ ~ Last.dead) => Last.msgType = Last.kind
\* ... and to the addressed id only if it is told the id under which the listener registered
C18_TransportToldTheListener ==
  (Last.e = "send" /\ Last.handed /\ ~ Last.dead /\ Last.plugin = "poll") =>
     Last.dataNorm = Resolve(TableByName(Last.table), StoredBy(Last.recv)).data
\* C20: what is dispatched names exactly the task / carries exactly the promise that was supplied, also
\* when the transport sends it after the sender has gone on with the next message
C20_DispatchedAsSupplied ==
  (Last.e = "send" /\ Last.handed /\ ~ Last.dead) =>
     /\ Last.bodyType = Last.kind
     /\ IF Last.kind = "notify" THEN Last.bodyPromiseId = Last.promiseId /\ ~ Last.bodyHasTask
        ELSE Last.bodyHasTask /\ Last.bodyTaskId = Last.taskId /\ Last.bodyTaskCounter = Last.taskCounter
Complete ==
  (l = Len(TraceLog) + 1) =>
     /\ \A tc \in TagCases : <<"route", tc.v>> \in seenVec
     /\ \A st \in SourceTables, ts \in TagSets : <<"route", st.name \o "/" \o ts.name>> \in seenVec
     /\ \A v \in SendVectors : <<"send", v.table, v.recv, v.kind>> \in seenVec
TraceAccepted ==
  LET d == TLCGet("stats").diameter IN
  IF d - 1 = Len(TraceLog) THEN PrintT(<<"KNOWN-FINDINGS-SEEN", TLCGet(42)>>)
  ELSE Print(<<"TRACE NOT CONSUMED", d - 1, Len(TraceLog)>>, FALSE)
Alias == [l |-> l, event |-> Last]
=============================================================================
