----------------------------- MODULE KernelGen -----------------------------
(***************************************************************************)
(* Behaviours of Kernel.tla -> schedules for `ksim -script` (spec -> code). *)
(* Run in simulation mode: every behaviour that has run to its end (no     *)
(* action enabled) is printed as the list of its steps.                    *)
(***************************************************************************)
EXTENDS MC_Kernel, Json
CONSTANTS Name, Setup
Emit == (~ ENABLED Next) => PrintT(<<"KERNELGEN", ToJson(hist)>>)
Header == PrintT(<<"KERNELHDR", ToJson([name |-> Name, setup |-> Setup, script |-> Script, delay |-> Delay,
                                        t0 |-> CHOOSE t \in Times : \A u \in Times : t <= u])>>)
ASSUME Header
=============================================================================
