----------------------------- MODULE KernelGen -----------------------------
(***************************************************************************)
(* Behaviours of Kernel.tla -> schedules for `ksim -script` (spec -> code). *)
(* Run in simulation mode: every behaviour that has run to its end (no     *)
(* action enabled) is printed as the list of its steps.                    *)
(***************************************************************************)
EXTENDS MC_Kernel, Json
CONSTANTS Name, Setup
Emit == (~ ENABLED Next) => PrintT(<<"KERNELGEN", ToJson(hist)>>)

(***************************************************************************)
(* Preemption-bounded schedules (exhaustive): the coroutine that is        *)
(* running goes on until it has answered; switching to another one while   *)
(* it still has something to do costs one preemption, and at most Bound    *)
(* preemptions are spent.  The clock may jump at any point.  Nearly every  *)
(* atomicity violation needs one or two preemptions at the right places;   *)
(* TLC enumerates ALL schedules within the bound, each one printed when    *)
(* nothing is left to do.                                                  *)
(***************************************************************************)
CONSTANT Bound
VARIABLES cur, pre, adv,    \* adv: the clock has just jumped (only a step that reads the clock may follow)
          must               \* the coroutine whose completion is waiting: it is resumed before anything else happens
                             \* (when a completion is delivered matters only through the clock, and the clock may jump first)
gvars == <<vars, cur, pre, adv, must>>
CurBusy == \E id \in DOMAIN co : co[id].own = cur /\ co[id].ph # "done"
By(o) == LET cost == IF cur # "" /\ o # cur /\ CurBusy THEN 1 ELSE 0 IN
         pre + cost <= Bound /\ pre' = pre + cost /\ cur' = o
GenInit == Init /\ cur = "" /\ pre = 0 /\ adv = FALSE /\ must = ""
GenNext ==
  \/ \E i \in DOMAIN Script : must = "" /\ Start(i) /\ By(Rid(i)) /\ adv' = FALSE /\ must' = ""
  \/ \E k \in Sweeps : must = "" /\ Sweep(k) /\ By(k \o ToString(nsweeps + 1)) /\ adv' = FALSE /\ must' = ""
  \/ \E t \in Times : ~ adv /\ Advance(t) /\ adv' = TRUE /\ UNCHANGED <<cur, pre, must>>
  \/ \E id \in DOMAIN co : must \in {"", id} /\ Resume(id) /\ By(co[id].own) /\ adv' = FALSE /\ must' = ""
  \/ \E id \in DOMAIN co : must = "" /\ ~ adv /\ (Commit(id) \/ Route(id)) /\ By(co[id].own) /\ adv' = FALSE /\ must' = id
  \/ \E id \in DOMAIN co : must = "" /\ ~ adv /\ co[id].sub = "sender" /\ (\E o \in [DOMAIN co[id].sends -> {"ok", "fail"}] : Send(id, o))
                              /\ By(co[id].own) /\ adv' = FALSE /\ must' = id
GenSpec == GenInit /\ [][GenNext]_gvars
EmitAll == (~ ENABLED GenNext) => PrintT(<<"KERNELGEN", ToJson(hist)>>)
Header == PrintT(<<"KERNELHDR", ToJson([name |-> Name, setup |-> Setup, script |-> Script, delay |-> Delay, taskBatch |-> IF Name = "starve" THEN 1 ELSE 100,
                                        t0 |-> CHOOSE t \in Times : \A u \in Times : t <= u])>>)
ASSUME Header
=============================================================================
