SPECIFICATION Spec
CONSTANTS
  Clients = {c1, c2, c3}
  Q = 1
  C = 1
  S = 1
  PoolCap = 1
  SB = 1
  CB = 1
  EmitAt = 0
  EnqueueLocked = TRUE
VIEW View
INVARIANTS
  C12_AtMostOneReply
  C12_ReplyCodes
  C12_ShuttingDownOnlyAfterShutdown
  C12_AcceptedAnsweredBeforeExit
  C12_NoRequestStranded
PROPERTIES
  C12_LoopReturnsAfterShutdown
  C12_EveryRequestAnswered
