SPECIFICATION Spec
CONSTANTS
  NB = 3
  Pool = 1
  ST = 1
  MaxReq = 2
  MaxT = 7
INVARIANTS
  TypeOK
  I_TakesTurns
  I_Room
PROPERTIES
  A_Bookkeeping
