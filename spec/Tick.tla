-------------------------------- MODULE Tick --------------------------------
(***************************************************************************)
(* How System.Tick (internal/kernel/system/system.go) admits coroutines:   *)
(* the scheduler takes at most Pool new coroutines per tick (gocoro: the   *)
(* `in` channel of that capacity is emptied by RunUntilBlocked at the end  *)
(* of every tick).  First the background coroutines - a background         *)
(* coroutine is due when SignalTimeout has passed since its last start and *)
(* its last instance has finished; they are considered in turn, starting   *)
(* one position further at every tick - then the requests taken off the    *)
(* api queue; a request that finds no room is refused with an explicit     *)
(* error.  The instant `last` moves only when the coroutine was admitted.  *)
(*                                                                         *)
(* C11: every background coroutine is started again and again for every    *)
(* pool size >= 1 and every signal timeout (the defects F11 and F11b were  *)
(* exactly this: with a small pool some sweeps were never started).        *)
(***************************************************************************)
EXTENDS Integers, Sequences, FiniteSets, TLC

CONSTANTS NB,        \* number of background coroutines
          Pool,      \* coroutines admitted per tick
          ST,        \* signal timeout
          MaxReq,    \* requests taken off the api queue per tick, at most
          MaxT       \* (model bound) the clock

B == 0 .. NB - 1

(***************************************************************************)
(* One tick as a function: bg[i] = [last, running], `at` the position      *)
(* considered first, t the instant, n requests.                            *)
(***************************************************************************)
DueAt(b, t, st) == t - b.last >= st /\ ~ b.running
Due(b, t) == DueAt(b, t, ST)
Order(at) == [k \in 1 .. NB |-> (at + k - 1) % NB]
\* walk over the background coroutines in order; r = [bg, room, adm]
RECURSIVE Walk(_, _, _, _)
Walk(r, ord, k, t) ==
  IF k > Len(ord) THEN r
  ELSE LET i == ord[k] IN
       IF Due(r.bg[i], t) /\ r.room > 0
       THEN Walk([bg |-> [r.bg EXCEPT ![i] = [last |-> t, running |-> TRUE]], room |-> r.room - 1, adm |-> r.adm \cup {i}], ord, k + 1, t)
       ELSE Walk(r, ord, k + 1, t)
Admit(bg, at, t, n) ==
  LET r == Walk([bg |-> bg, room |-> Pool, adm |-> {}], Order(at), 1, t)
      taken == IF n < r.room THEN n ELSE r.room IN
  [bg |-> r.bg, adm |-> r.adm, at |-> (at + 1) % NB, admitted |-> taken, refused |-> n - taken]

(***************************************************************************)
(* The machine: ticks at non-decreasing instants; between ticks running    *)
(* instances may finish.                                                   *)
(***************************************************************************)
VARIABLES bg, at, now, wait, out
vars == <<bg, at, now, wait, out>>
Init ==
  /\ bg = [i \in B |-> [last |-> 0, running |-> FALSE]] /\ at = 0 /\ now = 1
  /\ wait = [i \in B |-> 0]          \* consecutive ticks at which i was due and not admitted
  /\ out = [admitted |-> 0, refused |-> 0, n |-> 0, adm |-> {}]
ATick(dt, n) ==
  /\ now + dt <= MaxT /\ now' = now + dt
  /\ LET r == Admit(bg, at, now', n) IN
     /\ bg' = r.bg /\ at' = r.at
     /\ wait' = [i \in B |-> IF i \in r.adm THEN 0 ELSE IF Due(bg[i], now') THEN wait[i] + 1 ELSE wait[i]]
     /\ out' = [admitted |-> r.admitted, refused |-> r.refused, n |-> n, adm |-> r.adm]
AFinish(i) == bg[i].running /\ bg' = [bg EXCEPT ![i].running = FALSE] /\ UNCHANGED <<at, now, wait, out>>
Next == (\E dt \in 0 .. 2, n \in 0 .. MaxReq : ATick(dt, n)) \/ \E i \in B : AFinish(i)
Spec == Init /\ [][Next]_vars

TypeOK == at \in B /\ \A i \in B : bg[i].last \in 0 .. MaxT
\* a background coroutine that is due waits for fewer ticks than there are background coroutines
I_TakesTurns == Pool >= 1 => \A i \in B : wait[i] <= NB - 1
\* never more admitted in one tick than the pool takes; a request is refused only when the room is used up
I_Room == /\ Cardinality(out.adm) + out.admitted <= Pool
          /\ out.refused > 0 => Cardinality(out.adm) + out.admitted = Pool
          /\ out.admitted + out.refused = out.n
\* the instant of the last start moves exactly when an instance is started, and only for a coroutine that was due
A_Bookkeeping == [][\A i \in B : /\ bg'[i].last # bg[i].last => (bg'[i].running /\ bg'[i].last = now' /\ ~ bg[i].running)
                                /\ (~ bg[i].running /\ bg'[i].running) => bg'[i].last = now']_vars
=============================================================================
