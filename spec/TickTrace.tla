----------------------------- MODULE TickTrace -----------------------------
(***************************************************************************)
(* Judges the "ticked" events of a ksim trace (what System.Tick did about  *)
(* the registered background coroutines: their bookkeeping before and      *)
(* after the tick, seen through an accessor overlaid at build time)        *)
(* against Tick.tla.  Which coroutine is considered first is the           *)
(* implementation's business; what is demanded is what C11 needs:          *)
(*  - an instance is started only when the coroutine is due, and `last`    *)
(*    moves exactly then (a coroutine that found no room stays due);       *)
(*  - a coroutine that is due is not passed over for more ticks than       *)
(*    there are background coroutines (Tick.tla: NB - 1 under the          *)
(*    rotation of the code).                                               *)
(***************************************************************************)
EXTENDS Tick, Json
CONSTANT TraceFile
CONSTANT Known
TraceLog == ndJsonDeserialize(TraceFile)

VARIABLES l, prev, waits, bad
tvars == <<vars, l, prev, waits, bad>>
Ev == TraceLog[l]
Consume == l <= Len(TraceLog) /\ l' = l + 1 /\ UNCHANGED vars     \* (the variables of Tick.tla are not used here)

TInit == Init /\ l = 1 /\ prev = <<>> /\ waits = <<>> /\ bad = "" /\ TLCSet(42, {})

Names(q) == [i \in DOMAIN q |-> q[i].name]
EForget ==
  /\ Consume /\ Ev.e \in {"reset", "crash"}
  /\ prev' = <<>> /\ waits' = <<>> /\ bad' = ""
EOther ==
  /\ Consume /\ Ev.e \notin {"reset", "crash", "ticked"}
  /\ UNCHANGED <<prev, waits>> /\ bad' = ""
ETicked ==
  /\ Consume /\ Ev.e = "ticked"
  /\ LET pre == Ev.pre  post == Ev.post  t == Ev.t  n == Len(Ev.pre)
         same == Names(prev) = Names(pre)
         w0 == IF same /\ DOMAIN waits = DOMAIN pre THEN waits ELSE [i \in DOMAIN pre |-> 0]
         Started(i) == post[i].inst # pre[i].inst
         IsDue(i) == DueAt(pre[i], t, Ev.st)
     IN
     IF Names(post) # Names(pre) THEN prev' = <<>> /\ waits' = <<>> /\ bad' = ""
     ELSE /\ prev' = post
          /\ waits' = [i \in DOMAIN pre |-> IF Started(i) THEN 0 ELSE IF IsDue(i) THEN w0[i] + 1 ELSE w0[i]]
          /\ bad' =
               IF same /\ \E i \in DOMAIN pre : pre[i].last # prev[i].last \/ pre[i].inst # prev[i].inst \/ (pre[i].running /\ ~ prev[i].running)
               THEN "the bookkeeping of a background coroutine changed between two ticks"
               ELSE IF \E i \in DOMAIN pre : Started(i) /\ ~ IsDue(i)
               THEN "a background coroutine was started although it was not due (too early, or its last instance still running)"
               ELSE IF \E i \in DOMAIN pre : Started(i) /\ post[i].last # t
               THEN "a background coroutine was started without its instant of last start being set"
               ELSE IF \E i \in DOMAIN pre : ~ Started(i) /\ (post[i].last # pre[i].last \/ (post[i].running /\ ~ pre[i].running))
               THEN "a background coroutine that was not started is marked as started (it will not be due when it should)"
               ELSE IF Ev.pool >= 1 /\ \E i \in DOMAIN pre : ~ Started(i) /\ IsDue(i) /\ w0[i] + 1 > n
               THEN "a background coroutine that is due is passed over tick after tick"
               ELSE ""
TNext == EForget \/ EOther \/ ETicked
TSpec == TInit /\ [][TNext]_tvars

C11_BackgroundBookkeeping == bad \notin {"the bookkeeping of a background coroutine changed between two ticks",
                                         "a background coroutine was started although it was not due (too early, or its last instance still running)",
                                         "a background coroutine was started without its instant of last start being set",
                                         "a background coroutine that was not started is marked as started (it will not be due when it should)"}
C11_BackgroundTakesTurns == bad # "a background coroutine that is due is passed over tick after tick"

TraceAccepted ==
  LET d == TLCGet("stats").diameter IN
  IF d - 1 = Len(TraceLog) THEN PrintT(<<"KNOWN-FINDINGS-SEEN", TLCGet(42)>>)
  ELSE Print(<<"TRACE NOT CONSUMED", d - 1, Len(TraceLog)>>, FALSE)
Last == IF l > 1 THEN TraceLog[l - 1] ELSE [e |-> "none"]
Alias == [l |-> l, bad |-> bad, waits |-> waits,
          event |-> IF Last.e = "ticked" THEN [e |-> "ticked", t |-> Last.t, pool |-> Last.pool, st |-> Last.st, pre |-> Last.pre, post |-> Last.post]
                    ELSE [e |-> Last.e, t |-> 0, pool |-> 0, st |-> 0, pre |-> <<>>, post |-> <<>>]]
=============================================================================
