----------------------------- MODULE DurableGen -----------------------------
(***************************************************************************)
(* Behaviours of Durable.tla -> scenarios for procx (spec -> code).        *)
(* Run in simulation mode; every completed behaviour is printed as one     *)
(* JSON document: ops (the model steps, with the looks and the closing     *)
(* crash/restart inserted) and steps (what procx is to do; every step      *)
(* carries the index i of its model step and its role).                    *)
(***************************************************************************)
EXTENDS Durable, Json

Far == "@NOW+3600000@"
Http(i, role, name, method, path, body) ==
  [do |-> "http", i |-> i, role |-> role, name |-> name, method |-> method, path |-> path, headers |-> ("x-verif" :> "1"), body |-> body]
CreateBody(id, timeout, r) ==
  "{\"id\":\"" \o id \o "\",\"timeout\":" \o timeout \o ",\"param\":{\"data\":\"cA==\"},\"tags\":{"
  \o (IF r THEN "\"resonate:invoke\":\"poll://default/w\"" ELSE "\"k\":\"v\"") \o "}}"
StateName == [resolved |-> "RESOLVED", rejected |-> "REJECTED", canceled |-> "REJECTED_CANCELED"]
CompleteBody(st) == "{\"state\":\"" \o StateName[st] \o "\",\"value\":{\"data\":\"dg==\"}}"

\* a look follows every step after which the stored state is worth looking at
NeedsLook(o) == o.op \in {"start", "wait", "kill", "term", "burst", "startkill"}
\* (sh: the short-lived promise exists; sec: the every-second schedule exists - what a wait has to wait for)
RECURSIVE Expand(_, _, _, _)
Expand(h, isUp, sh, sec) ==
  IF h = <<>> THEN
    (IF isUp THEN << [op |-> "term"], [op |-> "look", up |-> FALSE] >> ELSE <<>>)
    \o << [op |-> "startkill", ms |-> 15], [op |-> "start"], [op |-> "wait", up |-> TRUE, sh |-> sh, sec |-> sec], [op |-> "look", up |-> TRUE] >>
  ELSE LET o == Head(h)
           nowUp == IF o.op \in {"kill", "term", "burst"} THEN FALSE ELSE IF o.op = "start" THEN TRUE ELSE isUp
           sh2 == sh \/ o.op = "createshort"
           sec2 == IF o.op = "createschedule" THEN o.kind = "secondly" ELSE IF o.op = "deleteschedule" THEN FALSE ELSE sec
           o2 == IF o.op = "wait" THEN [op |-> "wait", up |-> isUp, sh |-> sh, sec |-> sec] ELSE o
       IN <<o2>> \o (IF NeedsLook(o) THEN << [op |-> "look", up |-> nowUp] >> ELSE <<>>) \o Expand(Tail(h), nowUp, sh2, sec2)

Big == "@LONG@@LONG@@LONG@@LONG@@LONG@@LONG@@LONG@@LONG@@LONG@@LONG@"    \* 100 kB (of base64)
BigBody(id) == "{\"id\":\"" \o id \o "\",\"timeout\":" \o Far \o ",\"param\":{\"data\":\"" \o Big \o "\"},\"tags\":{\"resonate:invoke\":\"poll://default/w\"}}"
RECURSIVE Fill(_, _, _)
Fill(i, k, big) == IF k = 0 THEN <<>> ELSE Fill(i, k - 1, big) \o << Http(i, "req", "f" \o ToString(k), "POST", "/promises",
                                                                        IF big THEN BigBody("f" \o ToString(k)) ELSE CreateBody("f" \o ToString(k), Far, TRUE)) >>

\* ops[i] as procx steps; pre[p] = TRUE when the burst request for p is a creation
StepsOf(i, o) ==
  CASE o.op = "create" -> << Http(i, "main", "create", "POST", "/promises", CreateBody(o.p, Far, o.routed)) >>
    [] o.op = "subscribe" -> << Http(i, "main", "subscribe", "POST", "/subscriptions",
                                     "{\"id\":\"sub\",\"promiseId\":\"" \o o.p \o "\",\"timeout\":" \o Far \o ",\"recv\":\"poll://default/w\"}") >>
    [] o.op = "complete" -> << Http(i, "main", "complete", "PATCH", "/promises/" \o o.p, CompleteBody(o.state)) >>
    [] o.op = "claim" -> << Http(i, "main", "claim", "POST", "/tasks/claim",
                                 "{\"id\":\"__invoke:" \o o.p \o "\",\"counter\":1,\"processId\":\"w\",\"ttl\":3600000}") >>
    [] o.op = "completetask" -> << Http(i, "main", "completetask", "POST", "/tasks/complete", "{\"id\":\"__invoke:" \o o.p \o "\",\"counter\":1}") >>
    [] o.op = "createschedule" -> << Http(i, "main", "createschedule", "POST", "/schedules",
                                          "{\"id\":\"s\",\"cron\":\"" \o (IF o.kind = "yearly" THEN "0 0 1 1 *" ELSE "* * * * * *")
                                          \o "\",\"promiseId\":\"s.{{.timestamp}}\",\"promiseTimeout\":1000}") >>
    [] o.op = "deleteschedule" -> << Http(i, "main", "deleteschedule", "DELETE", "/schedules/s", "") >>
    [] o.op = "acquire" -> << Http(i, "main", "acquire", "POST", "/locks/acquire", "{\"resourceId\":\"l\",\"executionId\":\"e\",\"processId\":\"w\",\"ttl\":3600000}") >>
    [] o.op = "release" -> << Http(i, "main", "release", "POST", "/locks/release", "{\"resourceId\":\"l\",\"executionId\":\"e\"}") >>
    [] o.op = "createshort" -> << Http(i, "main", "createshort", "POST", "/promises", "{\"id\":\"t\",\"timeout\":@NOW+400@}") >>
    \* long enough for the short promise to run out; then the harness looks until the background work
    \* the model expects has been done (at most 12 s: a loaded machine is slow, a dead sweep never gets there)
    [] o.op = "wait" -> << [do |-> "sleep", i |-> i, role |-> "main", ms |-> 600] >>
                        \o (IF o.up /\ o.sh THEN << [do |-> "rows", i |-> i, role |-> "aux", ms |-> 12000, until |-> [table |-> "promises", id |-> "t", state |-> 16]] >> ELSE <<>>)
                        \o (IF o.up /\ o.sec THEN << [do |-> "rows", i |-> i, role |-> "aux", ms |-> 12000, until |-> [table |-> "promises", sched |-> "s"]] >> ELSE <<>>)
    [] o.op = "kill" -> << [do |-> "kill", i |-> i, role |-> "main"] >>
    [] o.op = "term" -> << [do |-> "term", i |-> i, role |-> "main"] >>
    [] o.op = "start" -> << [do |-> "start", i |-> i, role |-> "main"] >>
    [] o.op = "startkill" -> << [do |-> "startkill", i |-> i, role |-> "main", ms |-> o.ms] >>
    [] o.op = "burst" ->
         << [do |-> "burst", i |-> i, role |-> "main", ms |-> o.ms,
             reqs |-> [k \in 1..Len(o.reqs) |->
                         IF o.reqs[k].create
                         THEN Http(i, "req", o.reqs[k].p, "POST", "/promises", CreateBody(o.reqs[k].p, Far, TRUE))
                         ELSE Http(i, "req", o.reqs[k].p, "PATCH", "/promises/" \o o.reqs[k].p, CompleteBody("resolved"))]
                      \o Fill(i, o.filler, o.grow > 0), grow |-> o.grow * 1000000] >>
    [] o.op = "look" ->
         << [do |-> "rows", i |-> i, role |-> "rows"] >>
         \o (IF o.up THEN [k \in 1..Len(SetToSeq(Promises)) |->
                             Http(i, "get", SetToSeq(Promises)[k], "GET", "/promises/" \o SetToSeq(Promises)[k], "")] ELSE <<>>)
    [] OTHER -> <<>>

RECURSIVE Translate(_, _)
Translate(ops, i) == IF i > Len(ops) THEN <<>> ELSE StepsOf(i, ops[i]) \o Translate(ops, i + 1)

Scenario == LET ops == Expand(hist, ~ Cold, FALSE, FALSE) IN [cold |-> Cold, ops |-> ops, steps |-> Translate(ops, 1)]
Emit == (n = MaxSteps) => PrintT(<<"DURGEN", ToJson(Scenario)>>)

\* generator bias: no kill straight after a start (startkill is that case), no two crashes during one recovery
Filter(h) ==
  LET k == Len(h) IN
  \/ k < 2
  \/ /\ ~ (h[k].op \in {"kill", "term"} /\ h[k - 1].op = "start")
     /\ ~ (h[k].op = "startkill" /\ h[k - 1].op = "startkill")
     /\ ~ (h[k].op = "wait" /\ h[k - 1].op = "wait")
Pick(seq) == seq[(n % Len(seq)) + 1]
GenNext ==
  /\ n < MaxSteps
  /\ \/ \E p \in Promises, r \in BOOLEAN : Definite(p) /\ CreateP(p, r)
     \/ \E p \in Promises : Definite(p) /\ (Subscribe(p) \/ Claim(p) \/ CompleteT(p))
     \/ \E p \in Promises, st \in Completed : Definite(p) /\ CompleteP(p, st)
     \/ \E k \in {"yearly", "secondly"} : CreateS(k)
     \/ DeleteS \/ Acquire \/ Release \/ CreateShort
     \/ (short = "pending" \/ (sched = "secondly" /\ ~ fired)) /\ Wait
     \/ Kill \/ Term \/ Start \/ StartKill(Pick(IF Cold /\ n < 3 THEN <<12, 25, 40, 8, 18, 32>> ELSE <<0, 15, 60>>))
     \/ LET B == {p \in Promises : ps[p] \in {"none", "pending"}} IN Burst(B, Pick(<<0, 2, 6, 1>>), IF n % 2 = 0 THEN 24 ELSE 0, 0) \/ Burst(B, 0, 40, 1)
  /\ Filter(hist')
GenSpec == Init /\ [][GenNext]_vars

\* design-level: the process steps never touch the durable state
A_ProcessStepsKeepData ==
  [][up' # up => UNCHANGED <<routed, subs, notified, ts, sched, fired, lock, short, aged>> /\ \A p \in Promises : Definite(p) => ps'[p] = ps[p]]_vars
=============================================================================
