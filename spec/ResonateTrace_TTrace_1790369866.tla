---- MODULE ResonateTrace_TTrace_1790369866 ----
EXTENDS Sequences, TLCExt, Toolbox, Naturals, TLC, ResonateTrace

_expression ==
    LET ResonateTrace_TEExpression == INSTANCE ResonateTrace_TEExpression
    IN ResonateTrace_TEExpression!expression
----

_trace ==
    LET ResonateTrace_TETrace == INSTANCE ResonateTrace_TETrace
    IN ResonateTrace_TETrace!trace
----

_inv ==
    ~(
        TLCGet("level") = Len(_TETrace)
        /\
        reqs = ([r1 |-> [l |-> 2, trav |-> "t1", t |-> 11270, kind |-> "SearchPromises", args |-> [cursor |-> <<>>, tags |-> [a |-> "b"], limit |-> 5, q |-> "*.*", qc |-> <<"*", ".", "*">>, states |-> <<"REJECTED", "REJECTED_TIMEDOUT", "REJECTED_CANCELED">>], page |-> 1]])
        /\
        lapsed = ({})
        /\
        snaps = ([r1 |-> {[S |-> [tasks |-> <<>>, promises |-> <<>>, schedules |-> <<>>, porder |-> <<>>, sorder |-> <<>>, callbacks |-> <<>>, locks |-> <<>>], dt |-> 11277]}])
        /\
        faulted = ({"r1"})
        /\
        cfg = ([taskEnqueueDelay |-> 4, coroutineMaxSize |-> 100, submissionBatchSize |-> 5, completionBatchSize |-> 5, promiseBatchSize |-> 3, scheduleBatchSize |-> 1, taskBatchSize |-> 3, signalTimeout |-> 1, apiSize |-> 100, background |-> <<"TimeoutPromises", "SchedulePromises", "TimeoutLocks", "EnqueueTasks", "TimeoutTasks">>])
        /\
        trav = (<<>>)
        /\
        rerr = ({})
        /\
        chk = ([tables |-> {}, who |-> "", owners |-> {}, resp |-> "", why |-> "", drift |-> "", dup |-> {}, lint |-> {}, dupRoot |-> FALSE, travDup |-> FALSE, travMissing |-> {}, cursor |-> TRUE])
        /\
        idc = (<<>>)
        /\
        cyc = (<<>>)
        /\
        l = (8)
        /\
        seen = (<<>>)
        /\
        pdb = ([tasks |-> <<>>, promises |-> <<>>, schedules |-> <<>>, porder |-> <<>>, sorder |-> <<>>, callbacks |-> <<>>, locks |-> <<>>])
        /\
        sends = (<<>>)
        /\
        path = (<<[tasks |-> <<>>, promises |-> <<>>, schedules |-> <<>>, porder |-> <<>>, sorder |-> <<>>, callbacks |-> <<>>, locks |-> <<>>]>>)
        /\
        now = (11278)
        /\
        claims = ({})
        /\
        cand = (<<>>)
        /\
        exp = ([tasks |-> <<>>, promises |-> <<>>, schedules |-> <<>>, porder |-> <<>>, sorder |-> <<>>, callbacks |-> <<>>, locks |-> <<>>])
        /\
        db = ([tasks |-> <<>>, promises |-> <<>>, schedules |-> <<>>, porder |-> <<>>, sorder |-> <<>>, callbacks |-> <<>>, locks |-> <<>>])
        /\
        q0 = ([db |-> [tasks |-> <<>>, promises |-> <<>>, schedules |-> <<>>, porder |-> <<>>, sorder |-> <<>>, callbacks |-> <<>>, locks |-> <<>>], t |-> -1])
    )
----

_init ==
    /\ cyc = _TETrace[1].cyc
    /\ reqs = _TETrace[1].reqs
    /\ l = _TETrace[1].l
    /\ db = _TETrace[1].db
    /\ rerr = _TETrace[1].rerr
    /\ lapsed = _TETrace[1].lapsed
    /\ cfg = _TETrace[1].cfg
    /\ cand = _TETrace[1].cand
    /\ chk = _TETrace[1].chk
    /\ trav = _TETrace[1].trav
    /\ now = _TETrace[1].now
    /\ seen = _TETrace[1].seen
    /\ pdb = _TETrace[1].pdb
    /\ exp = _TETrace[1].exp
    /\ path = _TETrace[1].path
    /\ faulted = _TETrace[1].faulted
    /\ q0 = _TETrace[1].q0
    /\ snaps = _TETrace[1].snaps
    /\ idc = _TETrace[1].idc
    /\ sends = _TETrace[1].sends
    /\ claims = _TETrace[1].claims
----

_next ==
    /\ \E i,j \in DOMAIN _TETrace:
        /\ \/ /\ j = i + 1
              /\ i = TLCGet("level")
        /\ cyc  = _TETrace[i].cyc
        /\ cyc' = _TETrace[j].cyc
        /\ reqs  = _TETrace[i].reqs
        /\ reqs' = _TETrace[j].reqs
        /\ l  = _TETrace[i].l
        /\ l' = _TETrace[j].l
        /\ db  = _TETrace[i].db
        /\ db' = _TETrace[j].db
        /\ rerr  = _TETrace[i].rerr
        /\ rerr' = _TETrace[j].rerr
        /\ lapsed  = _TETrace[i].lapsed
        /\ lapsed' = _TETrace[j].lapsed
        /\ cfg  = _TETrace[i].cfg
        /\ cfg' = _TETrace[j].cfg
        /\ cand  = _TETrace[i].cand
        /\ cand' = _TETrace[j].cand
        /\ chk  = _TETrace[i].chk
        /\ chk' = _TETrace[j].chk
        /\ trav  = _TETrace[i].trav
        /\ trav' = _TETrace[j].trav
        /\ now  = _TETrace[i].now
        /\ now' = _TETrace[j].now
        /\ seen  = _TETrace[i].seen
        /\ seen' = _TETrace[j].seen
        /\ pdb  = _TETrace[i].pdb
        /\ pdb' = _TETrace[j].pdb
        /\ exp  = _TETrace[i].exp
        /\ exp' = _TETrace[j].exp
        /\ path  = _TETrace[i].path
        /\ path' = _TETrace[j].path
        /\ faulted  = _TETrace[i].faulted
        /\ faulted' = _TETrace[j].faulted
        /\ q0  = _TETrace[i].q0
        /\ q0' = _TETrace[j].q0
        /\ snaps  = _TETrace[i].snaps
        /\ snaps' = _TETrace[j].snaps
        /\ idc  = _TETrace[i].idc
        /\ idc' = _TETrace[j].idc
        /\ sends  = _TETrace[i].sends
        /\ sends' = _TETrace[j].sends
        /\ claims  = _TETrace[i].claims
        /\ claims' = _TETrace[j].claims

\* Uncomment the ASSUME below to write the states of the error trace
\* to the given file in Json format. Note that you can pass any tuple
\* to `JsonSerialize`. For example, a sub-sequence of _TETrace.
    \* ASSUME
    \*     LET J == INSTANCE Json
    \*         IN J!JsonSerialize("ResonateTrace_TTrace_1790369866.json", _TETrace)

=============================================================================

 Note that you can extract this module `ResonateTrace_TEExpression`
  to a dedicated file to reuse `expression` (the module in the 
  dedicated `ResonateTrace_TEExpression.tla` file takes precedence 
  over the module `ResonateTrace_TEExpression` below).

---- MODULE ResonateTrace_TEExpression ----
EXTENDS Sequences, TLCExt, Toolbox, Naturals, TLC, ResonateTrace

expression == 
    [
        \* To hide variables of the `ResonateTrace` spec from the error trace,
        \* remove the variables below.  The trace will be written in the order
        \* of the fields of this record.
        cyc |-> cyc
        ,reqs |-> reqs
        ,l |-> l
        ,db |-> db
        ,rerr |-> rerr
        ,lapsed |-> lapsed
        ,cfg |-> cfg
        ,cand |-> cand
        ,chk |-> chk
        ,trav |-> trav
        ,now |-> now
        ,seen |-> seen
        ,pdb |-> pdb
        ,exp |-> exp
        ,path |-> path
        ,faulted |-> faulted
        ,q0 |-> q0
        ,snaps |-> snaps
        ,idc |-> idc
        ,sends |-> sends
        ,claims |-> claims
        
        \* Put additional constant-, state-, and action-level expressions here:
        \* ,_stateNumber |-> _TEPosition
        \* ,_cycUnchanged |-> cyc = cyc'
        
        \* Format the `cyc` variable as Json value.
        \* ,_cycJson |->
        \*     LET J == INSTANCE Json
        \*     IN J!ToJson(cyc)
        
        \* Lastly, you may build expressions over arbitrary sets of states by
        \* leveraging the _TETrace operator.  For example, this is how to
        \* count the number of times a spec variable changed up to the current
        \* state in the trace.
        \* ,_cycModCount |->
        \*     LET F[s \in DOMAIN _TETrace] ==
        \*         IF s = 1 THEN 0
        \*         ELSE IF _TETrace[s].cyc # _TETrace[s-1].cyc
        \*             THEN 1 + F[s-1] ELSE F[s-1]
        \*     IN F[_TEPosition - 1]
    ]

=============================================================================



Parsing and semantic processing can take forever if the trace below is long.
 In this case, it is advised to uncomment the module below to deserialize the
 trace from a generated binary file.

\*
\*---- MODULE ResonateTrace_TETrace ----
\*EXTENDS IOUtils, TLC, ResonateTrace
\*
\*trace == IODeserialize("ResonateTrace_TTrace_1790369866.bin", TRUE)
\*
\*=============================================================================
\*

---- MODULE ResonateTrace_TETrace ----
EXTENDS TLC, ResonateTrace

trace == 
    <<
    ([reqs |-> <<>>,lapsed |-> {},snaps |-> <<>>,faulted |-> {},cfg |-> <<>>,trav |-> <<>>,rerr |-> {},chk |-> [tables |-> {}, who |-> "", owners |-> {}, resp |-> "", why |-> "", drift |-> "", dup |-> {}, lint |-> {}, dupRoot |-> FALSE, travDup |-> FALSE, travMissing |-> {}, cursor |-> TRUE],idc |-> <<>>,cyc |-> <<>>,l |-> 1,seen |-> <<>>,pdb |-> [tasks |-> <<>>, promises |-> <<>>, schedules |-> <<>>, porder |-> <<>>, sorder |-> <<>>, callbacks |-> <<>>, locks |-> <<>>],sends |-> <<>>,path |-> <<[tasks |-> <<>>, promises |-> <<>>, schedules |-> <<>>, porder |-> <<>>, sorder |-> <<>>, callbacks |-> <<>>, locks |-> <<>>]>>,now |-> 0,claims |-> {},cand |-> <<>>,exp |-> [tasks |-> <<>>, promises |-> <<>>, schedules |-> <<>>, porder |-> <<>>, sorder |-> <<>>, callbacks |-> <<>>, locks |-> <<>>],db |-> [tasks |-> <<>>, promises |-> <<>>, schedules |-> <<>>, porder |-> <<>>, sorder |-> <<>>, callbacks |-> <<>>, locks |-> <<>>],q0 |-> [db |-> [tasks |-> <<>>, promises |-> <<>>, schedules |-> <<>>, porder |-> <<>>, sorder |-> <<>>, callbacks |-> <<>>, locks |-> <<>>], t |-> -1]]),
    ([reqs |-> <<>>,lapsed |-> {},snaps |-> <<>>,faulted |-> {},cfg |-> [taskEnqueueDelay |-> 4, coroutineMaxSize |-> 100, submissionBatchSize |-> 5, completionBatchSize |-> 5, promiseBatchSize |-> 3, scheduleBatchSize |-> 1, taskBatchSize |-> 3, signalTimeout |-> 1, apiSize |-> 100, background |-> <<"TimeoutPromises", "SchedulePromises", "TimeoutLocks", "EnqueueTasks", "TimeoutTasks">>],trav |-> <<>>,rerr |-> {},chk |-> [tables |-> {}, who |-> "", owners |-> {}, resp |-> "", why |-> "", drift |-> "", dup |-> {}, lint |-> {}, dupRoot |-> FALSE, travDup |-> FALSE, travMissing |-> {}, cursor |-> TRUE],idc |-> <<>>,cyc |-> <<>>,l |-> 2,seen |-> <<>>,pdb |-> [tasks |-> <<>>, promises |-> <<>>, schedules |-> <<>>, porder |-> <<>>, sorder |-> <<>>, callbacks |-> <<>>, locks |-> <<>>],sends |-> <<>>,path |-> <<[tasks |-> <<>>, promises |-> <<>>, schedules |-> <<>>, porder |-> <<>>, sorder |-> <<>>, callbacks |-> <<>>, locks |-> <<>>]>>,now |-> 11270,claims |-> {},cand |-> <<>>,exp |-> [tasks |-> <<>>, promises |-> <<>>, schedules |-> <<>>, porder |-> <<>>, sorder |-> <<>>, callbacks |-> <<>>, locks |-> <<>>],db |-> [tasks |-> <<>>, promises |-> <<>>, schedules |-> <<>>, porder |-> <<>>, sorder |-> <<>>, callbacks |-> <<>>, locks |-> <<>>],q0 |-> [db |-> [tasks |-> <<>>, promises |-> <<>>, schedules |-> <<>>, porder |-> <<>>, sorder |-> <<>>, callbacks |-> <<>>, locks |-> <<>>], t |-> -1]]),
    ([reqs |-> [r1 |-> [l |-> 2, trav |-> "t1", t |-> 11270, kind |-> "SearchPromises", args |-> [cursor |-> <<>>, tags |-> [a |-> "b"], limit |-> 5, q |-> "*.*", qc |-> <<"*", ".", "*">>, states |-> <<"REJECTED", "REJECTED_TIMEDOUT", "REJECTED_CANCELED">>], page |-> 1]],lapsed |-> {},snaps |-> <<>>,faulted |-> {},cfg |-> [taskEnqueueDelay |-> 4, coroutineMaxSize |-> 100, submissionBatchSize |-> 5, completionBatchSize |-> 5, promiseBatchSize |-> 3, scheduleBatchSize |-> 1, taskBatchSize |-> 3, signalTimeout |-> 1, apiSize |-> 100, background |-> <<"TimeoutPromises", "SchedulePromises", "TimeoutLocks", "EnqueueTasks", "TimeoutTasks">>],trav |-> <<>>,rerr |-> {},chk |-> [tables |-> {}, who |-> "", owners |-> {}, resp |-> "", why |-> "", drift |-> "", dup |-> {}, lint |-> {}, dupRoot |-> FALSE, travDup |-> FALSE, travMissing |-> {}, cursor |-> TRUE],idc |-> <<>>,cyc |-> <<>>,l |-> 3,seen |-> <<>>,pdb |-> [tasks |-> <<>>, promises |-> <<>>, schedules |-> <<>>, porder |-> <<>>, sorder |-> <<>>, callbacks |-> <<>>, locks |-> <<>>],sends |-> <<>>,path |-> <<[tasks |-> <<>>, promises |-> <<>>, schedules |-> <<>>, porder |-> <<>>, sorder |-> <<>>, callbacks |-> <<>>, locks |-> <<>>]>>,now |-> 11270,claims |-> {},cand |-> <<>>,exp |-> [tasks |-> <<>>, promises |-> <<>>, schedules |-> <<>>, porder |-> <<>>, sorder |-> <<>>, callbacks |-> <<>>, locks |-> <<>>],db |-> [tasks |-> <<>>, promises |-> <<>>, schedules |-> <<>>, porder |-> <<>>, sorder |-> <<>>, callbacks |-> <<>>, locks |-> <<>>],q0 |-> [db |-> [tasks |-> <<>>, promises |-> <<>>, schedules |-> <<>>, porder |-> <<>>, sorder |-> <<>>, callbacks |-> <<>>, locks |-> <<>>], t |-> -1]]),
    ([reqs |-> [r1 |-> [l |-> 2, trav |-> "t1", t |-> 11270, kind |-> "SearchPromises", args |-> [cursor |-> <<>>, tags |-> [a |-> "b"], limit |-> 5, q |-> "*.*", qc |-> <<"*", ".", "*">>, states |-> <<"REJECTED", "REJECTED_TIMEDOUT", "REJECTED_CANCELED">>], page |-> 1]],lapsed |-> {},snaps |-> <<>>,faulted |-> {},cfg |-> [taskEnqueueDelay |-> 4, coroutineMaxSize |-> 100, submissionBatchSize |-> 5, completionBatchSize |-> 5, promiseBatchSize |-> 3, scheduleBatchSize |-> 1, taskBatchSize |-> 3, signalTimeout |-> 1, apiSize |-> 100, background |-> <<"TimeoutPromises", "SchedulePromises", "TimeoutLocks", "EnqueueTasks", "TimeoutTasks">>],trav |-> <<>>,rerr |-> {},chk |-> [tables |-> {}, who |-> "", owners |-> {}, resp |-> "", why |-> "", drift |-> "", dup |-> {}, lint |-> {}, dupRoot |-> FALSE, travDup |-> FALSE, travMissing |-> {}, cursor |-> TRUE],idc |-> <<>>,cyc |-> <<>>,l |-> 4,seen |-> <<>>,pdb |-> [tasks |-> <<>>, promises |-> <<>>, schedules |-> <<>>, porder |-> <<>>, sorder |-> <<>>, callbacks |-> <<>>, locks |-> <<>>],sends |-> <<>>,path |-> <<[tasks |-> <<>>, promises |-> <<>>, schedules |-> <<>>, porder |-> <<>>, sorder |-> <<>>, callbacks |-> <<>>, locks |-> <<>>]>>,now |-> 11277,claims |-> {},cand |-> <<>>,exp |-> [tasks |-> <<>>, promises |-> <<>>, schedules |-> <<>>, porder |-> <<>>, sorder |-> <<>>, callbacks |-> <<>>, locks |-> <<>>],db |-> [tasks |-> <<>>, promises |-> <<>>, schedules |-> <<>>, porder |-> <<>>, sorder |-> <<>>, callbacks |-> <<>>, locks |-> <<>>],q0 |-> [db |-> [tasks |-> <<>>, promises |-> <<>>, schedules |-> <<>>, porder |-> <<>>, sorder |-> <<>>, callbacks |-> <<>>, locks |-> <<>>], t |-> -1]]),
    ([reqs |-> [r1 |-> [l |-> 2, trav |-> "t1", t |-> 11270, kind |-> "SearchPromises", args |-> [cursor |-> <<>>, tags |-> [a |-> "b"], limit |-> 5, q |-> "*.*", qc |-> <<"*", ".", "*">>, states |-> <<"REJECTED", "REJECTED_TIMEDOUT", "REJECTED_CANCELED">>], page |-> 1]],lapsed |-> {},snaps |-> <<>>,faulted |-> {},cfg |-> [taskEnqueueDelay |-> 4, coroutineMaxSize |-> 100, submissionBatchSize |-> 5, completionBatchSize |-> 5, promiseBatchSize |-> 3, scheduleBatchSize |-> 1, taskBatchSize |-> 3, signalTimeout |-> 1, apiSize |-> 100, background |-> <<"TimeoutPromises", "SchedulePromises", "TimeoutLocks", "EnqueueTasks", "TimeoutTasks">>],trav |-> <<>>,rerr |-> {},chk |-> [tables |-> {}, who |-> "{\"TimeoutPromises\"}", owners |-> {"TimeoutPromises"}, resp |-> "", why |-> "", drift |-> "", dup |-> {}, lint |-> {}, dupRoot |-> FALSE, travDup |-> FALSE, travMissing |-> {}, cursor |-> TRUE],idc |-> <<>>,cyc |-> <<>>,l |-> 5,seen |-> <<>>,pdb |-> [tasks |-> <<>>, promises |-> <<>>, schedules |-> <<>>, porder |-> <<>>, sorder |-> <<>>, callbacks |-> <<>>, locks |-> <<>>],sends |-> <<>>,path |-> <<[tasks |-> <<>>, promises |-> <<>>, schedules |-> <<>>, porder |-> <<>>, sorder |-> <<>>, callbacks |-> <<>>, locks |-> <<>>], [tasks |-> <<>>, promises |-> <<>>, schedules |-> <<>>, porder |-> <<>>, sorder |-> <<>>, callbacks |-> <<>>, locks |-> <<>>]>>,now |-> 11277,claims |-> {},cand |-> <<>>,exp |-> [tasks |-> <<>>, promises |-> <<>>, schedules |-> <<>>, porder |-> <<>>, sorder |-> <<>>, callbacks |-> <<>>, locks |-> <<>>],db |-> [tasks |-> <<>>, promises |-> <<>>, schedules |-> <<>>, porder |-> <<>>, sorder |-> <<>>, callbacks |-> <<>>, locks |-> <<>>],q0 |-> [db |-> [tasks |-> <<>>, promises |-> <<>>, schedules |-> <<>>, porder |-> <<>>, sorder |-> <<>>, callbacks |-> <<>>, locks |-> <<>>], t |-> -1]]),
    ([reqs |-> [r1 |-> [l |-> 2, trav |-> "t1", t |-> 11270, kind |-> "SearchPromises", args |-> [cursor |-> <<>>, tags |-> [a |-> "b"], limit |-> 5, q |-> "*.*", qc |-> <<"*", ".", "*">>, states |-> <<"REJECTED", "REJECTED_TIMEDOUT", "REJECTED_CANCELED">>], page |-> 1]],lapsed |-> {},snaps |-> <<>>,faulted |-> {},cfg |-> [taskEnqueueDelay |-> 4, coroutineMaxSize |-> 100, submissionBatchSize |-> 5, completionBatchSize |-> 5, promiseBatchSize |-> 3, scheduleBatchSize |-> 1, taskBatchSize |-> 3, signalTimeout |-> 1, apiSize |-> 100, background |-> <<"TimeoutPromises", "SchedulePromises", "TimeoutLocks", "EnqueueTasks", "TimeoutTasks">>],trav |-> <<>>,rerr |-> {},chk |-> [tables |-> {}, who |-> "{\"TimeoutLocks\"}", owners |-> {"TimeoutLocks"}, resp |-> "", why |-> "", drift |-> "", dup |-> {}, lint |-> {}, dupRoot |-> FALSE, travDup |-> FALSE, travMissing |-> {}, cursor |-> TRUE],idc |-> <<>>,cyc |-> <<>>,l |-> 6,seen |-> <<>>,pdb |-> [tasks |-> <<>>, promises |-> <<>>, schedules |-> <<>>, porder |-> <<>>, sorder |-> <<>>, callbacks |-> <<>>, locks |-> <<>>],sends |-> <<>>,path |-> <<[tasks |-> <<>>, promises |-> <<>>, schedules |-> <<>>, porder |-> <<>>, sorder |-> <<>>, callbacks |-> <<>>, locks |-> <<>>], [tasks |-> <<>>, promises |-> <<>>, schedules |-> <<>>, porder |-> <<>>, sorder |-> <<>>, callbacks |-> <<>>, locks |-> <<>>]>>,now |-> 11277,claims |-> {},cand |-> <<>>,exp |-> [tasks |-> <<>>, promises |-> <<>>, schedules |-> <<>>, porder |-> <<>>, sorder |-> <<>>, callbacks |-> <<>>, locks |-> <<>>],db |-> [tasks |-> <<>>, promises |-> <<>>, schedules |-> <<>>, porder |-> <<>>, sorder |-> <<>>, callbacks |-> <<>>, locks |-> <<>>],q0 |-> [db |-> [tasks |-> <<>>, promises |-> <<>>, schedules |-> <<>>, porder |-> <<>>, sorder |-> <<>>, callbacks |-> <<>>, locks |-> <<>>], t |-> -1]]),
    ([reqs |-> [r1 |-> [l |-> 2, trav |-> "t1", t |-> 11270, kind |-> "SearchPromises", args |-> [cursor |-> <<>>, tags |-> [a |-> "b"], limit |-> 5, q |-> "*.*", qc |-> <<"*", ".", "*">>, states |-> <<"REJECTED", "REJECTED_TIMEDOUT", "REJECTED_CANCELED">>], page |-> 1]],lapsed |-> {},snaps |-> [r1 |-> {[S |-> [tasks |-> <<>>, promises |-> <<>>, schedules |-> <<>>, porder |-> <<>>, sorder |-> <<>>, callbacks |-> <<>>, locks |-> <<>>], dt |-> 11277]}],faulted |-> {"r1"},cfg |-> [taskEnqueueDelay |-> 4, coroutineMaxSize |-> 100, submissionBatchSize |-> 5, completionBatchSize |-> 5, promiseBatchSize |-> 3, scheduleBatchSize |-> 1, taskBatchSize |-> 3, signalTimeout |-> 1, apiSize |-> 100, background |-> <<"TimeoutPromises", "SchedulePromises", "TimeoutLocks", "EnqueueTasks", "TimeoutTasks">>],trav |-> <<>>,rerr |-> {},chk |-> [tables |-> {}, who |-> "{\"SearchPromises\"}", owners |-> {"SearchPromises"}, resp |-> "", why |-> "", drift |-> "", dup |-> {}, lint |-> {}, dupRoot |-> FALSE, travDup |-> FALSE, travMissing |-> {}, cursor |-> TRUE],idc |-> <<>>,cyc |-> <<>>,l |-> 7,seen |-> <<>>,pdb |-> [tasks |-> <<>>, promises |-> <<>>, schedules |-> <<>>, porder |-> <<>>, sorder |-> <<>>, callbacks |-> <<>>, locks |-> <<>>],sends |-> <<>>,path |-> <<[tasks |-> <<>>, promises |-> <<>>, schedules |-> <<>>, porder |-> <<>>, sorder |-> <<>>, callbacks |-> <<>>, locks |-> <<>>], [tasks |-> <<>>, promises |-> <<>>, schedules |-> <<>>, porder |-> <<>>, sorder |-> <<>>, callbacks |-> <<>>, locks |-> <<>>]>>,now |-> 11277,claims |-> {},cand |-> <<>>,exp |-> [tasks |-> <<>>, promises |-> <<>>, schedules |-> <<>>, porder |-> <<>>, sorder |-> <<>>, callbacks |-> <<>>, locks |-> <<>>],db |-> [tasks |-> <<>>, promises |-> <<>>, schedules |-> <<>>, porder |-> <<>>, sorder |-> <<>>, callbacks |-> <<>>, locks |-> <<>>],q0 |-> [db |-> [tasks |-> <<>>, promises |-> <<>>, schedules |-> <<>>, porder |-> <<>>, sorder |-> <<>>, callbacks |-> <<>>, locks |-> <<>>], t |-> -1]]),
    ([reqs |-> [r1 |-> [l |-> 2, trav |-> "t1", t |-> 11270, kind |-> "SearchPromises", args |-> [cursor |-> <<>>, tags |-> [a |-> "b"], limit |-> 5, q |-> "*.*", qc |-> <<"*", ".", "*">>, states |-> <<"REJECTED", "REJECTED_TIMEDOUT", "REJECTED_CANCELED">>], page |-> 1]],lapsed |-> {},snaps |-> [r1 |-> {[S |-> [tasks |-> <<>>, promises |-> <<>>, schedules |-> <<>>, porder |-> <<>>, sorder |-> <<>>, callbacks |-> <<>>, locks |-> <<>>], dt |-> 11277]}],faulted |-> {"r1"},cfg |-> [taskEnqueueDelay |-> 4, coroutineMaxSize |-> 100, submissionBatchSize |-> 5, completionBatchSize |-> 5, promiseBatchSize |-> 3, scheduleBatchSize |-> 1, taskBatchSize |-> 3, signalTimeout |-> 1, apiSize |-> 100, background |-> <<"TimeoutPromises", "SchedulePromises", "TimeoutLocks", "EnqueueTasks", "TimeoutTasks">>],trav |-> <<>>,rerr |-> {},chk |-> [tables |-> {}, who |-> "", owners |-> {}, resp |-> "", why |-> "", drift |-> "", dup |-> {}, lint |-> {}, dupRoot |-> FALSE, travDup |-> FALSE, travMissing |-> {}, cursor |-> TRUE],idc |-> <<>>,cyc |-> <<>>,l |-> 8,seen |-> <<>>,pdb |-> [tasks |-> <<>>, promises |-> <<>>, schedules |-> <<>>, porder |-> <<>>, sorder |-> <<>>, callbacks |-> <<>>, locks |-> <<>>],sends |-> <<>>,path |-> <<[tasks |-> <<>>, promises |-> <<>>, schedules |-> <<>>, porder |-> <<>>, sorder |-> <<>>, callbacks |-> <<>>, locks |-> <<>>]>>,now |-> 11278,claims |-> {},cand |-> <<>>,exp |-> [tasks |-> <<>>, promises |-> <<>>, schedules |-> <<>>, porder |-> <<>>, sorder |-> <<>>, callbacks |-> <<>>, locks |-> <<>>],db |-> [tasks |-> <<>>, promises |-> <<>>, schedules |-> <<>>, porder |-> <<>>, sorder |-> <<>>, callbacks |-> <<>>, locks |-> <<>>],q0 |-> [db |-> [tasks |-> <<>>, promises |-> <<>>, schedules |-> <<>>, porder |-> <<>>, sorder |-> <<>>, callbacks |-> <<>>, locks |-> <<>>], t |-> -1]])
    >>
----


=============================================================================

---- CONFIG ResonateTrace_TTrace_1790369866 ----
CONSTANTS
    TraceFile = "/verif/run/t2/s.ndjson"
    CronPeriod <- TraceCronPeriod
    Expand <- TraceExpand
    Known = { "F3" , "F14" , "F13" }

INVARIANT
    _inv

CHECK_DEADLOCK
    \* CHECK_DEADLOCK off because of PROPERTY or INVARIANT above.
    FALSE

INIT
    _init

NEXT
    _next

CONSTANT
    _TETrace <- _trace

ALIAS
    _expression
=============================================================================
\* Generated on Fri Sep 25 20:57:48 UTC 2026