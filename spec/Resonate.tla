------------------------------ MODULE Resonate ------------------------------
(***************************************************************************)
(* Level A: the sequential durable-promise specification.                  *)
(*                                                                         *)
(* Every API request and every background effect is ONE atomic operation   *)
(* on the five tables, taken "at instant t" (the server clock).  Each      *)
(* operator Op*(S, a, t) maps a database S, the request arguments a and    *)
(* the clock t to [db |-> S', res |-> response].  The effects are          *)
(* composed from the store commands of Store.tla, so that guards are       *)
(* written once.                                                           *)
(*                                                                         *)
(* The module is used three ways:                                          *)
(*  - MC_A_*.tla drive it as a state machine (Init/Next below) and TLC     *)
(*    checks the named properties of Props.tla exhaustively;               *)
(*  - Kernel.tla (level B) refines it;                                     *)
(*  - ResonateTrace.tla evaluates the same operators on states and         *)
(*    arguments logged from the real server.                               *)
(***************************************************************************)
EXTENDS Store

(***************************************************************************)
(* Small definitions transcribed from the code.                            *)
(***************************************************************************)
KeyMatch(k1, k2) == IsSome(k1) /\ IsSome(k2) /\ The(k1) = The(k2)

TimedoutStateOf(tags) ==
  IF Has(tags, "resonate:timeout") /\ tags["resonate:timeout"] = "true"
  THEN RESOLVED ELSE TIMEDOUT

\* Routing (default tag source).  At this level only plain, non-JSON tag values are
\* modelled: they are kept as a logical receiver name, stored JSON-quoted.  JSON-shaped
\* tag values are the business of Route.tla (property C19).
Routed(tags)  == Has(tags, "resonate:invoke")
RecvOf(tags)  == "\"" \o tags["resonate:invoke"] \o "\""

InvokeTaskId(id)          == "__invoke:" \o id
CallbackId(root, leaf)    == "__resume:" \o root \o ":" \o leaf
SubscriptionId(pid, sid)  == "__notify:" \o pid \o ":" \o sid

\* Status codes (internal/kernel/t_api/status.go)
OK == 20000   CREATED == 20100   NOCONTENT == 20400
CALLBACK_INVALID == 40001
ALREADY_RESOLVED == 40300  ALREADY_REJECTED == 40301  ALREADY_CANCELED == 40302
ALREADY_TIMEDOUT == 40303  LOCK_ALREADY_ACQUIRED == 40304
TASK_ALREADY_CLAIMED == 40305  TASK_ALREADY_COMPLETED == 40306
TASK_INVALID_COUNTER == 40307  TASK_INVALID_STATE == 40308
PROMISE_NOT_FOUND == 40400  SCHEDULE_NOT_FOUND == 40401  LOCK_NOT_FOUND == 40402
TASK_NOT_FOUND == 40403  RECV_NOT_FOUND == 40404
PROMISE_EXISTS == 40900  SCHEDULE_EXISTS == 40901
STORE_ERROR == 50004  MATCH_ERROR == 50002

AlreadyStatus(state) ==
  CASE state = RESOLVED -> ALREADY_RESOLVED [] state = REJECTED -> ALREADY_REJECTED
    [] state = CANCELED -> ALREADY_CANCELED [] state = TIMEDOUT -> ALREADY_TIMEDOUT

PBody(S, id) == WithId(id, S.promises[id])
TBody(S, id) == WithId(id, S.tasks[id])
SBody(S, id) == WithId(id, S.schedules[id])

(***************************************************************************)
(* Completion of a pending promise, with the conversion: all active tasks  *)
(* rooted at it are completed, every registration on it becomes one task   *)
(* and is removed.  This is the four-command transaction of                *)
(* completePromise.go, applied only when the promise is pending.           *)
(***************************************************************************)
CompletionCmds(id, state, value, iku, completedOn, t) ==
  << [k |-> "UpdatePromise", id |-> id, state |-> state, value |-> value, iku |-> iku,
      completedOn |-> completedOn],
     [k |-> "CompleteTasks", rootId |-> id, completedOn |-> t],
     [k |-> "CreateTasks", promiseId |-> id, createdOn |-> t],
     [k |-> "DeleteCallbacks", promiseId |-> id] >>

IsPending(S, id) == Has(S.promises, id) /\ S.promises[id].state = PENDING
Overdue(S, id, t) == IsPending(S, id) /\ S.promises[id].timeout <= t

Complete(S, id, state, value, iku, completedOn, t) ==
  IF IsPending(S, id)
  THEN ApplySeq(S, CompletionCmds(id, state, value, iku, completedOn, t))
  ELSE S

\* the forced time-out of an overdue promise
TimeoutP(S, id, t) ==
  IF Overdue(S, id, t)
  THEN Complete(S, id, TimedoutStateOf(S.promises[id].tags), EmptyValue, None,
                S.promises[id].timeout, t)
  ELSE S

(***************************************************************************)
(* Promise operations.                                                     *)
(***************************************************************************)
OpReadPromise(S, a, t) ==
  IF ~ Has(S.promises, a.id)
  THEN [db |-> S, res |-> [status |-> PROMISE_NOT_FOUND, promise |-> None]]
  ELSE LET S2 == TimeoutP(S, a.id, t)
       IN [db |-> S2, res |-> [status |-> OK, promise |-> Some(PBody(S2, a.id))]]

InvokeTaskCmd(a, t) ==
  [id |-> InvokeTaskId(a.id), recv |-> RecvOf(a.tags),
   mesg |-> [type |-> "invoke", root |-> a.id, leaf |-> a.id], timeout |-> a.timeout,
   pid |-> None, state |-> T_INIT, ttl |-> 0, expiresAt |-> 0, createdOn |-> t]

PromiseCmd(a, t) ==
  [k |-> "CreatePromise", id |-> a.id, param |-> a.param, timeout |-> a.timeout,
   ikc |-> a.ikey, tags |-> a.tags, createdOn |-> t]

\* status of a create request that finds the promise (row p, after any lazy time-out)
CreateExistsStatus(p, a, timedOutNow) ==
  IF timedOutNow
  THEN IF ~ a.strict /\ KeyMatch(p.ikc, a.ikey) THEN OK ELSE PROMISE_EXISTS
  ELSE IF ~ (a.strict /\ p.state # PENDING) /\ KeyMatch(p.ikc, a.ikey) THEN OK ELSE PROMISE_EXISTS

OpCreatePromise(S, a, t) ==
  IF ~ Has(S.promises, a.id)
  THEN LET cmd == IF Routed(a.tags)
                  THEN [k |-> "CreatePromiseAndTask", promise |-> PromiseCmd(a, t),
                        task |-> InvokeTaskCmd(a, t)]
                  ELSE PromiseCmd(a, t)
           S2 == Apply(S, cmd)
       IN [db |-> S2, res |-> [status |-> CREATED, promise |-> Some(PBody(S2, a.id))]]
  ELSE LET due == Overdue(S, a.id, t)
           S2 == TimeoutP(S, a.id, t)
       IN [db |-> S2,
           res |-> [status |-> CreateExistsStatus(S.promises[a.id], a, due),
                    promise |-> Some(PBody(S2, a.id))]]

\* create-with-task: a = create arguments plus pid, ttl.  The code stamps the task (creation
\* time, lease start) with the tick at which the request was admitted, t0 <= t, and the
\* promise with the tick t at which it decided to create: two clock readings of one
\* operation.
OpCreatePromiseAndTask2(S, a, t, t0) ==
  IF ~ Has(S.promises, a.id)
  THEN IF ~ Routed(a.tags)
       THEN [db |-> S, res |-> [status |-> RECV_NOT_FOUND, promise |-> None, task |-> None]]
       ELSE LET tc == [InvokeTaskCmd(a, t0) EXCEPT !.pid = Some(a.pid), !.state = T_CLAIMED,
                                                  !.ttl = a.ttl, !.expiresAt = t0 + a.ttl]
                S2 == Apply(S, [k |-> "CreatePromiseAndTask", promise |-> PromiseCmd(a, t),
                                task |-> tc])
            IN [db |-> S2, res |-> [status |-> CREATED, promise |-> Some(PBody(S2, a.id)),
                                    task |-> Some(TBody(S2, InvokeTaskId(a.id)))]]
  ELSE LET due == Overdue(S, a.id, t)
           S2 == TimeoutP(S, a.id, t)
       IN [db |-> S2,
           res |-> [status |-> CreateExistsStatus(S.promises[a.id], a, due),
                    promise |-> Some(PBody(S2, a.id)), task |-> None]]

OpCreatePromiseAndTask(S, a, t) == OpCreatePromiseAndTask2(S, a, t, t)

\* a = [id, ikey, strict, state, value]
OpCompletePromise(S, a, t) ==
  IF ~ Has(S.promises, a.id)
  THEN [db |-> S, res |-> [status |-> PROMISE_NOT_FOUND, promise |-> None]]
  ELSE LET p == S.promises[a.id] IN
    IF p.state = PENDING
    THEN IF t < p.timeout
         THEN LET S2 == Complete(S, a.id, a.state, a.value, a.ikey, t, t)
              IN [db |-> S2, res |-> [status |-> CREATED, promise |-> Some(PBody(S2, a.id))]]
         ELSE LET S2 == TimeoutP(S, a.id, t)
                  st == IF TimedoutStateOf(p.tags) = RESOLVED THEN ALREADY_RESOLVED
                        ELSE IF a.strict THEN ALREADY_TIMEDOUT ELSE OK
              IN [db |-> S2, res |-> [status |-> st, promise |-> Some(PBody(S2, a.id))]]
    ELSE LET strictMismatch == a.strict /\ p.state # a.state
             lenientTimeout == ~ a.strict /\ p.state = TIMEDOUT
             st == IF (~ strictMismatch /\ KeyMatch(p.iku, a.ikey)) \/ lenientTimeout
                   THEN OK ELSE AlreadyStatus(p.state)
         IN [db |-> S, res |-> [status |-> st, promise |-> Some(PBody(S, a.id))]]

(***************************************************************************)
(* Registrations.  a = [promiseId, rootId, recv, timeout] for callbacks,   *)
(* [promiseId, id, recv, timeout] for subscriptions.  No lazy time-out     *)
(* here: an overdue pending promise still counts as pending.               *)
(***************************************************************************)
Register(S, cbid, a, mesg, t) ==
  IF ~ Has(S.promises, a.promiseId)
  THEN [db |-> S, res |-> [status |-> PROMISE_NOT_FOUND, promise |-> None, callback |-> None]]
  ELSE IF S.promises[a.promiseId].state = PENDING /\ ~ Has(S.callbacks, cbid)
       THEN LET S2 == Apply(S, [k |-> "CreateCallback", id |-> cbid, promiseId |-> a.promiseId,
                                recv |-> a.recv, mesg |-> mesg, timeout |-> a.timeout,
                                createdOn |-> t])
            IN [db |-> S2,
                res |-> [status |-> CREATED, promise |-> Some(PBody(S2, a.promiseId)),
                         callback |-> Some([id |-> cbid, promiseId |-> a.promiseId,
                                            timeout |-> a.timeout, createdOn |-> t])]]
       ELSE [db |-> S, res |-> [status |-> OK, promise |-> Some(PBody(S, a.promiseId)),
                                callback |-> None]]

OpCreateCallback(S, a, t) ==
  IF a.promiseId = a.rootId
  THEN [db |-> S, res |-> [status |-> CALLBACK_INVALID, promise |-> None, callback |-> None]]
  ELSE Register(S, CallbackId(a.rootId, a.promiseId), a,
                [type |-> "resume", root |-> a.rootId, leaf |-> a.promiseId], t)

OpCreateSubscription(S, a, t) ==
  Register(S, SubscriptionId(a.promiseId, a.id), a,
           [type |-> "notify", root |-> a.promiseId, leaf |-> ""], t)

(***************************************************************************)
(* Tasks.                                                                  *)
(***************************************************************************)
\* a = [id, counter, pid, ttl].  The claim is one instant; the promises returned
\* with it are read at a second, later instant (OpClaimRead).
OpClaimTask(S, a, t) ==
  IF ~ Has(S.tasks, a.id)
  THEN [db |-> S, res |-> [status |-> TASK_NOT_FOUND, task |-> None]]
  ELSE LET x == S.tasks[a.id] IN
    IF x.state = T_CLAIMED
    THEN [db |-> S, res |-> [status |-> TASK_ALREADY_CLAIMED, task |-> Some(TBody(S, a.id))]]
    ELSE IF x.state \in {T_COMPLETED, T_TIMEDOUT}
    THEN [db |-> S, res |-> [status |-> TASK_ALREADY_COMPLETED, task |-> Some(TBody(S, a.id))]]
    ELSE IF x.counter # a.counter
    THEN [db |-> S, res |-> [status |-> TASK_INVALID_COUNTER, task |-> Some(TBody(S, a.id))]]
    ELSE LET S2 == [S EXCEPT !.tasks[a.id] =
                      [@ EXCEPT !.state = T_CLAIMED, !.pid = Some(a.pid), !.ttl = a.ttl,
                                !.expiresAt = t + a.ttl, !.completedOn = None]]
         IN [db |-> S2, res |-> [status |-> CREATED, task |-> Some(TBody(S2, a.id))]]

\* the promises handed out with a successful claim of task x, read from S
ClaimRead(S, x) ==
  [root |-> IF Has(S.promises, x.mesg.root) THEN Some(PBody(S, x.mesg.root)) ELSE None,
   leaf |-> IF x.mesg.type = "resume" /\ Has(S.promises, x.mesg.leaf)
            THEN Some(PBody(S, x.mesg.leaf)) ELSE None]

\* a = [id, counter]
OpCompleteTask(S, a, t) ==
  IF ~ Has(S.tasks, a.id)
  THEN [db |-> S, res |-> [status |-> TASK_NOT_FOUND, task |-> None]]
  ELSE LET x == S.tasks[a.id] IN
    IF x.state \in {T_COMPLETED, T_TIMEDOUT}
    THEN [db |-> S, res |-> [status |-> OK, task |-> Some(TBody(S, a.id))]]
    ELSE IF x.state \in {T_INIT, T_ENQUEUED}
    THEN [db |-> S, res |-> [status |-> TASK_INVALID_STATE, task |-> Some(TBody(S, a.id))]]
    ELSE IF x.counter # a.counter
    THEN [db |-> S, res |-> [status |-> TASK_INVALID_COUNTER, task |-> Some(TBody(S, a.id))]]
    ELSE LET S2 == [S EXCEPT !.tasks[a.id] =
                      [@ EXCEPT !.state = T_COMPLETED, !.pid = None, !.attempt = 0, !.ttl = 0,
                                !.expiresAt = 0, !.completedOn = Some(t)]]
         IN [db |-> S2, res |-> [status |-> CREATED, task |-> Some(TBody(S2, a.id))]]

\* a = [pid]
OpHeartbeatTasks(S, a, t) ==
  LET c == [k |-> "HeartbeatTasks", pid |-> a.pid, time |-> t]
  IN [db |-> Apply(S, c), res |-> [status |-> OK, n |-> Res(S, c).rows]]

(***************************************************************************)
(* Locks.  a = [rid, eid, pid, ttl] / [rid, eid] / [pid]                   *)
(***************************************************************************)
OpAcquireLock(S, a, t) ==
  LET c == [k |-> "AcquireLock", rid |-> a.rid, eid |-> a.eid, pid |-> a.pid, ttl |-> a.ttl,
            expiresAt |-> t + a.ttl]
  IN IF Res(S, c).rows = 1
     THEN [db |-> Apply(S, c),
           res |-> [status |-> CREATED,
                    lock |-> Some([rid |-> a.rid, eid |-> a.eid, pid |-> a.pid, ttl |-> a.ttl,
                                   expiresAt |-> t + a.ttl])]]
     ELSE [db |-> S, res |-> [status |-> LOCK_ALREADY_ACQUIRED, lock |-> None]]

OpReleaseLock(S, a, t) ==
  LET c == [k |-> "ReleaseLock", rid |-> a.rid, eid |-> a.eid]
  IN IF Res(S, c).rows = 1
     THEN [db |-> Apply(S, c), res |-> [status |-> NOCONTENT]]
     ELSE [db |-> S, res |-> [status |-> LOCK_NOT_FOUND]]

OpHeartbeatLocks(S, a, t) ==
  LET c == [k |-> "HeartbeatLocks", pid |-> a.pid, time |-> t]
  IN [db |-> Apply(S, c), res |-> [status |-> OK, n |-> Res(S, c).rows]]

(***************************************************************************)
(* Schedules.  The cron expression is abstracted to its period:            *)
(* CronPeriod(cron) > 0 and the occurrences are the positive multiples of  *)
(* the period (this is what "*/k * * * * *"-style expressions denote; the  *)
(* harness only uses expressions of that family and robfig/cron is the     *)
(* trusted definition of "occurrence").                                    *)
(***************************************************************************)
CONSTANT CronPeriod(_)
CronNext(cron, t) == ((t \div CronPeriod(cron)) + 1) * CronPeriod(cron)

\* id template expansion for the template family the harness uses
CONSTANT Expand(_, _, _)    \* Expand(template, scheduleId, timestamp)

\* a = [id, desc, cron, tags, promiseId, promiseTimeout, promiseParam, promiseTags, ikey]
OpCreateSchedule(S, a, t) ==
  IF ~ Has(S.schedules, a.id)
  THEN LET S2 == Apply(S, [k |-> "CreateSchedule", id |-> a.id, desc |-> a.desc,
                           cron |-> a.cron, tags |-> a.tags, promiseId |-> a.promiseId,
                           promiseTimeout |-> a.promiseTimeout, promiseParam |-> a.promiseParam,
                           promiseTags |-> a.promiseTags, next |-> CronNext(a.cron, t),
                           ikey |-> a.ikey, createdOn |-> t])
       IN [db |-> S2, res |-> [status |-> CREATED, schedule |-> Some(SBody(S2, a.id))]]
  ELSE [db |-> S,
        res |-> [status |-> IF KeyMatch(S.schedules[a.id].ikey, a.ikey) THEN OK ELSE SCHEDULE_EXISTS,
                 schedule |-> Some(SBody(S, a.id))]]

OpReadSchedule(S, a, t) ==
  IF Has(S.schedules, a.id)
  THEN [db |-> S, res |-> [status |-> OK, schedule |-> Some(SBody(S, a.id))]]
  ELSE [db |-> S, res |-> [status |-> SCHEDULE_NOT_FOUND, schedule |-> None]]

OpDeleteSchedule(S, a, t) ==
  IF Has(S.schedules, a.id)
  THEN [db |-> Apply(S, [k |-> "DeleteSchedule", id |-> a.id]), res |-> [status |-> NOCONTENT]]
  ELSE [db |-> S, res |-> [status |-> SCHEDULE_NOT_FOUND]]

(***************************************************************************)
(* Background effects (one entity at a time; the sweeps of the code are    *)
(* finite repetitions of these).                                           *)
(***************************************************************************)
\* the promise a schedule creates for the occurrence at its next run time
ScheduledPromiseArgs(sid, s) ==
  [id |-> Expand(s.promiseId, sid, s.next), ikey |-> None, strict |-> FALSE,
   param |-> s.promiseParam, timeout |-> s.promiseTimeout + s.next,
   tags |-> ("resonate:schedule" :> sid) @@ ("resonate:invocation" :> "true") @@ s.promiseTags]

\* fire schedule sid at clock t (enabled iff its next run time has been reached):
\* create the occurrence's promise unless it exists (routed => with its task) and
\* advance <<last, next>>, in one step.
CanFire(S, sid, t) == Has(S.schedules, sid) /\ S.schedules[sid].next <= t
Fire(S, sid, t) ==
  LET s == S.schedules[sid]
      a == ScheduledPromiseArgs(sid, s)
      S1 == IF Has(S.promises, a.id) THEN S ELSE OpCreatePromise(S, a, t).db
  IN [S1 EXCEPT !.schedules[sid] = [@ EXCEPT !.last = Some(s.next), !.next = CronNext(s.cron, s.next)]]

SweepLocks(S, t) == Apply(S, [k |-> "TimeoutLocks", time |-> t])

\* lease / time-out sweep of one enqueued or claimed task
CanExpire(S, x, t) ==
  Has(S.tasks, x) /\ S.tasks[x].state \in TaskBusy
  /\ (S.tasks[x].expiresAt <= t \/ S.tasks[x].timeout <= t)
ExpireTask(S, x, t) ==
  IF t < S.tasks[x].timeout
  THEN [S EXCEPT !.tasks[x] = [@ EXCEPT !.state = T_INIT, !.pid = None, !.counter = @ + 1,
                                         !.attempt = 0, !.ttl = 0, !.expiresAt = 0,
                                         !.completedOn = None]]
  ELSE [S EXCEPT !.tasks[x] = [@ EXCEPT !.state = T_TIMEDOUT, !.pid = None, !.ttl = 0,
                                         !.expiresAt = 0, !.completedOn = Some(S.tasks[x].timeout)]]

\* dispatch of one init task x, decided at clock t; outcome \in {"ok","fail"} is the
\* result of the hand-off (irrelevant for notifications and for overdue tasks)
CanDispatch(S, x) == x \in EnqueueableTasks(S)
Dispatch(S, x, outcome, delay, t) ==
  LET r == S.tasks[x] IN
  IF ~ (t < r.timeout)
  THEN [S EXCEPT !.tasks[x] = [@ EXCEPT !.state = T_TIMEDOUT, !.pid = None, !.ttl = 0,
                                         !.expiresAt = 0, !.completedOn = Some(r.timeout)]]
  ELSE IF r.mesg.type = "notify"
  THEN [S EXCEPT !.tasks[x] = [@ EXCEPT !.state = T_COMPLETED, !.pid = None, !.ttl = 0,
                                         !.expiresAt = t + delay, !.completedOn = None]]
  ELSE IF outcome = "ok"
  THEN [S EXCEPT !.tasks[x] = [@ EXCEPT !.state = T_ENQUEUED, !.pid = None, !.ttl = 0,
                                         !.expiresAt = t + delay, !.completedOn = None]]
  ELSE [S EXCEPT !.tasks[x] = [@ EXCEPT !.pid = None, !.attempt = @ + 1, !.ttl = 0,
                                         !.expiresAt = t + delay, !.completedOn = None]]

(***************************************************************************)
(* Search.  Ids are matched against a pattern in which "*" stands for any  *)
(* (possibly empty) run of characters; idc maps an id to its sequence of   *)
(* characters and a.qc is the pattern as a sequence (TLC has no substring  *)
(* operations on strings).  Newest first, at most a.limit per page, a      *)
(* cursor (the last id of the page) exactly when the page is full.         *)
(* An overdue pending hit is first timed out (its own step) and the search *)
(* is taken again, so a reply never reports an overdue promise as pending. *)
(***************************************************************************)
RECURSIVE Glob(_, _)
Glob(p, s) ==
  IF p = <<>> THEN s = <<>>
  ELSE IF Head(p) = "*" THEN \E k \in 0..Len(s) : Glob(Tail(p), SubSeq(s, k + 1, Len(s)))
  ELSE s # <<>> /\ Head(s) = Head(p) /\ Glob(Tail(p), Tail(s))

TagsSubset(want, have) == \A k \in DOMAIN want : k \in DOMAIN have /\ have[k] = want[k]

PromiseMatches(S, a, idc, id) ==
  /\ Has(idc, id) /\ Glob(a.qc, idc[id])
  /\ S.promises[id].state \in Range(a.states)
  /\ TagsSubset(a.tags, S.promises[id].tags)
PromiseMatchSet(S, a, idc) == {id \in DOMAIN S.promises : PromiseMatches(S, a, idc, id)}

ScheduleMatches(S, a, idc, id) ==
  Has(idc, id) /\ Glob(a.qc, idc[id]) /\ TagsSubset(a.tags, S.schedules[id].tags)

\* -1: the cursor names a row that no longer exists (a deleted schedule)
CursorStart(order, cursor) ==
  IF IsNone(cursor) THEN Len(order)
  ELSE IF The(cursor) \in Range(order) THEN Pos(order, The(cursor)) - 1 ELSE -1

SearchPromisesIds(S, a, idc) ==
  LET keep(id) == PromiseMatches(S, a, idc, id)
  IN NewestFirst(S.porder, CursorStart(S.porder, a.cursor), keep, a.limit)

SearchPromisesRes(S, a, idc) ==
  LET ids == SearchPromisesIds(S, a, idc) IN
  [status |-> OK, promises |-> [i \in DOMAIN ids |-> PBody(S, ids[i])],
   cursor |-> IF Len(ids) = a.limit THEN Some(ids[Len(ids)]) ELSE None]

\* the hits of the page that are overdue at clock t (they are timed out before the reply)
SearchOverdueHits(S, a, idc, t) ==
  {id \in Range(SearchPromisesIds(S, a, idc)) : Overdue(S, id, t)}

SearchSchedulesIds(S, a, idc) ==
  LET keep(id) == ScheduleMatches(S, a, idc, id)
  IN NewestFirst(S.sorder, CursorStart(S.sorder, a.cursor), keep, a.limit)

(***************************************************************************)
(* Dispatcher used by level B and by the trace specification.              *)
(***************************************************************************)
Op(kind, S, a, t) ==
  CASE kind = "ReadPromise"          -> OpReadPromise(S, a, t)
    [] kind = "CreatePromise"        -> OpCreatePromise(S, a, t)
    [] kind = "CreatePromiseAndTask" -> OpCreatePromiseAndTask(S, a, t)
    [] kind = "CompletePromise"      -> OpCompletePromise(S, a, t)
    [] kind = "CreateCallback"       -> OpCreateCallback(S, a, t)
    [] kind = "CreateSubscription"   -> OpCreateSubscription(S, a, t)
    [] kind = "ClaimTask"            -> OpClaimTask(S, a, t)
    [] kind = "CompleteTask"         -> OpCompleteTask(S, a, t)
    [] kind = "HeartbeatTasks"       -> OpHeartbeatTasks(S, a, t)
    [] kind = "AcquireLock"          -> OpAcquireLock(S, a, t)
    [] kind = "ReleaseLock"          -> OpReleaseLock(S, a, t)
    [] kind = "HeartbeatLocks"       -> OpHeartbeatLocks(S, a, t)
    [] kind = "CreateSchedule"       -> OpCreateSchedule(S, a, t)
    [] kind = "ReadSchedule"         -> OpReadSchedule(S, a, t)
    [] kind = "DeleteSchedule"       -> OpDeleteSchedule(S, a, t)
=============================================================================
