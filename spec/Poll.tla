-------------------------------- MODULE Poll --------------------------------
(***************************************************************************)
(* C18: the poll transport (internal/app/plugins/poll/poll.go).            *)
(*                                                                         *)
(* The registry of listener connections and the single worker that owns    *)
(* it.  A connection is a numbered object c with a group, an id and a      *)
(* bounded buffer (a channel).  Events, in the order the worker handles    *)
(* them:                                                                   *)
(*   connect(c, g, id)    a listener arrived                               *)
(*   disconnect(c)        the handler of c went away (possibly after c was *)
(*                        replaced or refused)                             *)
(*   send(type, g, id)    a message for group g, preferably listener id    *)
(*   drain(c)             the listener consumed one buffered message       *)
(*   stop                 the transport shuts down                         *)
(* State: reg (per group, the registered connections in arrival order),    *)
(* buf / closed per connection, crashed (an operation on a closed channel  *)
(* or a second close: a Go panic).                                         *)
(***************************************************************************)
EXTENDS Integers, Sequences, FiniteSets, TLC

CONSTANTS Max,     \* connection limit
          Cap      \* buffer capacity of a connection

EmptyPoll == [reg |-> <<>>, info |-> <<>>, buf |-> <<>>, closed |-> {}, n |-> 0, crashed |-> FALSE, stopped |-> FALSE]

GroupOf(P, g) == IF g \in DOMAIN P.reg THEN P.reg[g] ELSE <<>>
SetGroup(P, g, s) == [P EXCEPT !.reg = (g :> s) @@ P.reg]

Close(P, c) == IF c \in P.closed THEN [P EXCEPT !.crashed = TRUE] ELSE [P EXCEPT !.closed = @ \cup {c}]

\* remove the first entry of group g with this id (and this connection when match)
RECURSIVE FirstIdx(_, _, _, _, _)
FirstIdx(s, i, id, c, match) ==
  IF i > Len(s) THEN 0
  ELSE IF s[i].id = id /\ (s[i].c = c \/ ~ match) THEN i
  ELSE FirstIdx(s, i + 1, id, c, match)

Rmv(P, c, g, id, match) ==
  LET s == GroupOf(P, g)
      i == FirstIdx(s, 1, id, c, match) IN
  IF i = 0 THEN P
  ELSE LET P1 == Close(P, s[i].c)
       IN [SetGroup(P1, g, SubSeq(s, 1, i - 1) \o SubSeq(s, i + 1, Len(s))) EXCEPT !.n = @ - 1]

\* a listener arrives: it replaces an older connection with the same group and id; at the
\* limit the new connection is closed at once (refused)
Connect(P, c, g, id) ==
  LET P0 == [P EXCEPT !.info = (c :> [g |-> g, id |-> id]) @@ @, !.buf = (c :> <<>>) @@ @]
      P1 == Rmv(P0, c, g, id, FALSE) IN
  IF P1.n >= Max THEN Close(P1, c)
  ELSE [SetGroup(P1, g, Append(GroupOf(P1, g), [id |-> id, c |-> c])) EXCEPT !.n = @ + 1]

Disconnect(P, c) == Rmv(P, c, P.info[c].g, P.info[c].id, TRUE)

\* the connections a message may be handed to
Candidates(P, type, g, id) ==
  LET s == GroupOf(P, g)
      same == {i \in DOMAIN s : s[i].id = id} IN
  IF s = <<>> THEN {}
  ELSE IF id # "" /\ same # {} THEN {s[CHOOSE i \in same : \A j \in same : i <= j].c}
  ELSE IF type = "notify" THEN {}            \* a notification only goes to the exact id
  ELSE {s[i].c : i \in DOMAIN s}             \* any member of the group

\* hand the message to connection c: accepted iff its buffer has room
Deliver(P, c, m) ==
  IF c \in P.closed THEN [P EXCEPT !.crashed = TRUE]
  ELSE IF Len(P.buf[c]) < Cap THEN [P EXCEPT !.buf[c] = Append(@, m)] ELSE P

Drain(P, c) == IF c \in DOMAIN P.buf /\ P.buf[c] # <<>> THEN [P EXCEPT !.buf[c] = Tail(@)] ELSE P

Registered(P) == UNION {{GroupOf(P, g)[i].c : i \in DOMAIN GroupOf(P, g)} : g \in DOMAIN P.reg}

Stop(P) ==
  LET cs == Registered(P) IN
  [P EXCEPT !.closed = @ \cup cs, !.crashed = @ \/ (cs \cap P.closed # {}),
            !.reg = [g \in DOMAIN P.reg |-> <<>>], !.n = 0, !.stopped = TRUE]

(***************************************************************************)
(* Invariants of the registry.                                             *)
(***************************************************************************)
RegistryOK(P) ==
  /\ ~ P.crashed
  /\ P.n = Cardinality(Registered(P)) /\ P.n <= Max /\ P.n >= 0
  /\ Registered(P) \cap P.closed = {}                       \* registered connections are open
  /\ \A g \in DOMAIN P.reg : \A i, j \in DOMAIN P.reg[g] :   \* one connection per group and id
        i # j => P.reg[g][i].id # P.reg[g][j].id /\ P.reg[g][i].c # P.reg[g][j].c
  /\ \A c \in DOMAIN P.buf : Len(P.buf[c]) <= Cap
=============================================================================
