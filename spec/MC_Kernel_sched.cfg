SPECIFICATION Spec
CONSTANTS
  CronPeriod <- MCCronPeriod
  Expand <- MCExpand
  Script <- Script_sched
  Times <- Times_sched
  InitDB <- DB_sched
  Sweeps = {"SchedulePromises"}
  MaxSweeps = 2
  Delay = 2
  Known = {"F14"}
  F1Fixed = TRUE
  Idc <- MCIdc
  Parties = 2
VIEW View
INVARIANTS
  TypeOK
  I_CommitRefines
  I_ReplyLinearizable
PROPERTIES
  A_C01
  A_C04
  A_C05
  A_C07
  A_C08
  A_C09
  A_C10
