--------------------------- MODULE ResonateTrace ---------------------------
(***************************************************************************)
(* Trace validation: a recorded execution of the REAL server (harness      *)
(* ksim / procx) is checked, event by event, against level A.              *)
(*                                                                         *)
(* The trace is ndjson; every line is one event (see DESIGN.md appendix B).*)
(* The specification is deterministic in the logged data, so validation    *)
(* is linear in the trace length.                                          *)
(*                                                                         *)
(*  db     the observed database (the projection logged after each commit) *)
(*  pdb    the database before the last event (so that step properties are *)
(*         state invariants)                                               *)
(*  exp    the database level A expects after the last commit: the fold    *)
(*         over the transactions of the batch of "no-op, or the level-A    *)
(*         effect of the owner of the transaction at its decision tick"    *)
(*  cand   per request, the level-A results at its effectful commits       *)
(*  snaps  per request, the states at its effect-free commits (the other   *)
(*         candidate linearization points)                                 *)
(***************************************************************************)
EXTENDS Props, Json

CONSTANT TraceFile
CONSTANT Known      \* names of the known findings (known_findings.json, status "known")
TraceLog == ndJsonDeserialize(TraceFile)

\* concretisations used by the harness (substituted for Resonate's constants in the cfg)
TraceCronPeriod(c) ==
  CASE c = "* * * * * *" -> 1000 [] c = "*/2 * * * * *" -> 2000 [] c = "*/3 * * * * *" -> 3000
    [] c = "*/5 * * * * *" -> 5000 [] OTHER -> 1000
TraceExpand(tpl, sid, ts) ==
  CASE tpl = "{{.id}}.{{.timestamp}}" -> sid \o "." \o ToString(ts)
    [] tpl = "{{.timestamp}}" -> ToString(ts)
    [] OTHER -> tpl

VARIABLES l,        \* next line to consume
          db, pdb, exp, now,
          reqs,     \* request id -> [kind, args, t]
          cand,     \* request id -> set of level-A responses
          snaps,    \* request id -> set of [S, dt]
          faulted,  \* requests that were told of a store failure
          sends,    \* <<task, counter>> -> [dt, outcome] of the last hand-off
          lapsed,   \* set of <<task, counter>> whose lease/time-out was reached
          claims,   \* set of <<task, counter>> that entered CLAIMED
          seen,     \* promise id -> first terminal Final() observed in a reply
          cfg,      \* configuration of the run
          chk       \* verdicts about the last event (see Check*)

vars == <<l, db, pdb, exp, now, reqs, cand, snaps, faulted, sends, lapsed, claims, seen, cfg, chk>>

NoChk == [tables |-> {}, who |-> "", resp |-> "", why |-> "", drift |-> "", dup |-> {}, lint |-> {}]

\* known findings met during validation are collected in TLC register 42 and printed
\* by the postcondition (the check turns them into KNOWN-FINDING lines)
NoteFinding(name) == TLCSet(42, TLCGet(42) \cup {name})

Ev == TraceLog[l]
\* the projection carried by an event ("same": the database is unchanged)
PostOf(ev, cur) == IF ev.same THEN cur ELSE ev.post
Last == IF l > 1 THEN TraceLog[l - 1] ELSE [e |-> "none"]

ReadKinds == {"ReadPromise", "ReadPromises", "SearchPromises", "ReadSchedule", "ReadSchedules",
              "SearchSchedules", "ReadTask", "ReadTasks", "ReadEnqueueableTasks", "ReadLock"}

Tables == {"promises", "porder", "callbacks", "tasks", "locks", "schedules", "sorder"}

\* index of the first write command of a transaction, 0 if it only reads
FirstWrite(cmds) ==
  LET ws == {i \in DOMAIN cmds : cmds[i].k \notin ReadKinds}
  IN IF ws = {} THEN 0 ELSE CHOOSE i \in ws : \A j \in ws : i <= j

GetOr(f, k, d) == IF k \in DOMAIN f THEN f[k] ELSE d
AddTo(f, k, x) == Put(f, k, GetOr(f, k, {}) \cup {x})

(***************************************************************************)
(* The lease bookkeeping for C07: pairs whose lease or time-out has been   *)
(* reached at clock t in database S.                                       *)
(***************************************************************************)
LapsedIn(S, t) ==
  {<<x, S.tasks[x].counter>> : x \in ExpirableTasks(S, TaskBusy, t)}

(***************************************************************************)
(* One transaction of a commit, folded at level A.                         *)
(* Returns [S, cand, snaps, drift].                                        *)
(***************************************************************************)
\* fold of the UpdateTask commands of a background sweep
RECURSIVE SweepFold(_, _, _, _, _)
SweepFold(S, cmds, i, tx, bg) ==
  IF i > Len(cmds) THEN S
  ELSE LET c == cmds[i]
           S2 == IF c.k # "UpdateTask" \/ c.rows <= 0 \/ ~ Has(S.tasks, c.id) THEN S
                 ELSE LET x == c.id
                          key == <<x, S.tasks[x].counter>> IN
                   IF bg = "TimeoutTasks"
                   THEN IF S.tasks[x].state \in TaskBusy /\ key \in lapsed
                        THEN ExpireTask(S, x, tx.dt) ELSE S
                   ELSE \* EnqueueTasks
                        IF S.tasks[x].state # T_INIT THEN S
                        ELSE IF key \in DOMAIN sends
                        THEN Dispatch(S, x, IF sends[key].outcome = "ok" THEN "ok" ELSE "fail",
                                      cfg.taskEnqueueDelay, sends[key].dt)
                        ELSE IF tx.dt >= S.tasks[x].timeout
                        THEN Dispatch(S, x, "fail", cfg.taskEnqueueDelay, S.tasks[x].timeout)
                        ELSE S
       IN SweepFold(S2, cmds, i + 1, tx, bg)

\* The clock reading a write was decided with.  Every write transaction is yielded in the
\* same resume that decided it (so it is the dispatch tick dt), except promise creation:
\* the command is built, then the router is consulted, then the transaction is yielded,
\* so the creation time is an earlier tick.  It is recovered from the written row and must
\* lie between the submission of the request and the dispatch of the transaction.
DecisionTick(S, prim, dt, lo, post) ==
  IF prim.k \in {"CreatePromise", "CreatePromiseAndTask"}
     /\ ~ Has(S.promises, prim.id) /\ Has(post.promises, prim.id)
     /\ post.promises[prim.id].createdOn >= lo /\ post.promises[prim.id].createdOn <= dt
  THEN post.promises[prim.id].createdOn ELSE dt

TaskTick(S, prim, tau, lo, post) ==
  LET x == InvokeTaskId(prim.id) IN
  IF ~ Has(S.tasks, x) /\ Has(post.tasks, x) /\ IsSome(post.tasks[x].createdOn)
     /\ The(post.tasks[x].createdOn) >= lo /\ The(post.tasks[x].createdOn) <= tau
  THEN The(post.tasks[x].createdOn) ELSE tau

\* Known finding F14: the completion transaction [UpdatePromise, CompleteTasks, CreateTasks,
\* DeleteCallbacks] runs its CompleteTasks also when the UpdatePromise lost the race (0
\* rows): tasks rooted at the already completed promise (the notify / resume tasks the
\* conversion has just created) are finished without ever being handed off.
IsF14(tx, w) ==
  /\ tx.cmds[w].k = "UpdatePromise" /\ tx.cmds[w].rows = 0
  /\ w + 1 <= Len(tx.cmds) /\ tx.cmds[w + 1].k = "CompleteTasks" /\ tx.cmds[w + 1].rows > 0
F14Effect(S, tx, w) ==
  IF IsF14(tx, w) /\ "F14" \in Known /\ NoteFinding("F14")
  THEN [S EXCEPT !.tasks = CompleteTasksOf(@, tx.cmds[w].id, tx.dt)] ELSE S

TxStep(S, tx, cd, sn, post) ==
  LET w == FirstWrite(tx.cmds) IN
  IF w = 0
  THEN \* read-only: a candidate linearization point of a request
       [S |-> S, cand |-> cd,
        snaps |-> IF tx.bg = "" THEN AddTo(sn, tx.o, [S |-> S, dt |-> tx.dt]) ELSE sn, drift |-> ""]
  ELSE LET prim == tx.cmds[w]
           fired == prim.rows > 0 IN
    IF tx.bg = ""
    THEN \* a request's write transaction
         IF ~ Has(reqs, tx.o)
         THEN [S |-> S, cand |-> cd, snaps |-> sn, drift |-> "unknown owner"]
         ELSE LET rq == reqs[tx.o] IN
           IF ~ fired
           THEN [S |-> F14Effect(S, tx, w), cand |-> cd,
                 snaps |-> AddTo(sn, tx.o, [S |-> S, dt |-> tx.dt]), drift |-> ""]
           ELSE IF rq.kind \in {"SearchPromises", "SearchSchedules"}
           THEN [S |-> IF prim.k = "UpdatePromise" THEN TimeoutP(S, prim.id, tx.dt) ELSE S,
                 cand |-> cd, snaps |-> sn, drift |-> ""]
           ELSE LET tau == DecisionTick(S, prim, tx.dt, rq.t, post)
                    o == IF rq.kind = "CreatePromiseAndTask"
                         THEN OpCreatePromiseAndTask2(S, rq.args, tau, TaskTick(S, prim, tau, rq.t, post))
                         ELSE Op(rq.kind, S, rq.args, tau)
                IN [S |-> o.db, cand |-> AddTo(cd, tx.o, [res |-> o.res, t |-> tau]), snaps |-> sn, drift |-> ""]
    ELSE \* a background coroutine's write transaction
      CASE tx.bg = "TimeoutPromises" ->
             [S |-> IF fired /\ prim.k = "UpdatePromise" THEN TimeoutP(S, prim.id, tx.dt)
                    ELSE F14Effect(S, tx, w),
              cand |-> cd, snaps |-> sn, drift |-> ""]
        [] tx.bg = "TimeoutLocks" ->
             [S |-> SweepLocks(S, tx.dt), cand |-> cd, snaps |-> sn, drift |-> ""]
        [] tx.bg = "SchedulePromises" ->
             LET us == {i \in DOMAIN tx.cmds : tx.cmds[i].k = "UpdateSchedule"} IN
             IF us = {}
             THEN [S |-> S, cand |-> cd, snaps |-> sn, drift |-> "schedule tx without UpdateSchedule"]
             ELSE LET u == tx.cmds[CHOOSE i \in us : TRUE] IN
               IF u.rows > 0
               THEN [S |-> LET tau == DecisionTick(S, prim, tx.dt, 0, post) IN
                           IF CanFire(S, u.id, tau) /\ S.schedules[u.id].next = u.last
                           THEN Fire(S, u.id, tau) ELSE S,
                     cand |-> cd, snaps |-> sn, drift |-> ""]
               ELSE \* the schedule was deleted / re-created meanwhile: the occurrence's
                    \* promise may still have been created; it is accepted as observed
                    LET pid == prim.id IN
                    [S |-> IF fired /\ ~ Has(S.promises, pid) /\ Has(post.promises, pid)
                           THEN [S EXCEPT !.promises = Put(@, pid, post.promises[pid]),
                                          !.porder = Append(@, pid),
                                          !.tasks = IF Has(post.tasks, InvokeTaskId(pid))
                                                       /\ ~ Has(S.tasks, InvokeTaskId(pid))
                                                    THEN Put(@, InvokeTaskId(pid), post.tasks[InvokeTaskId(pid)])
                                                    ELSE @]
                           ELSE S,
                     cand |-> cd, snaps |-> sn, drift |-> IF fired THEN "orphan firing" ELSE ""]
        [] tx.bg \in {"EnqueueTasks", "TimeoutTasks"} ->
             [S |-> SweepFold(S, tx.cmds, 1, tx, tx.bg), cand |-> cd, snaps |-> sn, drift |-> ""]
        [] OTHER -> [S |-> S, cand |-> cd, snaps |-> sn, drift |-> "unknown background kind"]

RECURSIVE FoldTxs(_, _, _, _, _, _, _)
FoldTxs(S, txs, i, cd, sn, post, drift) ==
  IF i > Len(txs) THEN [S |-> S, cand |-> cd, snaps |-> sn, drift |-> drift]
  ELSE LET st == TxStep(S, txs[i], cd, sn, post)
       IN FoldTxs(st.S, txs, i + 1, st.cand, st.snaps, post,
                  IF st.drift # "" /\ drift = "" THEN st.drift ELSE drift)

\* the claim step stores the attempt counter it read earlier; the counter is advisory and
\* outside every listed property, so task rows are compared modulo attempt when they
\* were claimed or swept in this commit
NormAttempt(S, obs) ==
  [S EXCEPT !.tasks = [x \in DOMAIN @ |->
      IF Has(obs.tasks, x) /\ @[x].state \in {T_CLAIMED, T_TIMEDOUT}
      THEN [@[x] EXCEPT !.attempt = obs.tasks[x].attempt] ELSE @[x]]]

DiffTables(E, O) == {tb \in Tables : E[tb] # O[tb]}

Owners(txs) == {IF txs[i].bg = "" THEN GetOr(reqs, txs[i].o, [kind |-> "?"]).kind ELSE txs[i].bg : i \in DOMAIN txs}
OwnerIds(txs) == {txs[i].o : i \in {j \in DOMAIN txs : txs[j].bg = ""}}

SetToStr(S) == ToString(S)

(***************************************************************************)
(* Events.                                                                 *)
(***************************************************************************)
Init ==
  /\ TLCSet(42, {})
  /\ l = 1 /\ db = EmptyDB /\ pdb = EmptyDB /\ exp = EmptyDB /\ now = 0
  /\ reqs = <<>> /\ cand = <<>> /\ snaps = <<>> /\ faulted = {} /\ sends = <<>>
  /\ lapsed = {} /\ claims = {} /\ seen = <<>> /\ cfg = <<>> /\ chk = NoChk

Consume == l <= Len(TraceLog) /\ l' = l + 1

EReset ==
  /\ Consume /\ Ev.e = "reset"
  /\ db' = EmptyDB /\ pdb' = EmptyDB /\ exp' = EmptyDB /\ now' = Ev.t
  /\ reqs' = <<>> /\ cand' = <<>> /\ snaps' = <<>> /\ faulted' = {} /\ sends' = <<>>
  /\ lapsed' = {} /\ claims' = {} /\ seen' = <<>> /\ cfg' = Ev.cfg /\ chk' = NoChk

ESubmit ==
  /\ Consume /\ Ev.e = "submit"
  /\ reqs' = Put(reqs, Ev.r, [kind |-> Ev.kind, args |-> Ev.args, t |-> Ev.t])
  /\ pdb' = db /\ chk' = NoChk
  /\ UNCHANGED <<db, exp, now, cand, snaps, faulted, sends, lapsed, claims, seen, cfg>>

ETick ==
  /\ Consume /\ Ev.e = "tick"
  /\ now' = Ev.t /\ lapsed' = lapsed \cup LapsedIn(db, Ev.t)
  /\ pdb' = db /\ chk' = NoChk
  /\ UNCHANGED <<db, exp, reqs, cand, snaps, faulted, sends, claims, seen, cfg>>

NewClaims(P, Q) ==
  {<<x, Q.tasks[x].counter>> : x \in {y \in DOMAIN Q.tasks :
      Q.tasks[y].state = T_CLAIMED /\ (~ Has(P.tasks, y) \/ P.tasks[y].state # T_CLAIMED
                                       \/ P.tasks[y].counter # Q.tasks[y].counter)}}

ECommit ==
  /\ Consume /\ Ev.e = "commit"
  /\ LET failedPre == Ev.fail = "pre" \/ Ev.err
         post == PostOf(Ev, db)
         f == IF failedPre THEN [S |-> db, cand |-> cand, snaps |-> snaps, drift |-> ""]
              ELSE FoldTxs(db, Ev.txs, 1, cand, snaps, post, "")
         E == NormAttempt(f.S, post)
     IN /\ exp' = E
        /\ db' = post /\ pdb' = db
        /\ cand' = f.cand /\ snaps' = f.snaps
        /\ faulted' = IF Ev.fail # "none" \/ Ev.err THEN faulted \cup OwnerIds(Ev.txs) ELSE faulted
        /\ lapsed' = lapsed \cup LapsedIn(post, now)
        /\ claims' = claims \cup NewClaims(db, post)
        /\ chk' = [NoChk EXCEPT !.tables = DiffTables(E, post),
                                !.who = ToString(Owners(Ev.txs)),
                                !.drift = f.drift,
                                !.dup = NewClaims(db, post) \cap claims]
  /\ UNCHANGED <<now, reqs, sends, seen, cfg>>

\* promise bodies carried by a response
BodiesOf(kind, b) ==
  CASE kind \in {"ReadPromise", "CreatePromise", "CompletePromise", "CreatePromiseAndTask",
                 "CreateCallback", "CreateSubscription"} -> Range(b.promise)
    [] kind = "ClaimTask" -> Range(b.root) \cup Range(b.leaf)
    [] kind = "SearchPromises" -> Range(b.promises)
    [] OTHER -> {}

\* The clock readings tau at which body is the level-A answer of request rq at one of its
\* linearization points (empty set: the reply is not linearizable).
LinTicks(r, rq, body, t) ==
  IF rq.kind = "ClaimTask"
  THEN LET core(b) == [status |-> b.status, task |-> b.task] IN
       {c.t : c \in {c \in GetOr(cand, r, {}) :
                 /\ body.status = CREATED /\ c.res = core(body) /\ IsSome(body.task)
                 /\ \E s \in GetOr(snaps, r, {}) :
                       LET cr == ClaimRead(s.S, The(body.task))
                       IN cr.root = body.root /\ cr.leaf = body.leaf}}
       \cup
       {tt \in UNION {{s.dt, t} : s \in GetOr(snaps, r, {})} :
           /\ body.status # CREATED
           /\ \E s \in GetOr(snaps, r, {}) : tt \in {s.dt, t} /\
                 LET o == OpClaimTask(s.S, rq.args, tt) IN o.db = s.S /\ o.res = core(body)}
  ELSE {c.t : c \in {c \in GetOr(cand, r, {}) : c.res = body}}
       \cup
       \* a request answered without touching the store: any instant will do
       (IF ~ Has(cand, r) /\ ~ Has(snaps, r)
        THEN {tt \in {t} : LET o == Op(rq.kind, db, rq.args, tt) IN o.db = db /\ o.res = body}
        ELSE {})
       \cup
       {tt \in UNION {{s.dt, t} : s \in GetOr(snaps, r, {})} :
           \E s \in GetOr(snaps, r, {}) : tt \in {s.dt, t} /\
              LET o == Op(rq.kind, s.S, rq.args, tt) IN o.db = s.S /\ o.res = body}

FaultStatuses == {STORE_ERROR}

ERespond ==
  /\ Consume /\ Ev.e = "respond"
  /\ LET rq == reqs[Ev.r]
         ticks == IF rq.kind \in {"SearchPromises", "SearchSchedules"} THEN {Ev.t}
                  ELSE IF Ev.err /\ Ev.body.status \in FaultStatuses /\ Ev.r \in faulted THEN {Ev.t}
                  ELSE LinTicks(Ev.r, rq, Ev.body, Ev.t)
         lin == ticks # {}
         bodies == BodiesOf(rq.kind, Ev.body)
         finals == {b \in bodies : b.state \in TerminalStates}
     IN /\ chk' = [NoChk EXCEPT !.resp = IF lin /\ Ev.n = 1 THEN "" ELSE rq.kind,
                                !.who = rq.kind, !.lint = ticks,
                                !.why = IF Ev.n # 1 THEN "second reply" ELSE ""]
        /\ seen' = [id \in (DOMAIN seen) \cup {b.id : b \in finals} |->
                      IF id \in DOMAIN seen THEN seen[id]
                      ELSE Final(CHOOSE b \in finals : b.id = id)]
  /\ pdb' = db
  /\ UNCHANGED <<db, exp, now, reqs, cand, snaps, faulted, sends, lapsed, claims, cfg>>

ESend ==
  /\ Consume /\ Ev.e = "send"
  /\ sends' = Put(sends, <<Ev.task, Ev.counter>>, [dt |-> Ev.dt, outcome |-> Ev.outcome, t |-> Ev.t])
  /\ pdb' = db /\ chk' = NoChk
  /\ UNCHANGED <<db, exp, now, reqs, cand, snaps, faulted, lapsed, claims, seen, cfg>>

ERoute ==
  /\ Consume /\ Ev.e = "route"
  /\ pdb' = db /\ chk' = NoChk
  /\ UNCHANGED <<db, exp, now, reqs, cand, snaps, faulted, sends, lapsed, claims, seen, cfg>>

\* the process dies: in-flight requests lose their responses, the database stays
ECrash ==
  /\ Consume /\ Ev.e = "crash"
  /\ pdb' = db /\ chk' = NoChk
  /\ UNCHANGED <<db, exp, now, reqs, cand, snaps, faulted, sends, lapsed, claims, seen, cfg>>

\* restart / end / observe carry a fresh projection: it must be the database we know
EObserve ==
  /\ Consume /\ Ev.e \in {"restart", "end", "observe"}
  /\ pdb' = db /\ db' = PostOf(Ev, db) /\ exp' = db
  /\ chk' = [NoChk EXCEPT !.tables = DiffTables(db, PostOf(Ev, db)), !.who = Ev.e]
  /\ UNCHANGED <<now, reqs, cand, snaps, faulted, sends, lapsed, claims, seen, cfg>>

EOther ==
  /\ Consume /\ Ev.e \notin {"reset", "submit", "tick", "commit", "respond", "send", "route", "crash",
                            "restart", "end", "observe"}
  /\ pdb' = db /\ chk' = NoChk
  /\ UNCHANGED <<db, exp, now, reqs, cand, snaps, faulted, sends, lapsed, claims, seen, cfg>>

Next == EReset \/ ESubmit \/ ETick \/ ECommit \/ ERespond \/ ESend \/ ERoute \/ ECrash \/ EObserve \/ EOther

Spec == Init /\ [][Next]_vars

(***************************************************************************)
(* Acceptance: the whole trace was consumed.                               *)
(***************************************************************************)
TraceAccepted ==
  LET d == TLCGet("stats").diameter IN
  IF d - 1 = Len(TraceLog) THEN PrintT(<<"KNOWN-FINDINGS-SEEN", TLCGet(42)>>)
  ELSE Print(<<"TRACE NOT CONSUMED", d - 1, Len(TraceLog)>>, FALSE)

\* what TLC prints for a state of an error trace
Alias == [l |-> l, now |-> now, chk |-> chk,
          event |-> IF l > 1 /\ l - 1 <= Len(TraceLog) THEN [e |-> Last.e, t |-> Last.t] ELSE [e |-> "init", t |-> 0]]

(***************************************************************************)
(* Named properties (state invariants; a "step" is the last event).        *)
(***************************************************************************)
IsCommit == Last.e = "commit"
IsRespond == Last.e = "respond"
IsStep == Last.e \in {"commit", "restart", "end", "observe"}

\* --- C02
C02_EveryChangeIsAnOp == IsStep => chk.tables = {}
C02_ResponseIsLinearizable == IsRespond => chk.resp = ""
NoDrift == chk.drift \in {"", "orphan firing"}

\* --- C01
RespBodies == IF IsRespond THEN BodiesOf(reqs[Last.r].kind, Last.body) ELSE {}
SendBodies == IF Last.e = "send" THEN Range(Last.promise) ELSE {}
C01_WriteOnceT == IsStep => C01_WriteOnce(pdb, db)
C01_PendingLeavesOnceT == IsStep => C01_PendingLeavesOnce(pdb, db)
C01_CreationImmutableT == IsStep => C01_CreationImmutable(pdb, db)
C01_NeverDisappearsT == IsStep => C01_NeverDisappears(pdb, db)
C01_BornPendingT == IsStep => C01_BornPending(pdb, db)
C01_ObservationsAgree ==
  \A b \in RespBodies \cup SendBodies :
     /\ C01_BodyAgrees(db, b)
     /\ (b.id \in DOMAIN seen /\ b.state \in TerminalStates) => Final(b) = seen[b.id]
     /\ b.id \in DOMAIN seen => b.state \in TerminalStates

\* --- C03 (the decision tables are inside the level-A operators; here: the commits and
\*     replies of create / complete requests)
CreateCompleteKinds == {"CreatePromise", "CreatePromiseAndTask", "CompletePromise"}
C03_RepeatChangesNothing ==
  (IsCommit /\ \E i \in DOMAIN Last.txs : Last.txs[i].bg = "" /\ Has(reqs, Last.txs[i].o)
                                         /\ reqs[Last.txs[i].o].kind \in CreateCompleteKinds)
     => chk.tables \cap {"promises", "porder", "tasks", "callbacks"} = {}
C03_StatusTable == (IsRespond /\ reqs[Last.r].kind \in CreateCompleteKinds) => chk.resp = ""

\* --- C04
TimedKinds == {"ReadPromise", "CreatePromise", "CreatePromiseAndTask", "CompletePromise", "SearchPromises"}
\* the clock reading that counts is the one of the linearization point of the reply
\* Known finding F3: a promise created with a timeout that is already in the past is
\* stored and reported as pending by the create request itself.
Dev_F3(b) == Last.body.status = CREATED /\ b.timeout <= b.createdOn
C04_NoPendingAfterDeadline ==
  (IsRespond /\ reqs[Last.r].kind \in TimedKinds /\ chk.lint # {}) =>
     \A b \in RespBodies :
        \/ \E tau \in chk.lint : C04_NotPendingAfterDeadline(b, tau)
        \/ "F3" \in Known /\ Dev_F3(b) /\ NoteFinding("F3")
C04_NoTimeoutBeforeDeadlineT == IsStep => C04_NoTimeoutBeforeDeadline(db, now)
C04_CompletionShapeT == IsStep => C04_CompletionShape(pdb, db)

\* --- C05
C05_NoOrphanRegistrationT == C05_NoOrphanRegistration(db)
C05_RegistrationsConvertedT == IsStep => C05_RegistrationsConverted(pdb, db)
C05_NoneLeftBehindT == IsStep => C05_NoneLeftBehind(pdb, db)
C05_ConvertedTaskIsLiveT == IsStep => C05_ConvertedTaskIsLive(pdb, db)
C05_AckMeansRegisteredOrCompletedT ==
  (IsRespond /\ reqs[Last.r].kind \in {"CreateCallback", "CreateSubscription"}
   /\ Last.body.status \in {OK, CREATED} /\ IsSome(Last.body.promise)) =>
     LET a == reqs[Last.r].args
         cbid == IF reqs[Last.r].kind = "CreateCallback" THEN CallbackId(a.rootId, a.promiseId)
                 ELSE SubscriptionId(a.promiseId, a.id)
     IN C05_AckMeansRegisteredOrCompleted(db, The(Last.body.promise), cbid)

\* --- C07
C07_CountersNeverDecreaseT == IsStep => C07_CountersNeverDecrease(pdb, db)
C07_FinishedIsAbsorbingT == IsStep => C07_FinishedIsAbsorbing(pdb, db)
C07_TasksNeverDisappearT == IsStep => C07_TasksNeverDisappear(pdb, db)
C07_ClaimGuardT == IsStep => C07_ClaimGuard(pdb, db)
C07_LeaseHonouredT == IsStep => C07_LeaseHonoured(pdb, db, lapsed)
C07_FencingOnReclaimT == IsStep => C07_FencingOnReclaim(pdb, db)
\* no pair <<task, counter>> is claimed twice: a successful claim reply names a pair that
\* no earlier successful claim reply named
C07_OneClaimPerCounter == IsCommit => chk.dup = {}

\* --- C08
C08_RoutedHasTaskT == IsStep => C08_RoutedHasTask(pdb, db)
C08_FinishedWithPromiseT == IsStep => C08_FinishedWithPromise(pdb, db)
C08_NoActiveInvokeOfCompletedT == C08_NoActiveInvokeOfCompleted(db)
C08_DispatchSelectionT == Last.e = "send" => C08_DispatchSelection(db, Last.task, Last.counter)

\* --- C09
C09_LockTables == IsStep => chk.tables \cap {"locks"} = {}

\* --- C10
C10_AdvancesByOneT == IsStep => C10_AdvancesByOne(pdb, db)
C10_NotEarlyT == IsStep => C10_NotEarly(pdb, db, now)
C10_FiringCreatesPromiseT == IsStep => C10_FiringCreatesPromise(pdb, db)
C10_NextAfterCreationT == C10_NextAfterCreation(db)
=============================================================================
