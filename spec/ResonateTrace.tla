--------------------------- MODULE ResonateTrace ---------------------------
(***************************************************************************)
(* Trace validation: a recorded execution of the REAL server (harness      *)
(* ksim / procx) is checked, event by event, against level A.              *)
(*                                                                         *)
(* The trace is ndjson; every line is one event (see DESIGN.md appendix B).*)
(* The specification is deterministic in the logged data, so validation    *)
(* is linear in the trace length.                                          *)
(*                                                                         *)
(*  db     the observed database (the projection logged after each commit) *)
(*  pdb    the database before the last event (so that step properties are *)
(*         state invariants)                                               *)
(*  exp    the database level A expects after the last commit: the fold    *)
(*         over the transactions of the batch of "no-op, or the level-A    *)
(*         effect of the owner of the transaction at its decision tick"    *)
(*  cand   per request, the level-A results at its effectful commits       *)
(*  snaps  per request, the states at its effect-free commits (the other   *)
(*         candidate linearization points)                                 *)
(***************************************************************************)
EXTENDS Props, Json

CONSTANT TraceFile
CONSTANT Known      \* names of the known findings (known_findings.json, status "known")
TraceLog == ndJsonDeserialize(TraceFile)

\* concretisations used by the harness (substituted for Resonate's constants in the cfg)
TraceCronPeriod(c) ==
  CASE c = "* * * * * *" -> 1000 [] c = "*/2 * * * * *" -> 2000 [] c = "*/3 * * * * *" -> 3000
    [] c = "*/5 * * * * *" -> 5000 [] OTHER -> 1000
TraceExpand(tpl, sid, ts) ==
  CASE tpl = "{{.id}}.{{.timestamp}}" -> sid \o "." \o ToString(ts)
    [] tpl = "{{.timestamp}}" -> ToString(ts)
    [] OTHER -> tpl

VARIABLES l,        \* next line to consume
          db, pdb, exp, now,
          reqs,     \* request id -> [kind, args, t]
          cand,     \* request id -> set of level-A responses
          snaps,    \* request id -> set of [S, dt]
          faulted,  \* requests that were told of a store failure
          sends,    \* <<task, counter>> -> [dt, outcome] of the last hand-off
          lapsed,   \* set of <<task, counter>> whose lease/time-out was reached
          plapsed,  \* lapsed before the last event
          claims,   \* set of <<task, counter>> that entered CLAIMED
          seen,     \* promise id -> first terminal Final() observed in a reply
          cfg,      \* configuration of the run
          path,     \* the states the last event went through: <<pdb, db>>, or for a commit
                    \* that level A explains, the database after each transaction of the batch
          cyc,      \* background instance id -> roots it has dispatched (C08: one per root)
          q0,       \* [t, db] when the clients stopped ("quiesce" event), for C11
          rerr,     \* owners (request ids) whose router consultation failed
          idc,      \* id -> its sequence of characters ("chars" events), for search patterns
          trav,     \* search traversal -> [args, ids returned so far, always: ids that matched at
                    \* every state since the first page, done]
          chk       \* verdicts about the last event (see Check*)

vars == <<l, db, pdb, exp, now, reqs, cand, snaps, faulted, sends, lapsed, plapsed, claims, seen, cfg, path, cyc, q0, rerr, idc, trav, chk>>

NoChk == [tables |-> {}, who |-> "", owners |-> {}, resp |-> "", why |-> "", drift |-> "", dup |-> {}, lint |-> {},
          dupRoot |-> FALSE, travDup |-> FALSE, travMissing |-> {}, cursor |-> TRUE]

\* known findings met during validation are collected in TLC register 42 and printed
\* by the postcondition (the check turns them into KNOWN-FINDING lines)
NoteFinding(name) == TLCSet(42, TLCGet(42) \cup {name})

Ev == TraceLog[l]
\* the projection carried by an event ("same": the database is unchanged)
PostOf(ev, cur) == IF ev.same THEN cur ELSE ev.post
Last == IF l > 1 THEN TraceLog[l - 1] ELSE [e |-> "none"]

ReadKinds == {"ReadPromise", "ReadPromises", "SearchPromises", "ReadSchedule", "ReadSchedules",
              "SearchSchedules", "ReadTask", "ReadTasks", "ReadEnqueueableTasks", "ReadLock"}

Tables == {"promises", "porder", "callbacks", "tasks", "locks", "schedules", "sorder"}

\* index of the first write command of a transaction, 0 if it only reads
FirstWrite(cmds) ==
  LET ws == {i \in DOMAIN cmds : cmds[i].k \notin ReadKinds}
  IN IF ws = {} THEN 0 ELSE CHOOSE i \in ws : \A j \in ws : i <= j

GetOr(f, k, d) == IF k \in DOMAIN f THEN f[k] ELSE d
AddTo(f, k, x) == Put(f, k, GetOr(f, k, {}) \cup {x})

(***************************************************************************)
(* The lease bookkeeping for C07: pairs whose lease or time-out has been   *)
(* reached at clock t in database S.                                       *)
(***************************************************************************)
LapsedIn(S, t) ==
  {<<x, S.tasks[x].counter>> : x \in ExpirableTasks(S, TaskBusy, t)}
RECURSIVE LapsedAlong(_, _, _, _)
LapsedAlong(lp, pth, i, t) ==
  IF i >= Len(pth) THEN lp ELSE LapsedAlong(NextLapsed(lp, pth[i], pth[i + 1], t), pth, i + 1, t)

(***************************************************************************)
(* One transaction of a commit, folded at level A.                         *)
(* Returns [S, cand, snaps, drift].                                        *)
(***************************************************************************)
\* fold of the UpdateTask commands of a background sweep
RECURSIVE SweepFold(_, _, _, _, _)
SweepFold(S, cmds, i, tx, bg) ==
  IF i > Len(cmds) THEN S
  ELSE LET c == cmds[i]
           S2 == IF c.k # "UpdateTask" \/ c.rows <= 0 \/ ~ Has(S.tasks, c.id) THEN S
                 ELSE LET x == c.id
                          key == <<x, S.tasks[x].counter>> IN
                   IF bg = "TimeoutTasks"
                   THEN LET restarted == S.tasks[x].state = T_CLAIMED
                                          /\ (~ Has(db.tasks, x) \/ db.tasks[x].state # T_CLAIMED)
                            due == IF restarted THEN key \in LapsedAt(S, now)
                                   ELSE key \in lapsed \cup LapsedAt(S, now)
                        IN IF S.tasks[x].state \in TaskBusy /\ due
                           THEN ExpireTask(S, x, tx.dt) ELSE S
                   ELSE \* EnqueueTasks
                        IF S.tasks[x].state # T_INIT THEN S
                        ELSE IF key \in DOMAIN sends /\ sends[key].o = tx.o   \* a hand-off of this very cycle
                        THEN Dispatch(S, x, IF sends[key].outcome = "ok" THEN "ok" ELSE "fail",
                                      cfg.taskEnqueueDelay, sends[key].dt)
                        ELSE IF tx.dt >= S.tasks[x].timeout
                        THEN Dispatch(S, x, "fail", cfg.taskEnqueueDelay, S.tasks[x].timeout)
                        ELSE S
       IN SweepFold(S2, cmds, i + 1, tx, bg)

\* The clock reading a write was decided with.  Every write transaction is yielded in the
\* same resume that decided it (so it is the dispatch tick dt), except promise creation:
\* the command is built, then the router is consulted, then the transaction is yielded,
\* so the creation time is an earlier tick.  It is recovered from the written row and must
\* lie between the submission of the request and the dispatch of the transaction.
DecisionTick(S, prim, dt, lo, post) ==
  IF prim.k \in {"CreatePromise", "CreatePromiseAndTask"}
     /\ ~ Has(S.promises, prim.id) /\ Has(post.promises, prim.id)
     /\ post.promises[prim.id].createdOn >= lo /\ post.promises[prim.id].createdOn <= dt
  THEN post.promises[prim.id].createdOn ELSE dt

TaskTick(S, prim, tau, lo, post) ==
  LET x == InvokeTaskId(prim.id) IN
  IF ~ Has(S.tasks, x) /\ Has(post.tasks, x) /\ IsSome(post.tasks[x].createdOn)
     /\ The(post.tasks[x].createdOn) >= lo /\ The(post.tasks[x].createdOn) <= tau
  THEN The(post.tasks[x].createdOn) ELSE tau

\* Known finding F14: the completion transaction [UpdatePromise, CompleteTasks, CreateTasks,
\* DeleteCallbacks] runs its CompleteTasks also when the UpdatePromise lost the race (0
\* rows): tasks rooted at the already completed promise (the notify / resume tasks the
\* conversion has just created) are finished without ever being handed off.
IsF14(tx, w) ==
  /\ tx.cmds[w].k = "UpdatePromise" /\ tx.cmds[w].rows = 0
  /\ w + 1 <= Len(tx.cmds) /\ tx.cmds[w + 1].k = "CompleteTasks" /\ tx.cmds[w + 1].rows > 0
F14Effect(S, tx, w) ==
  IF IsF14(tx, w) /\ "F14" \in Known /\ NoteFinding("F14")
  THEN [S EXCEPT !.tasks = CompleteTasksOf(@, tx.cmds[w].id, tx.dt)] ELSE S

\* Known finding F13: when the router consultation of a plain create fails (queue full,
\* injected failure) the error is only logged and the routed promise is inserted WITHOUT
\* its invoke task.
IsF13(S, tx, prim, rq) ==
  /\ rq.kind = "CreatePromise" /\ prim.k = "CreatePromise" /\ tx.o \in rerr
  /\ Routed(rq.args.tags) /\ ~ Has(S.promises, rq.args.id)

TxStep(S, tx, cd, sn, post) ==
  LET w == FirstWrite(tx.cmds) IN
  IF w = 0
  THEN \* read-only: a candidate linearization point of a request
       [S |-> S, cand |-> cd,
        snaps |-> IF tx.bg = "" THEN AddTo(sn, tx.o, [S |-> S, dt |-> tx.dt, ro |-> TRUE]) ELSE sn, drift |-> ""]
  ELSE LET prim == tx.cmds[w]
           fired == prim.rows > 0 IN
    IF tx.bg = ""
    THEN \* a request's write transaction
         IF ~ Has(reqs, tx.o)
         THEN [S |-> S, cand |-> cd, snaps |-> sn, drift |-> "unknown owner"]
         ELSE LET rq == reqs[tx.o] IN
           IF ~ fired
           THEN [S |-> F14Effect(S, tx, w), cand |-> cd,
                 snaps |-> AddTo(sn, tx.o, [S |-> S, dt |-> tx.dt, ro |-> FALSE]), drift |-> ""]
           ELSE IF rq.kind \in {"SearchPromises", "SearchSchedules"}
           THEN [S |-> IF prim.k = "UpdatePromise" THEN TimeoutP(S, prim.id, tx.dt) ELSE S,
                 cand |-> cd, snaps |-> sn, drift |-> ""]
           ELSE IF IsF13(S, tx, prim, rq) /\ "F13" \in Known /\ NoteFinding("F13")
           THEN LET tau == DecisionTick(S, prim, tx.dt, rq.t, post)
                    S2 == Apply(S, PromiseCmd(rq.args, tau))
                IN [S |-> S2,
                    cand |-> AddTo(cd, tx.o, [res |-> [status |-> CREATED, promise |-> Some(PBody(S2, rq.args.id))],
                                              t |-> tau]),
                    snaps |-> sn, drift |-> ""]
           ELSE LET tau == DecisionTick(S, prim, tx.dt, rq.t, post)
                    o == IF rq.kind = "CreatePromiseAndTask"
                         THEN OpCreatePromiseAndTask2(S, rq.args, tau, TaskTick(S, prim, tau, rq.t, post))
                         ELSE Op(rq.kind, S, rq.args, tau)
                IN [S |-> o.db, cand |-> AddTo(cd, tx.o, [res |-> o.res, t |-> tau]), snaps |-> sn, drift |-> ""]
    ELSE \* a background coroutine's write transaction
      CASE tx.bg = "TimeoutPromises" ->
             [S |-> IF fired /\ prim.k = "UpdatePromise" THEN TimeoutP(S, prim.id, tx.dt)
                    ELSE F14Effect(S, tx, w),
              cand |-> cd, snaps |-> sn, drift |-> ""]
        [] tx.bg = "TimeoutLocks" ->
             [S |-> SweepLocks(S, tx.dt), cand |-> cd, snaps |-> sn, drift |-> ""]
        [] tx.bg = "SchedulePromises" ->
             LET us == {i \in DOMAIN tx.cmds : tx.cmds[i].k = "UpdateSchedule"} IN
             IF us = {}
             THEN [S |-> S, cand |-> cd, snaps |-> sn, drift |-> "schedule tx without UpdateSchedule"]
             ELSE LET u == tx.cmds[CHOOSE i \in us : TRUE] IN
               IF u.rows > 0
               THEN [S |-> LET tau == DecisionTick(S, prim, tx.dt, 0, post) IN
                           IF CanFire(S, u.id, tau) /\ S.schedules[u.id].next = u.last
                           THEN Fire(S, u.id, tau) ELSE S,
                     cand |-> cd, snaps |-> sn, drift |-> ""]
               ELSE \* the schedule was deleted / re-created meanwhile: the occurrence's
                    \* promise may still have been created; it is accepted as observed
                    LET pid == prim.id IN
                    [S |-> IF fired /\ ~ Has(S.promises, pid) /\ Has(post.promises, pid)
                           THEN [S EXCEPT !.promises = Put(@, pid, post.promises[pid]),
                                          !.porder = Append(@, pid),
                                          !.tasks = IF Has(post.tasks, InvokeTaskId(pid))
                                                       /\ ~ Has(S.tasks, InvokeTaskId(pid))
                                                    THEN Put(@, InvokeTaskId(pid), post.tasks[InvokeTaskId(pid)])
                                                    ELSE @]
                           ELSE S,
                     cand |-> cd, snaps |-> sn, drift |-> IF fired THEN "orphan firing" ELSE ""]
        [] tx.bg \in {"EnqueueTasks", "TimeoutTasks"} ->
             [S |-> SweepFold(S, tx.cmds, 1, tx, tx.bg), cand |-> cd, snaps |-> sn, drift |-> ""]
        [] OTHER -> [S |-> S, cand |-> cd, snaps |-> sn, drift |-> "unknown background kind"]

RECURSIVE FoldTxs(_, _, _, _, _, _, _, _)
FoldTxs(S, txs, i, cd, sn, post, drift, pth) ==
  IF i > Len(txs) THEN [S |-> S, cand |-> cd, snaps |-> sn, drift |-> drift, path |-> pth]
  ELSE LET st == TxStep(S, txs[i], cd, sn, post)
       IN FoldTxs(st.S, txs, i + 1, st.cand, st.snaps, post,
                  IF st.drift # "" /\ drift = "" THEN st.drift ELSE drift,
                  IF st.S = S THEN pth ELSE Append(pth, st.S))

\* the claim step stores the attempt counter it read earlier (it may have read it before a failed hand-off of the same
\* batch raised it, and a completion of the same batch may follow); the counter is advisory and outside every listed
\* property, so task rows are compared modulo attempt
NormAttempt(S, obs) ==
  [S EXCEPT !.tasks = [x \in DOMAIN @ |->
      IF Has(obs.tasks, x) THEN [@[x] EXCEPT !.attempt = obs.tasks[x].attempt] ELSE @[x]]]

DiffTables(E, O) == {tb \in Tables : E[tb] # O[tb]}

Owners(txs) == {IF txs[i].bg = "" THEN GetOr(reqs, txs[i].o, [kind |-> "?"]).kind ELSE txs[i].bg : i \in DOMAIN txs}
OwnerIds(txs) == {txs[i].o : i \in {j \in DOMAIN txs : txs[j].bg = ""}}

SetToStr(S) == ToString(S)

(***************************************************************************)
(* Events.                                                                 *)
(***************************************************************************)
Init ==
  /\ TLCSet(42, {})
  /\ l = 1 /\ db = EmptyDB /\ pdb = EmptyDB /\ exp = EmptyDB /\ now = 0
  /\ reqs = <<>> /\ cand = <<>> /\ snaps = <<>> /\ faulted = {} /\ sends = <<>>
  /\ lapsed = {} /\ plapsed = {} /\ claims = {} /\ seen = <<>> /\ cfg = <<>> /\ chk = NoChk
  /\ path = <<EmptyDB>> /\ cyc = <<>> /\ q0 = [t |-> -1, db |-> EmptyDB, short |-> FALSE] /\ rerr = {} /\ idc = <<>> /\ trav = <<>>

Consume == l <= Len(TraceLog) /\ l' = l + 1

EReset ==
  /\ Consume /\ Ev.e = "reset"
  /\ db' = EmptyDB /\ pdb' = EmptyDB /\ exp' = EmptyDB /\ now' = Ev.t
  /\ reqs' = <<>> /\ cand' = <<>> /\ snaps' = <<>> /\ faulted' = {} /\ sends' = <<>>
  /\ lapsed' = {} /\ plapsed' = {} /\ claims' = {} /\ seen' = <<>> /\ cfg' = Ev.cfg /\ chk' = NoChk
  /\ path' = <<EmptyDB>> /\ cyc' = <<>> /\ q0' = [t |-> -1, db |-> EmptyDB, short |-> FALSE] /\ rerr' = {} /\ idc' = <<>> /\ trav' = <<>>

ESubmit ==
  /\ Consume /\ Ev.e = "submit"
  /\ reqs' = Put(reqs, Ev.r, [kind |-> Ev.kind, args |-> Ev.args, t |-> Ev.t, l |-> l, trav |-> Ev.trav, page |-> Ev.page, born |-> Ev.born])
  /\ pdb' = db /\ chk' = NoChk /\ path' = <<db>>
  /\ UNCHANGED <<db, exp, now, cand, snaps, faulted, sends, lapsed, plapsed, claims, seen, cfg, cyc, q0, rerr, idc, trav>>

ETick ==
  /\ Consume /\ Ev.e = "tick"
  /\ now' = Ev.t /\ lapsed' = lapsed \cup LapsedIn(db, Ev.t) /\ plapsed' = lapsed
  /\ pdb' = db /\ chk' = NoChk /\ path' = <<db>>
  /\ UNCHANGED <<db, exp, reqs, cand, snaps, faulted, sends, claims, seen, cfg, cyc, q0, rerr, idc, trav>>

NewClaims(P, Q) ==
  {<<x, Q.tasks[x].counter>> : x \in {y \in DOMAIN Q.tasks :
      Q.tasks[y].state = T_CLAIMED /\ (~ Has(P.tasks, y) \/ P.tasks[y].state # T_CLAIMED
                                       \/ P.tasks[y].counter # Q.tasks[y].counter)}}

ECommit ==
  /\ Consume /\ Ev.e = "commit"
  /\ LET failedPre == Ev.fail = "pre" \/ Ev.err   \* (a "busy" commit is an ordinary store error: err)
         post == PostOf(Ev, db)
         f == IF failedPre THEN [S |-> db, cand |-> cand, snaps |-> snaps, drift |-> "", path |-> <<db>>]
              ELSE FoldTxs(db, Ev.txs, 1, cand, snaps, post, "", <<db>>)
         E == NormAttempt(f.S, post)
     IN /\ exp' = E
        /\ db' = post /\ pdb' = db
        /\ cand' = f.cand /\ snaps' = f.snaps
        /\ faulted' = IF Ev.fail # "none" \/ Ev.err THEN faulted \cup OwnerIds(Ev.txs) ELSE faulted
        /\ plapsed' = lapsed
        /\ lapsed' = LapsedAlong(lapsed, IF DiffTables(E, post) = {} /\ Len(f.path) >= 2 THEN Append(SubSeq(f.path, 1, Len(f.path) - 1), post) ELSE <<db, post>>, 1, now)
        /\ claims' = claims \cup NewClaims(db, post)
        /\ path' = IF DiffTables(E, post) = {} /\ Len(f.path) >= 2
                    THEN [i \in DOMAIN f.path |-> IF i = Len(f.path) THEN post ELSE f.path[i]]
                    ELSE <<db, post>>
        /\ chk' = [NoChk EXCEPT !.tables = DiffTables(E, post),
                                !.who = ToString(Owners(Ev.txs)), !.owners = Owners(Ev.txs),
                                !.drift = f.drift,
                                !.dup = NewClaims(db, post) \cap claims]
        /\ trav' = [x \in DOMAIN trav |->
                      IF trav[x].done \/ trav[x].kind # "SearchPromises" THEN trav[x]
                      ELSE [trav[x] EXCEPT !.always = @ \cap PromiseMatchSet(post, trav[x].args, idc)]]
  /\ UNCHANGED <<now, reqs, sends, seen, cfg, cyc, q0, rerr, idc>>

\* promise bodies carried by a response
BodiesOf(kind, b) ==
  CASE kind \in {"ReadPromise", "CreatePromise", "CompletePromise", "CreatePromiseAndTask",
                 "CreateCallback", "CreateSubscription"} -> Range(b.promise)
    [] kind = "ClaimTask" -> Range(b.root) \cup Range(b.leaf)
    [] kind = "SearchPromises" -> Range(b.promises)
    [] OTHER -> {}

\* The clock readings tau at which body is the level-A answer of request rq at one of its
\* linearization points (empty set: the reply is not linearizable).
\* What a coroutine does with the result of a READ it decides at the tick at which it is resumed
\* with it; when that is a reply, the reply tick t.  A guarded write that affected nothing was
\* decided when it was yielded (dt).
Ticks(s, t) == IF s.ro THEN {t} ELSE {s.dt, t}
SearchTicks(r, rq, body, t) ==
  IF rq.kind = "SearchPromises"
  THEN {tt \in UNION {Ticks(s, t) : s \in GetOr(snaps, r, {})} :
          \E s \in GetOr(snaps, r, {}) : tt \in Ticks(s, t)
             /\ CursorStart(s.S.porder, rq.args.cursor) >= 0
             /\ SearchOverdueHits(s.S, rq.args, idc, tt) = {}
             /\ SearchPromisesRes(s.S, rq.args, idc) = body}
  ELSE {tt \in UNION {Ticks(s, t) : s \in GetOr(snaps, r, {})} :
          \E s \in GetOr(snaps, r, {}) : tt \in Ticks(s, t) /\
             \/ CursorStart(s.S.sorder, rq.args.cursor) < 0
             \* (the cursor names a sort id; the schedule of that name was deleted and created again: another row)
             \/ IsSome(rq.args.cursor) /\ s.S.schedules[The(rq.args.cursor)].createdOn # rq.born
             \/ LET ids == SearchSchedulesIds(s.S, rq.args, idc) IN
                /\ body.status = OK
                /\ [i \in DOMAIN body.schedules |-> body.schedules[i].id] = ids
                /\ body.cursor = (IF Len(ids) = rq.args.limit THEN Some(ids[Len(ids)]) ELSE None)
                /\ \A i \in DOMAIN ids : LET row == s.S.schedules[ids[i]]  b == body.schedules[i] IN
                      /\ b.cron = row.cron /\ b.tags = row.tags /\ b.last = row.last /\ b.next = row.next
                      /\ b.ikey = row.ikey /\ b.createdOn = row.createdOn}

LinTicks(r, rq, body, t) ==
  IF rq.kind \in {"SearchPromises", "SearchSchedules"} THEN SearchTicks(r, rq, body, t)
  ELSE IF rq.kind = "ClaimTask"
  THEN LET \* the attempt counter is advisory: the claim writes back the value it read earlier
           core(b) == [status |-> b.status,
                       task |-> IF IsSome(b.task) THEN Some([The(b.task) EXCEPT !.attempt = 0]) ELSE None] IN
       {c.t : c \in {c \in GetOr(cand, r, {}) :
                 /\ body.status = CREATED /\ core(c.res) = core(body) /\ IsSome(body.task)
                 /\ \E s \in GetOr(snaps, r, {}) :
                       LET cr == ClaimRead(s.S, The(body.task))
                       IN cr.root = body.root /\ cr.leaf = body.leaf}}
       \cup
       {tt \in UNION {Ticks(s, t) : s \in GetOr(snaps, r, {})} :
           /\ body.status # CREATED
           /\ \E s \in GetOr(snaps, r, {}) : tt \in Ticks(s, t) /\
                 LET o == OpClaimTask(s.S, rq.args, tt) IN o.db = s.S /\ core(o.res) = core(body)}
  ELSE {c.t : c \in {c \in GetOr(cand, r, {}) : c.res = body}}
       \cup
       \* a request answered without touching the store: any instant will do
       (IF ~ Has(cand, r) /\ ~ Has(snaps, r)
        THEN {tt \in {t} : LET o == Op(rq.kind, db, rq.args, tt) IN o.db = db /\ o.res = body}
        ELSE {})
       \cup
       \* a request that has had its effect is answered from it: a later look at the database (for
       \* example a retry that re-reads its own write) is not a linearization point any more
       (IF Has(cand, r) THEN {}
        ELSE {tt \in UNION {Ticks(s, t) : s \in GetOr(snaps, r, {})} :
                \E s \in GetOr(snaps, r, {}) : tt \in Ticks(s, t) /\
                   LET o == Op(rq.kind, s.S, rq.args, tt) IN o.db = s.S /\ o.res = body})

FaultStatuses == {STORE_ERROR}

ERespond ==
  /\ Consume /\ Ev.e = "respond"
  /\ LET rq == reqs[Ev.r]
         ticks == IF Ev.err /\ Ev.body.status \in FaultStatuses /\ Ev.r \in faulted THEN {Ev.t}
                  \* the router could not be consulted: the create fails without effect
                  ELSE IF Ev.err /\ Ev.body.status = MATCH_ERROR /\ Ev.r \in rerr THEN {Ev.t}
                  ELSE LinTicks(Ev.r, rq, Ev.body, Ev.t)
         lin == ticks # {}
         bodies == BodiesOf(rq.kind, Ev.body)
         finals == {b \in bodies : b.state \in TerminalStates}
         isTrav == rq.kind = "SearchPromises" /\ rq.trav # "" /\ ~ Ev.err /\ lin
         pageIds == IF isTrav THEN [i \in DOMAIN Ev.body.promises |-> Ev.body.promises[i].id] ELSE <<>>
         old == IF isTrav /\ Has(trav, rq.trav) THEN trav[rq.trav]
                ELSE [kind |-> rq.kind, args |-> rq.args, ids |-> <<>>, always |-> {}, done |-> FALSE, pages |-> 0]
         \* the state the first page was answered from starts the "throughout" interval
         first == IF isTrav /\ ~ Has(trav, rq.trav)
                  THEN LET s == CHOOSE s \in GetOr(snaps, Ev.r, {}) : SearchPromisesRes(s.S, rq.args, idc) = Ev.body
                       IN PromiseMatchSet(s.S, rq.args, idc) \cap PromiseMatchSet(db, rq.args, idc)
                  ELSE old.always
         new == [old EXCEPT !.ids = @ \o pageIds, !.always = first, !.done = IsNone(Ev.body.cursor), !.pages = @ + 1]
     IN /\ chk' = [NoChk EXCEPT !.resp = IF lin /\ Ev.n = 1 THEN "" ELSE rq.kind,
                                !.who = rq.kind, !.lint = ticks,
                                !.why = IF Ev.n # 1 THEN "second reply" ELSE "",
                                !.travDup = isTrav /\ ~ NoDup(new.ids),
                                !.travMissing = IF isTrav /\ new.done THEN new.always \ Range(new.ids) ELSE {}]
        /\ trav' = IF isTrav THEN Put(trav, rq.trav, new) ELSE trav
        /\ seen' = [id \in (DOMAIN seen) \cup {b.id : b \in finals} |->
                      IF id \in DOMAIN seen THEN seen[id]
                      ELSE [final |-> Final(CHOOSE b \in finals : b.id = id), l |-> l]]
  /\ pdb' = db /\ path' = <<db>>
  /\ UNCHANGED <<db, exp, now, reqs, cand, snaps, faulted, sends, lapsed, plapsed, claims, cfg, cyc, q0, rerr, idc>>

ESend ==
  /\ Consume /\ Ev.e = "send"
  /\ sends' = Put(sends, <<Ev.task, Ev.counter>>, [dt |-> Ev.dt, outcome |-> Ev.outcome, t |-> Ev.t, o |-> Ev.o])
  /\ LET root == IF Has(db.tasks, Ev.task) THEN db.tasks[Ev.task].rootId ELSE "?" IN
     /\ cyc' = AddTo(cyc, Ev.o, root)
     /\ chk' = [NoChk EXCEPT !.dupRoot = root \in GetOr(cyc, Ev.o, {})]
  /\ pdb' = db /\ path' = <<db>>
  /\ UNCHANGED <<db, exp, now, reqs, cand, snaps, faulted, lapsed, plapsed, claims, seen, cfg, q0, rerr, idc, trav>>

ERoute ==
  /\ Consume /\ Ev.e = "route"
  /\ rerr' = IF Ev.err THEN rerr \cup {Ev.o} ELSE rerr
  /\ pdb' = db /\ chk' = NoChk /\ path' = <<db>>
  /\ UNCHANGED <<db, exp, now, reqs, cand, snaps, faulted, sends, lapsed, plapsed, claims, seen, cfg, cyc, q0, idc, trav>>

\* the process dies: in-flight requests lose their responses, the database stays
ECrash ==
  /\ Consume /\ Ev.e = "crash"
  /\ pdb' = db /\ chk' = NoChk /\ path' = <<db>>
  /\ UNCHANGED <<db, exp, now, reqs, cand, snaps, faulted, sends, lapsed, plapsed, claims, seen, cfg, cyc, q0, rerr, idc, trav>>

EChars ==
  /\ Consume /\ Ev.e = "chars"
  /\ idc' = [id \in (DOMAIN idc) \cup (DOMAIN Ev.ids) |-> IF id \in DOMAIN Ev.ids THEN Ev.ids[id] ELSE idc[id]]
  /\ pdb' = db /\ chk' = NoChk /\ path' = <<db>>
  /\ UNCHANGED <<db, exp, now, reqs, cand, snaps, faulted, sends, lapsed, plapsed, claims, seen, cfg, cyc, q0, rerr, trav>>

\* a cursor was handed to the API layer for decoding
ECursor ==
  /\ Consume /\ Ev.e = "cursor"
  /\ chk' = [NoChk EXCEPT !.cursor = (Ev.accepted = ~ Ev.forged)]
  /\ pdb' = db /\ path' = <<db>>
  /\ UNCHANGED <<db, exp, now, reqs, cand, snaps, faulted, sends, lapsed, plapsed, claims, seen, cfg, cyc, q0, rerr, idc, trav>>

\* the clients have stopped and every request has been answered: from here on only the
\* background coroutines run (C11)
EQuiesce ==
  /\ Consume /\ Ev.e = "quiesce"
  /\ q0' = [t |-> Ev.t, db |-> db, short |-> FALSE]
  /\ pdb' = db /\ chk' = NoChk /\ path' = <<db>>
  /\ UNCHANGED <<db, exp, now, reqs, cand, snaps, faulted, sends, lapsed, plapsed, claims, seen, cfg, cyc, rerr, idc, trav>>

\* restart / end / observe carry a fresh projection: it must be the database we know
EObserve ==
  /\ Consume /\ Ev.e \in {"restart", "end", "observe"}
  /\ pdb' = db /\ db' = PostOf(Ev, db) /\ exp' = db
  /\ chk' = [NoChk EXCEPT !.tables = DiffTables(db, PostOf(Ev, db)), !.who = Ev.e]
  /\ path' = <<db, PostOf(Ev, db)>>
  /\ UNCHANGED <<now, reqs, cand, snaps, faulted, sends, lapsed, plapsed, claims, seen, cfg, cyc, q0, rerr, idc, trav>>

\* a dispatch cycle has selected its tasks (the result of its ReadEnqueueableTasks, at the moment
\* of that read): remembered per cycle, judged by C08_DispatchSelectionT in this very state
ESelect ==
  /\ Consume /\ Ev.e = "select"
  \* (a cycle begins with its selection: two cycles started at the same instant carry the same name)
  /\ cyc' = Put(Put(cyc, "sel:" \o Ev.o, {<<Ev.tasks[i].id, Ev.tasks[i].counter>> : i \in DOMAIN Ev.tasks}), Ev.o, {})
  \* (after the clients stopped: a cycle that took fewer tasks than its batch holds has taken every dispatchable root)
  /\ q0' = IF q0.t >= 0 /\ Len(Ev.tasks) < cfg.taskBatchSize THEN [q0 EXCEPT !.short = TRUE] ELSE q0
  /\ pdb' = db /\ chk' = NoChk /\ path' = <<db>>
  /\ UNCHANGED <<db, exp, now, reqs, cand, snaps, faulted, sends, lapsed, plapsed, claims, seen, cfg, rerr, idc, trav>>

\* a firing cycle has read the schedules that are due: which rows (id and creation instant) it took is remembered,
\* the selection itself is judged by C10_SweepTakesTheMostOverdue in this very state
EDue ==
  /\ Consume /\ Ev.e = "due"
  /\ cyc' = Put(cyc, "due:" \o Ev.o, GetOr(cyc, "due:" \o Ev.o, {})
                   \cup {<<Ev.ids[i], db.schedules[Ev.ids[i]].createdOn>> : i \in {j \in DOMAIN Ev.ids : Has(db.schedules, Ev.ids[j])}})
  /\ pdb' = db /\ chk' = NoChk /\ path' = <<db>>
  /\ UNCHANGED <<db, exp, now, reqs, cand, snaps, faulted, sends, lapsed, plapsed, claims, seen, cfg, q0, rerr, idc, trav>>

EOther ==
  /\ Consume /\ Ev.e \notin {"reset", "submit", "tick", "commit", "respond", "send", "route", "crash", "due",
                            "restart", "end", "observe", "quiesce", "chars", "cursor", "select"}
  \* ("due": the schedules a firing cycle took, judged by C10_SweepTakesTheMostOverdue in this very state)
  /\ pdb' = db /\ chk' = NoChk /\ path' = <<db>>
  /\ UNCHANGED <<db, exp, now, reqs, cand, snaps, faulted, sends, lapsed, plapsed, claims, seen, cfg, cyc, q0, rerr, idc, trav>>

Next == EDue \/ ESelect \/ EChars \/ ECursor \/ EReset \/ ESubmit \/ ETick \/ ECommit \/ ERespond \/ ESend \/ ERoute \/ ECrash \/ EQuiesce \/ EObserve \/ EOther

Spec == Init /\ [][Next]_vars

(***************************************************************************)
(* Acceptance: the whole trace was consumed.                               *)
(***************************************************************************)
TraceAccepted ==
  LET d == TLCGet("stats").diameter IN
  IF d - 1 = Len(TraceLog) THEN PrintT(<<"KNOWN-FINDINGS-SEEN", TLCGet(42)>>)
  ELSE Print(<<"TRACE NOT CONSUMED", d - 1, Len(TraceLog)>>, FALSE)

\* what TLC prints for a state of an error trace
Alias == [l |-> l, now |-> now, chk |-> chk,
          event |-> IF l > 1 /\ l - 1 <= Len(TraceLog) THEN [e |-> Last.e, t |-> Last.t] ELSE [e |-> "init", t |-> 0]]

(***************************************************************************)
(* Named properties (state invariants; a "step" is the last event).        *)
(***************************************************************************)
\* F20 (known finding): the firing cycle guards its UpdateSchedule by id and next run time only.  A schedule that is
\* deleted and created again between the cycle's read and its write, with the same next run time, is advanced by the
\* cycle that read the OLD row: the new schedule jumps to the next occurrence of the old cron expression (an occurrence of
\* its own is skipped) and the promise of the occurrence is made from the old template and parameters.  Such a commit
\* - by a cycle that did not read the row it writes - is not judged.
F20Step ==
  /\ Last.e = "commit" /\ "F20" \in Known
  /\ \E i \in DOMAIN Last.txs : LET tx == Last.txs[i] IN
        /\ tx.bg = "SchedulePromises"
        /\ \E j \in DOMAIN tx.cmds : /\ tx.cmds[j].k = "UpdateSchedule" /\ tx.cmds[j].rows = 1
                                     /\ Has(pdb.schedules, tx.cmds[j].id)
                                     /\ pdb.schedules[tx.cmds[j].id].next = tx.cmds[j].last     \* (the guard did hold)
                                     /\ <<tx.cmds[j].id, pdb.schedules[tx.cmds[j].id].createdOn>> \notin GetOr(cyc, "due:" \o tx.o, {})
  /\ NoteFinding("F20")
IsCommit == Last.e = "commit" /\ ~ F20Step
IsRespond == Last.e = "respond"
IsStep == Last.e \in {"commit", "restart", "end", "observe"} /\ ~ F20Step

\* Step properties are evaluated on every consecutive pair of the states the last event
\* went through (for a batch that level A explains: after each of its transactions).
Steps(P(_, _)) == F20Step \/ \A i \in 1..(Len(path) - 1) : P(path[i], path[i + 1])

\* --- C02
C02_EveryChangeIsAnOp == IsStep => chk.tables = {}
C02_ResponseIsLinearizable == IsRespond => chk.resp = ""
NoDrift == chk.drift \in {"", "orphan firing"}

\* --- C01
RespBodies == IF IsRespond THEN BodiesOf(reqs[Last.r].kind, Last.body) ELSE {}
\* only a notification carries the promise to the receiver
SendBodies == IF Last.e = "send" /\ Last.type = "notify" THEN Range(Last.promise) ELSE {}
C01_WriteOnceT == Steps(C01_WriteOnce)
C01_PendingLeavesOnceT == Steps(C01_PendingLeavesOnce)
C01_CreationImmutableT == Steps(C01_CreationImmutable)
C01_NeverDisappearsT == Steps(C01_NeverDisappears)
C01_BornPendingT == Steps(C01_BornPending)
\* every observed body agrees with the store; all terminal observations of a promise are
\* identical; and a request submitted after somebody was told the promise is completed is
\* never told it is pending
C01_ObservationsAgree ==
  /\ \A b \in RespBodies \cup SendBodies :
        /\ C01_BodyAgrees(db, b)
        /\ (b.id \in DOMAIN seen /\ b.state \in TerminalStates) => Final(b) = seen[b.id].final
  /\ \A b \in RespBodies :
        (b.id \in DOMAIN seen /\ reqs[Last.r].l > seen[b.id].l) => b.state \in TerminalStates
  /\ \A b \in SendBodies : b.state \in TerminalStates

\* "the same in every response, however requests race": a reply that carries a promise is the level-A answer of
\* its request at one of the request's linearization points - not a snapshot the request took before a racing
\* completion and kept (C02_ResponseIsLinearizable for the promise-bearing kinds)
PromiseBearingKinds == {"ReadPromise", "CreatePromise", "CompletePromise", "CreatePromiseAndTask",
                        "CreateCallback", "CreateSubscription", "ClaimTask", "SearchPromises"}
C01_PromiseRepliesLinearizable == (IsRespond /\ reqs[Last.r].kind \in PromiseBearingKinds) => chk.resp = ""

\* --- C03 (the decision tables are inside the level-A operators; here: the commits and
\*     replies of create / complete requests)
CreateCompleteKinds == {"CreatePromise", "CreatePromiseAndTask", "CompletePromise"}
C03_RepeatChangesNothing ==
  (IsCommit /\ chk.owners \cap CreateCompleteKinds # {})
     => chk.tables \cap {"promises", "porder"} = {}
C03_StatusTable == (IsRespond /\ reqs[Last.r].kind \in CreateCompleteKinds) => chk.resp = ""

\* --- C04
TimedKinds == {"ReadPromise", "CreatePromise", "CreatePromiseAndTask", "CompletePromise", "SearchPromises"}
\* Known finding F3: a promise created with a timeout that is already in the past is
\* stored and reported as pending by the create request itself.
Dev_F3(b) == Last.body.status = CREATED /\ b.timeout <= b.createdOn
\* the clock reading that counts is the one of the linearization point of the reply
C04_NoPendingAfterDeadline ==
  (IsRespond /\ reqs[Last.r].kind \in TimedKinds /\ ~ Last.err) =>
     \A b \in RespBodies :
        \* (a reply that has no linearization point at all is judged at the tick it was given)
        \/ \E tau \in (IF chk.lint = {} THEN {Last.t} ELSE chk.lint) : C04_NotPendingAfterDeadline(b, tau)
        \/ "F3" \in Known /\ Dev_F3(b) /\ NoteFinding("F3")
C04_NoTimeoutBeforeDeadlineT == IsStep => C04_NoTimeoutBeforeDeadline(db, now)
C04_CompletionShapeT == Steps(C04_CompletionShape)
\* every decision "user completion or time-out" is the one level A takes at the clock
\* reading of the deciding step (before / exactly at / after the deadline)
C04_DecidedByClock == IsStep => "promises" \notin chk.tables

\* --- C05
C05_NoOrphanRegistrationT == \A i \in DOMAIN path : C05_NoOrphanRegistration(path[i])
C05_RegistrationsConvertedT == Steps(C05_RegistrationsConverted)
C05_NoneLeftBehindT == Steps(C05_NoneLeftBehind)
C05_ConvertedTaskIsLiveT == Steps(C05_ConvertedTaskIsLive)
C05_WakeChanges == IsStep => "callbacks" \notin chk.tables
C05_AckMeansRegisteredOrCompletedT ==
  (IsRespond /\ reqs[Last.r].kind \in {"CreateCallback", "CreateSubscription"}
   /\ Last.body.status \in {OK, CREATED} /\ IsSome(Last.body.promise)) =>
     LET a == reqs[Last.r].args
         cbid == IF reqs[Last.r].kind = "CreateCallback" THEN CallbackId(a.rootId, a.promiseId)
                 ELSE SubscriptionId(a.promiseId, a.id)
         mesg == IF reqs[Last.r].kind = "CreateCallback" THEN [type |-> "resume", root |-> a.rootId, leaf |-> a.promiseId]
                 ELSE [type |-> "notify", root |-> a.promiseId, leaf |-> ""]
     IN C05_AckMeansRegisteredOrCompleted(db, The(Last.body.promise), cbid, mesg)

\* --- C06
MutationKinds == {"CreatePromise", "CreatePromiseAndTask", "CompletePromise", "CreateCallback",
                  "CreateSubscription", "CreateSchedule", "DeleteSchedule", "AcquireLock", "ReleaseLock",
                  "ClaimTask", "CompleteTask", "HeartbeatTasks", "HeartbeatLocks"}
\* the database found after a restart is the last committed one, whole
C06_RestartKeepsState == Last.e \in {"restart", "end", "observe"} => chk.tables = {}
\* what the store worker reported as done is what another connection reads
C06_CommittedMeansStored == IsCommit => chk.tables = {}
\* an acknowledgement is only given for an effect that was committed
C06_AckedIsCommitted ==
  (IsRespond /\ reqs[Last.r].kind \in MutationKinds /\ ~ Last.err) => chk.resp = ""

\* --- C07
TaskOwnerKinds == {"ClaimTask", "CompleteTask", "HeartbeatTasks", "TimeoutTasks"}
C07_CountersNeverDecreaseT == Steps(C07_CountersNeverDecrease)
C07_FinishedIsAbsorbingT == Steps(C07_FinishedIsAbsorbing)
C07_TasksNeverDisappearT == Steps(C07_TasksNeverDisappear)
C07_ClaimGuardT == Steps(C07_ClaimGuard)
C07_LeaseHonouredT ==
  \A i \in 1..(Len(path) - 1) :
     C07_LeaseHonoured(path[i], path[i + 1], LapsedAlong(plapsed, SubSeq(path, 1, i), 1, now) \cup LapsedAt(path[i], now))
C07_FencingOnReclaimT == Steps(C07_FencingOnReclaim)
\* no pair <<task, counter>> enters CLAIMED twice
C07_OneClaimPerCounter == IsCommit => chk.dup = {}
C07_TaskChanges == (IsStep /\ chk.owners \cap TaskOwnerKinds # {}) => "tasks" \notin chk.tables
C07_TaskReplies == (IsRespond /\ reqs[Last.r].kind \in {"ClaimTask", "CompleteTask", "HeartbeatTasks"}) => chk.resp = ""

\* --- C08
\* (promises created under the known finding F13 are exempt: they are reported separately)
F13Promises ==
  IF IsCommit /\ "F13" \in Known
  THEN {reqs[Last.txs[i].o].args.id : i \in {j \in DOMAIN Last.txs :
          Last.txs[j].bg = "" /\ Has(reqs, Last.txs[j].o) /\ Last.txs[j].o \in rerr
          /\ reqs[Last.txs[j].o].kind = "CreatePromise"}}
  ELSE {}
C08_RoutedHasTaskT ==
  \A i \in 1..(Len(path) - 1) :
     C08_RoutedHasTask([path[i] EXCEPT !.promises = [id \in (DOMAIN @) \cup (F13Promises \cap DOMAIN path[i + 1].promises) |->
                                                      IF id \in DOMAIN @ THEN @[id] ELSE path[i + 1].promises[id]]],
                       path[i + 1])
C08_FinishedWithPromiseT == Steps(C08_FinishedWithPromise)
C08_NoActiveInvokeOfCompletedT == \A i \in DOMAIN path : C08_NoActiveInvokeOfCompleted(path[i])
\* a dispatch cycle selects only unclaimed tasks, at most one per root promise and none whose root
\* has another task enqueued or claimed (judged when the cycle selects), and it dispatches only
\* what it selected
C08_DispatchSelectionT ==
  /\ Last.e = "select" =>
        /\ \A i \in DOMAIN Last.tasks : C08_DispatchSelection(db, Last.tasks[i].id, Last.tasks[i].counter)
                                         /\ db.tasks[Last.tasks[i].id].state = T_INIT
        /\ \A i, j \in DOMAIN Last.tasks : i # j => Last.tasks[i].rootId # Last.tasks[j].rootId
  /\ Last.e = "send" => (Has(cyc, "sel:" \o Last.o) => <<Last.task, Last.counter>> \in cyc["sel:" \o Last.o])
C08_OnePerRootPerCycle == Last.e = "send" => ~ chk.dupRoot
\* the dispatched message names the task and the counter with which a claim succeeds, and
\* carries the three links for exactly that pair; a notification carries the promise
C08_MessageNamesTask ==
  (Last.e = "send" /\ Last.handed) =>
     LET base == "http://resonate.test/tasks/"
         sfx == Last.task \o "/" \o ToString(Last.counter) IN
     \* (the pair is the one the cycle selected - C08_DispatchSelectionT; between the selection and the
     \* hand-off the task may have been claimed, re-dispatched or finished: then the message is stale, which
     \* the statement allows; as long as it is still waiting with that counter a claim with it succeeds)
     \* so: never a counter the task has not reached (counters only grow)
     /\ Has(db.tasks, Last.task) /\ db.tasks[Last.task].counter >= Last.counter
     /\ IF Last.type = "notify"
        THEN /\ "promise" \in DOMAIN Last.body /\ IsSome(Last.promise)
             /\ Last.body.promise.id = The(Last.promise).id
             /\ The(Last.promise).id = db.tasks[Last.task].rootId
        ELSE /\ "task" \in DOMAIN Last.body /\ "href" \in DOMAIN Last.body
             /\ Last.body.task.id = Last.task /\ Last.body.task.counter = Last.counter
             /\ Last.body.href.claim = base \o "claim/" \o sfx
             /\ Last.body.href.complete = base \o "complete/" \o sfx
             /\ Last.body.href.heartbeat = base \o "heartbeat/" \o sfx
C08_TaskChanges == (IsStep /\ "EnqueueTasks" \in chk.owners) => "tasks" \notin chk.tables

\* --- C09
LockKinds == {"AcquireLock", "ReleaseLock", "HeartbeatLocks"}
C09_LockTables == IsStep => "locks" \notin chk.tables
C09_LockReplies == (IsRespond /\ reqs[Last.r].kind \in LockKinds) => chk.resp = ""
C09_NoTransferInPlaceT == Steps(C09_NoTransferInPlace)

\* --- C10
ScheduleKinds == {"CreateSchedule", "ReadSchedule", "DeleteSchedule"}
C10_AdvancesByOneT == Steps(C10_AdvancesByOne)
C10_NotEarlyT == F20Step \/ \A i \in 1..(Len(path) - 1) : C10_NotEarly(path[i], path[i + 1], now)
C10_FiringCreatesPromiseT == Steps(C10_FiringCreatesPromise)
C10_NextAfterCreationT == C10_NextAfterCreation(db)
\* a firing cycle takes the schedules that are due, the most overdue first when the batch size does not take them all
\* (ties: the older schedule) - otherwise a schedule that is always due keeps the others from ever firing
C10_SweepTakesTheMostOverdue ==
  Last.e = "due" =>
    LET due == {sid \in DOMAIN db.schedules : db.schedules[sid].next <= Last.time}
        ids == Last.ids
        Before(a, b) == \/ db.schedules[a].next < db.schedules[b].next
                        \/ db.schedules[a].next = db.schedules[b].next /\ Pos(db.sorder, a) < Pos(db.sorder, b)
    IN /\ Len(ids) = (IF Last.limit < Cardinality(due) THEN Last.limit ELSE Cardinality(due))
       /\ \A i \in DOMAIN ids : ids[i] \in due
       /\ \A i, j \in DOMAIN ids : i # j => ids[i] # ids[j]
       /\ \A sid \in due \ {ids[i] : i \in DOMAIN ids} : \A i \in DOMAIN ids : Before(ids[i], sid)
C10_ScheduleChanges == IsStep => chk.tables \cap {"schedules", "sorder"} = {}
\* the promise of an occurrence is created in the transaction that advances the schedule: a firing
\* transaction without the advance (or any other change the sweep makes that level A does not know) is refused
C10_FiringIsOneStep == IsCommit => (chk.drift \in {"", "orphan firing"}
                                    /\ ("SchedulePromises" \in chk.owners => chk.tables = {}))
C10_ScheduleReplies == (IsRespond /\ reqs[Last.r].kind \in ScheduleKinds) => chk.resp = ""

\* --- C14
SearchKinds == {"SearchPromises", "SearchSchedules"}
\* each page is the query result (matching rows only, newest first, at most the page size,
\* cursor exactly when the page is full) on the state of one of the request's commit points,
\* with no overdue promise reported pending
C14_PageIsTheQueryResult == (IsRespond /\ reqs[Last.r].kind \in SearchKinds) => chk.resp = ""
\* a cursor carries the query it continues: the request for the next page (as decoded from the real
\* cursor by the real API helper) asks for the same pattern, states, tags and page size as the first one
C14_CursorCarriesQuery ==
  (Last.e = "submit" /\ Last.trav # "" /\ Last.page > 1) =>
     \A r \in DOMAIN reqs : (reqs[r].trav = Last.trav /\ reqs[r].page = 1) =>
        [reqs[r].args EXCEPT !.cursor = None] = [Last.args EXCEPT !.cursor = None]
C14_NoDuplicates == IsRespond => ~ chk.travDup
C14_Complete == IsRespond => chk.travMissing = {}
C14_ForgedCursorRejected == Last.e = "cursor" => chk.cursor
C14_SearchChangesOnlyTimeouts ==
  (IsStep /\ chk.owners \cap SearchKinds # {}) => chk.tables = {}

\* --- C11: when the run ends (the harness has let the background coroutines run the
\* configured number of cycles after the clients stopped at q0.t) nothing that was overdue
\* at q0.t is left, and no task that was dispatchable then is still waiting untouched
\* F2 (known finding): a registration whose derived id is the id of an existing task (ids containing
\* ":" derive the same id from different pairs): every completion or time-out of its promise is refused
\* by the store (UNIQUE constraint in the bulk task insert), so the promise stays pending for ever
IsF2(S, p) == \E cb \in CallbacksOn(S, p) : Has(S.tasks, cb)
\* F17 (known finding): a schedule whose promise id template cannot be rendered is accepted (only its cron expression is
\* validated); every firing cycle skips it without advancing it, so it stays due for ever - and since the cycle takes
\* the most overdue schedules first, it occupies a place in every batch: with a schedule batch size of one nothing else fires
Unrenderable == {"{{.id", "{{index .id 99}}"}
IsF17(Q, sid) == Q.schedules[sid].promiseId \in Unrenderable
SchedulesCaughtUp(Q, t) ==
  LET stuck == {sid \in DueSchedules(Q, t) : IsF17(Q, sid)}
      starved == IF Cardinality(stuck) >= cfg.scheduleBatchSize THEN DueSchedules(Q, t) ELSE stuck IN
  /\ DueSchedules(Q, t) \ starved = {}
  /\ (stuck # {} => "F17" \in Known /\ NoteFinding("F17"))
ConvergedButKnown(Q, t) ==
  LET stuck == {p \in DuePromises(Q, t) : IsF2(Q, p)} IN
  /\ DuePromises(Q, t) \ stuck = {}
  /\ (stuck # {} => "F2" \in Known /\ NoteFinding("F2"))
  /\ \A r \in DOMAIN Q.locks : Q.locks[r].expiresAt > t
  /\ SchedulesCaughtUp(Q, t)
  /\ ExpirableTasks(Q, TaskBusy, t) = {}
\* C10, "none skipped, missed occurrences are caught up": when the run ends no occurrence is left behind
C10_CaughtUpAtEnd == (Last.e = "end" /\ q0.t >= 0) => SchedulesCaughtUp(db, q0.t)
HandoffsSucceededSince(t) == \A k \in DOMAIN sends : sends[k].t >= t => sends[k].outcome = "ok"
HandedOffSince(r, t) == \E k \in DOMAIN sends : /\ sends[k].t >= t /\ sends[k].outcome = "ok"
                                                  /\ Has(db.tasks, k[1]) /\ db.tasks[k[1]].rootId = r
\* F18 (known finding): the dispatcher reads the dispatchable roots in the order of their ids, at most TaskBatchSize of them;
\* a task that was handed off and is never claimed comes back when its lease runs out (counter + 1) and is first again:
\* TaskBatchSize (or more) such roots keep every root behind them from ever being dispatched
Redispatched(t) ==
  {db.tasks[k1[1]].rootId : k1 \in {k \in DOMAIN sends : /\ sends[k].t >= t /\ sends[k].outcome = "ok" /\ Has(db.tasks, k[1])
                                                          /\ \E k2 \in DOMAIN sends : k2[1] = k[1] /\ k2[2] # k[2] /\ sends[k2].t >= t /\ sends[k2].outcome = "ok"}}
IsF18(r) == ~ q0.short /\ Cardinality(Redispatched(q0.t) \ {r}) >= cfg.taskBatchSize     \* every batch was full of other roots
C11_ConvergedAtEnd ==
  (Last.e = "end" /\ q0.t >= 0) =>
     /\ ConvergedButKnown(db, q0.t)
     \* the dispatcher takes one task per root promise and cycle, the oldest first: what must not happen
     \* is that a ROOT with something to dispatch is never served (a younger sibling legitimately waits
     \* behind an older one that nobody claims)
     \* ("while hand-offs succeed": a root whose address cannot be delivered to is taken again at every cycle, and with a
     \* small task batch size the roots behind it wait as long as that lasts - the statement leaves that case out)
     \* (a root whose own hand-off did succeed is owed the record of it whatever happened to the others)
     /\ \A r \in EnqueueableRoots(db) \cap EnqueueableRoots(q0.db) :
           (HandoffsSucceededSince(q0.t) \/ HandedOffSince(r, q0.t)) =>
             \/ \E x \in DOMAIN db.tasks : db.tasks[x].rootId = r /\ (~ Has(q0.db.tasks, x) \/ db.tasks[x] # q0.db.tasks[x])
             \/ IsF18(r) /\ "F18" \in Known /\ NoteFinding("F18")
=============================================================================
