--------------------------- MODULE FidelityTrace ---------------------------
(***************************************************************************)
(* Judges what procx read back from the real server (C20).  Every string   *)
(* is compared through the hex of its UTF-8 bytes, every byte string       *)
(* through the hex of its bytes, numbers as decimal strings; the harness   *)
(* only re-encodes (base64 -> hex, JSON -> canonical lists), it does not   *)
(* compare.  An absent field and an empty one are the same.                *)
(***************************************************************************)
EXTENDS Integers, Sequences, FiniteSets, TLC, Json
CONSTANT TraceFile
CONSTANT Known
TraceLog == ndJsonDeserialize(TraceFile)

VARIABLES l, sc, up, bad
vars == <<l, sc, up, bad>>
Ev == TraceLog[l]
Last == IF l > 1 THEN TraceLog[l - 1] ELSE [e |-> "none"]

Init == l = 1 /\ sc = [family |-> "", want |-> <<>>, varied |-> "", proto |-> ""] /\ up = TRUE /\ bad = "" /\ TLCSet(42, {})
Consume == l <= Len(TraceLog) /\ l' = l + 1

HexInvoke == "5f5f696e766f6b653a"           \* "__invoke:"
HexClaimPath == "2f7461736b732f636c61696d2f"   \* "/tasks/claim/"

PromiseOK(g, w, afterComplete) ==
  /\ g.present
  /\ (w.id # "" => g.id = w.id)
  /\ g.data = w.data /\ g.headers = w.map /\ g.tags = w.map /\ g.key = w.key /\ g.timeout = w.timeout
  /\ (afterComplete /\ g.state = "RESOLVED") => (g.vdata = w.data /\ g.vheaders = w.map /\ g.vkey = w.key)

EBegin ==
  /\ Consume /\ Ev.e = "begin"
  /\ sc' = [family |-> Ev.family, want |-> Ev.want, varied |-> Ev.varied, proto |-> Ev.proto] /\ up' = TRUE /\ bad' = ""
EStep ==
  /\ Consume /\ Ev.e = "step"
  /\ up' = IF Ev.do = "kill" THEN FALSE ELSE IF Ev.do = "start" THEN Ev.replied ELSE up
  /\ bad' =
       IF up /\ Ev.do \notin {"kill", "start"} /\ ~ Ev.alive THEN "the server died"
       ELSE IF Ev.do = "start" /\ ~ Ev.replied THEN "the server did not come back"
       ELSE IF Ev.kind = "read" /\ sc.family \in {"promise-id", "promise-data", "promise-maps", "promise-key", "promise-timeout"}
       THEN IF Ev.class # "2xx" THEN "a stored promise cannot be read back"
            ELSE IF ~ PromiseOK(Ev.got, sc.want, Ev.after) THEN "a datum was not returned as supplied" ELSE ""
       ELSE IF Ev.kind = "write" /\ sc.family \in {"promise-id", "promise-data", "promise-maps", "promise-key", "promise-timeout"}
       THEN IF Ev.class # "2xx" THEN "a well-formed write was refused"
            ELSE IF ~ PromiseOK(Ev.got, sc.want, FALSE) THEN "a datum was not returned as supplied" ELSE ""
       ELSE IF Ev.kind \in {"read", "write"} /\ sc.family = "lazy-timeout"
       THEN IF Ev.class # "2xx" THEN (IF Ev.kind = "read" THEN "a stored promise cannot be read back" ELSE "a well-formed write was refused")
            ELSE IF ~ PromiseOK(Ev.got, [sc.want EXCEPT !.timeout = Ev.got.timeout], FALSE) THEN "a datum was not returned as supplied" ELSE ""
       ELSE IF sc.family = "exact-ids" /\ Ev.name = "probe-b" THEN (IF Ev.class = "4xx" THEN "" ELSE "ids are not compared exactly")
       ELSE IF sc.family = "exact-ids" /\ Ev.name = "read-a"
       THEN (IF Ev.class = "2xx" /\ Ev.got.present /\ Ev.got.id = sc.want.a /\ Ev.got.data = "61" THEN "" ELSE "ids are not compared exactly")
       ELSE IF sc.family = "exact-ids" /\ Ev.name = "read-b"
       THEN (IF Ev.class = "2xx" /\ Ev.got.present /\ Ev.got.id = sc.want.b /\ Ev.got.data = "62" THEN "" ELSE "ids are not compared exactly")
       ELSE IF sc.family = "derived-schedule" /\ Ev.name = "list"
       THEN (IF /\ \E i \in DOMAIN Ev.got.list : Ev.got.list[i].sched = sc.want.id /\ Ev.got.list[i].prefix = sc.want.id
                /\ \A i \in DOMAIN Ev.got.list : Ev.got.list[i].sched = sc.want.id => Ev.got.list[i].prefix = sc.want.id
             THEN "" ELSE "a derived promise id does not embed the schedule id unaltered")
       ELSE IF sc.family = "schedule-recreate" /\ Ev.name = "list"
       THEN (IF \E i \in DOMAIN Ev.got.list : Ev.got.list[i].sched = sc.want.id /\ Ev.got.list[i].prefix = "76322e" \o sc.want.id
             THEN "" ELSE "a derived promise id does not follow the id template the schedule was given")
       ELSE IF sc.family = "schedule-maps" /\ Ev.name = "read-schedule"
       THEN (IF Ev.class = "2xx" /\ Ev.got.present /\ Ev.got.stags = <<>> /\ Ev.got.sptags = <<>> /\ Ev.got.spheaders = <<>>
             THEN "" ELSE "a datum was not returned as supplied")
       ELSE IF sc.family = "schedule-maps" /\ Ev.name = "list"
       THEN (IF /\ Len(Ev.got.list) > 0
                /\ \A i \in DOMAIN Ev.got.list : Ev.got.list[i].headers = <<>> /\ Ev.got.list[i].ntags = 2
             THEN "" ELSE "a datum was not returned as supplied")
       ELSE IF sc.family = "derived-task" /\ Ev.do = "received"
       THEN (IF /\ Len(Ev.got.list) > 0
                /\ \A i \in DOMAIN Ev.got.list :
                      /\ Ev.got.list[i].task = HexInvoke \o sc.want.id
                      /\ Ev.got.list[i].claim = HexClaimPath \o HexInvoke \o sc.want.id
             THEN "" ELSE "a derived task id / link does not embed the promise id unaltered")
       ELSE ""
  /\ UNCHANGED sc
EEnd ==
  /\ Consume /\ Ev.e = "end"
  /\ bad' = IF Ev.panicked THEN "the server died" ELSE ""
  /\ UNCHANGED <<sc, up>>
Next == EBegin \/ EStep \/ EEnd
Spec == Init /\ [][Next]_vars

C20_ReturnedAsSupplied == bad \notin {"a datum was not returned as supplied", "a stored promise cannot be read back", "a well-formed write was refused", "ids are not compared exactly"}
C20_DerivedIdsEmbedClientId == bad \notin {"a derived promise id does not follow the id template the schedule was given", "a derived promise id does not embed the schedule id unaltered", "a derived task id / link does not embed the promise id unaltered"}
C20_ServerSurvives == bad \notin {"the server died", "the server did not come back"}

TraceAccepted ==
  LET d == TLCGet("stats").diameter IN
  IF d - 1 = Len(TraceLog) THEN PrintT(<<"KNOWN-FINDINGS-SEEN", TLCGet(42)>>)
  ELSE Print(<<"TRACE NOT CONSUMED", d - 1, Len(TraceLog)>>, FALSE)
Alias == [l |-> l, bad |-> bad, scenario |-> [family |-> sc.family, varied |-> sc.varied, proto |-> sc.proto, want |-> sc.want],
          event |-> IF Last.e = "step" THEN [do |-> Last.do, name |-> Last.name, class |-> Last.class, got |-> Last.got] ELSE [do |-> Last.e, name |-> "", class |-> "", got |-> <<>>]]
=============================================================================
