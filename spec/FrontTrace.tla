----------------------------- MODULE FrontTrace -----------------------------
(***************************************************************************)
(* Judges what procx observed when it played the scenarios of Front.tla    *)
(* against real `resonate serve` processes (C13).                          *)
(***************************************************************************)
EXTENDS Integers, Sequences, FiniteSets, TLC, Json
CONSTANT TraceFile
CONSTANT Known
TraceLog == ndJsonDeserialize(TraceFile)
NoteFinding(name) == TLCSet(42, TLCGet(42) \cup {name})

VARIABLES l, sc, up, dbBefore, hostile, bad
vars == <<l, sc, up, dbBefore, hostile, bad>>
Ev == TraceLog[l]
Last == IF l > 1 THEN TraceLog[l - 1] ELSE [e |-> "none"]
NoScenario == [sid |-> "", expect |-> "ok", ep |-> "", field |-> "", raw |-> ""]

Init == l = 1 /\ sc = NoScenario /\ up = TRUE /\ dbBefore = <<>> /\ hostile = "none" /\ bad = "" /\ TLCSet(42, {})
Consume == l <= Len(TraceLog) /\ l' = l + 1

Counts(j) == [promises |-> j.promises, callbacks |-> j.callbacks, schedules |-> j.schedules, locks |-> j.locks, tasks |-> j.tasks]

EBegin ==
  /\ Consume /\ Ev.e = "begin"
  /\ sc' = [sid |-> Ev.sid, expect |-> Ev.expect, ep |-> Ev.ep, field |-> Ev.field, raw |-> Ev.raw]
  /\ up' = TRUE /\ dbBefore' = <<>> /\ hostile' = "none" /\ bad' = ""
EStep ==
  /\ Consume /\ Ev.e = "step"
  /\ up' = IF Ev.do = "kill" THEN FALSE ELSE IF Ev.do = "start" THEN Ev.replied ELSE up
  /\ hostile' = IF Ev.do \in {"http", "grpc"} /\ Ev.name = "hostile" THEN Ev.class ELSE hostile
  /\ dbBefore' = IF Ev.do = "db" /\ hostile = "none" THEN <<Counts(Ev.json)>> ELSE dbBefore
  /\ bad' =
       IF Ev.do = "start" /\ ~ Ev.replied THEN "the server did not come back after the restart"
       ELSE IF up /\ Ev.do \notin {"kill", "start"} /\ ~ Ev.alive THEN "the server process died"
       ELSE IF Ev.do = "probe" /\ up /\ ~ Ev.replied THEN "the server does not answer (wedged)"
       ELSE IF Ev.do = "http" /\ Ev.name = "canary-create" /\ Ev.class # "2xx" THEN "the server does not accept a well-formed request any more"
       ELSE IF Ev.do = "received" /\ up /\ ~ \E k \in DOMAIN Ev.json : Ev.json[k].task.id = "__invoke:" \o Ev.name \o "-" \o sc.sid
            THEN "background processing is wedged: a task routed afterwards is never dispatched"
       ELSE IF Ev.do = "rows" /\ up /\ Ev.json.ok /\ Ev.name \in {"canary-s-1", "canary-s-2"}
            THEN (IF \E k \in DOMAIN Ev.json.promises : Ev.json.promises[k].sched = Ev.name \o "-" \o sc.sid THEN ""
                  ELSE "background processing is wedged: a schedule created afterwards never fires")
       ELSE IF Ev.do = "rows" /\ up /\ Ev.json.ok /\ Ev.name \in {"canary-t-1", "canary-t-2"}
               /\ ~ \E k \in DOMAIN Ev.json.promises : Ev.json.promises[k].id = Ev.name \o "-" \o sc.sid /\ Ev.json.promises[k].state = 16
            THEN "background processing is wedged: a promise created afterwards is never timed out"
       ELSE IF Ev.do \in {"http", "grpc"} /\ Ev.name = "hostile" /\ Ev.class = "none" THEN "no reply to the request"
       ELSE IF Ev.do \in {"http", "grpc"} /\ Ev.class = "5xx" THEN "server error for a client input"
       ELSE IF sc.ep = "lease" /\ Ev.do = "http" /\ Ev.name \in {"hostile", "finish"} /\ Ev.class # "2xx" THEN "a task was taken away before its lease had run out"
       ELSE IF Ev.do \in {"http", "grpc"} /\ Ev.name = "hostile" /\ sc.expect = "4xx" /\ Ev.class # "4xx" THEN "invalid request not refused"
       ELSE IF Ev.do = "db" /\ hostile = "4xx" /\ dbBefore # <<>> /\ Len(dbBefore) = 1
               /\ l > 2 /\ TraceLog[l - 1].e = "step" /\ TraceLog[l - 1].do \in {"http", "grpc"} /\ TraceLog[l - 1].name = "hostile"
               /\ Counts(Ev.json) # dbBefore[1] THEN "a refused request left a trace"
       ELSE ""
  /\ UNCHANGED sc
EEnd ==
  /\ Consume /\ Ev.e = "end"
  /\ bad' = IF Ev.panicked THEN "the server panicked" ELSE IF up /\ ~ Ev.alive THEN "the server process died" ELSE ""
  /\ UNCHANGED <<sc, up, dbBefore, hostile>>
Next == EBegin \/ EStep \/ EEnd
Spec == Init /\ [][Next]_vars

Crashes == {"the server process died", "the server panicked", "the server did not come back after the restart"}
\* no input terminates the server process - immediately, when the stored data is later
\* timed out / routed / dispatched / fired, or after a restart
C13_NeverCrashes == bad \notin Crashes
\* ... or stalls it
C13_NeverWedges == bad \notin {"the server does not answer (wedged)", "no reply to the request", "the server does not accept a well-formed request any more",
                                "background processing is wedged: a task routed afterwards is never dispatched",
                                "background processing is wedged: a promise created afterwards is never timed out",
                                "background processing is wedged: a schedule created afterwards never fires"}
\* client inputs are never answered with a server error
C13_NoServerError == bad # "server error for a client input"
\* invalid requests are answered with a client-error status ...
C13_InvalidRefused == bad # "invalid request not refused"
\* ... and leave no trace
C13_RefusedLeavesNoTrace == bad # "a refused request left a trace"

\* C07: a lease is honoured whatever its length (the lease end of the largest ttl values is still in the future)
C07_LongLeaseHonoured == bad # "a task was taken away before its lease had run out"
\* C04: only the server clock times a promise out: a completion that names a state a client may not set
\* (pending, timed out, unknown) is refused by the front end and leaves no trace
C04_ClientCannotTimeOut == bad \notin {"invalid request not refused", "a refused request left a trace", "server error for a client input"}

TraceAccepted ==
  LET d == TLCGet("stats").diameter IN
  IF d - 1 = Len(TraceLog) THEN PrintT(<<"KNOWN-FINDINGS-SEEN", TLCGet(42)>>)
  ELSE Print(<<"TRACE NOT CONSUMED", d - 1, Len(TraceLog)>>, FALSE)
Alias == [l |-> l, bad |-> bad, scenario |-> sc, event |-> IF Last.e = "step" THEN [do |-> Last.do, name |-> Last.name, class |-> Last.class, code |-> Last.code, alive |-> Last.alive] ELSE [do |-> Last.e, name |-> "", class |-> "", code |-> 0, alive |-> TRUE]]
=============================================================================
