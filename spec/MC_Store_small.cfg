SPECIFICATION Spec
CONSTANTS
  Depth = 5
  Exhaustive = TRUE
INVARIANTS
  TypeOK
