------------------------------- MODULE Front -------------------------------
(***************************************************************************)
(* C13: no client input can crash or wedge the server or poison stored     *)
(* state.                                                                  *)
(*                                                                         *)
(* The input space is structured as endpoint x field x class of hostile    *)
(* value (absent, empty, null, wrong type, negative, zero, huge, template  *)
(* syntax, JSON literals, separators, markup, non-ASCII), each followed by *)
(* the LIFECYCLE an accepted entity goes through in the server (time-out   *)
(* sweep, routing, dispatch, schedule firing, completion with conversion   *)
(* of registrations), a hard kill, a restart on the same database and      *)
(* more background cycles.  TLC enumerates the scenarios; the harness      *)
(* procx runs each one against its own REAL `resonate serve` process over  *)
(* real HTTP / gRPC; TLC judges the observations (FrontTrace.tla).         *)
(* Macros expanded by the harness: @SID@ scenario id, @NOW+n@ clock,       *)
(* @LONG@ a 10 kB string.                                                  *)
(***************************************************************************)
EXTENDS Integers, Sequences, FiniteSets, TLC, Json

Absent == "<absent>"

\* JSON object text from a sequence of <<name, raw>> pairs, leaving out absent fields
RECURSIVE JoinFields(_, _)
JoinFields(fs, first) ==
  IF fs = <<>> THEN ""
  ELSE IF Head(fs)[2] = Absent THEN JoinFields(Tail(fs), first)
  ELSE (IF first THEN "" ELSE ",") \o "\"" \o Head(fs)[1] \o "\":" \o Head(fs)[2] \o JoinFields(Tail(fs), FALSE)
Obj(fs) == "{" \o JoinFields(fs, TRUE) \o "}"

\* replace the raw value of field n
With(fs, n, raw) == [i \in DOMAIN fs |-> IF fs[i][1] = n THEN <<n, raw>> ELSE fs[i]]

(***************************************************************************)
(* Classes of hostile values (raw JSON text) and what the statement lets   *)
(* us expect: "4xx" = must be refused with a client error; "ok" = any      *)
(* reply that is not a server error (the front end may accept or refuse).  *)
(***************************************************************************)
WrongTypeForString == {"123", "{\"a\":1}", "[]", "true"}
HostileStrings == {"\"{{.id\"", "\"{{.nosuch}}\"", "\"{{template \\\"x\\\"}}\"", "\"<b>&'x\"", "\"a:b:c\"", "\"null\"",
                   "\"\\u00fcn\\u00ef \\u4e2d\"", "\"@LONG@\"", "\" \"", "\"a/b?c#d%2F\""}
StrCases(required) ==
  {[raw |-> r, expect |-> "4xx"] : r \in WrongTypeForString}
  \cup {[raw |-> r, expect |-> IF required THEN "4xx" ELSE "ok"] : r \in {Absent, "null", "\"\""}}
  \cup {[raw |-> r, expect |-> "ok"] : r \in HostileStrings}
IntCases(required) ==
  {[raw |-> r, expect |-> "4xx"] : r \in {"\"5\"", "1.5", "true", "1e30", "{}", "99999999999999999999"}}
  \cup {[raw |-> r, expect |-> IF required THEN "4xx" ELSE "ok"] : r \in {Absent, "null", "0"}}
  \cup {[raw |-> r, expect |-> "ok"] : r \in {"-1", "9223372036854775807", "-9223372036854775808", "1"}}
ObjCases ==
  {[raw |-> r, expect |-> "4xx"] : r \in {"\"s\"", "123", "[1]"}}
  \cup {[raw |-> r, expect |-> "ok"] : r \in {Absent, "null", "{}"}}
ValueCases == ObjCases \cup
  {[raw |-> r, expect |-> "4xx"] : r \in {"{\"headers\":{\"h\":1}}", "{\"data\":123}", "{\"data\":\"not base64 !\"}", "{\"headers\":[]}"}}
  \cup {[raw |-> r, expect |-> "ok"] : r \in {"{\"headers\":null,\"data\":null}", "{\"headers\":{\"\":\"\"},\"data\":\"\"}"}}
\* routing tag values (stored with the promise, decoded later by router and sender)
RouteValues == {"null", "123", "[]", "{}", "true", "\\\"q\\\"", "{\\\"type\\\":\\\"poll\\\"}", "{\\\"type\\\":\\\"poll\\\",\\\"data\\\":null}",
                "{\\\"type\\\":\\\"nope\\\",\\\"data\\\":{}}", "{\\\"type\\\":\\\"http\\\",\\\"data\\\":{\\\"url\\\":\\\"::\\\"}}",
                "{\\\"type\\\":\\\"poll\\\",\\\"data\\\":{\\\"group\\\":\\\"\\\"}}", "poll://", "http://", "%zz", "10.0.0.7:9000", "",
                "poll://default/@SID@"}
TagCases == ObjCases
  \cup {[raw |-> "{\"resonate:invoke\":\"" \o v \o "\"}", expect |-> "ok"] : v \in RouteValues}
  \cup {[raw |-> r, expect |-> "ok"] : r \in {"{\"resonate:timeout\":\"maybe\"}", "{\"\":\"\"}", "{\"resonate:invoke\":\"w\",\"resonate:timeout\":\"true\"}"}}
  \cup {[raw |-> r, expect |-> "4xx"] : r \in {"{\"a\":1}", "{\"a\":null,\"b\":{}}"}}
\* receivers of callbacks / subscriptions (stored, decoded at dispatch)
RecvCases ==
  {[raw |-> r, expect |-> "4xx"] : r \in {Absent}}
  \cup {[raw |-> r, expect |-> "ok"] : r \in {"null", "\"w\"", "\"\"", "123", "[]", "{}", "true", "{\"type\":\"poll\",\"data\":null}",
        "{\"type\":\"poll\"}", "{\"type\":\"nope\",\"data\":{}}", "{\"type\":\"poll\",\"data\":{\"group\":\"\"}}",
        "{\"type\":\"http\",\"data\":{\"url\":\"::\"}}", "{\"type\":\"poll\",\"data\":{\"group\":\"default\",\"id\":\"@SID@\"}}",
        "\"poll://default/@SID@\"", "\"%zz\"", "{\"type\":123}"}}
CronCases ==
  {[raw |-> r, expect |-> "4xx"] : r \in {Absent, "null", "\"\"", "123", "\"* * *\"", "\"bogus\"", "\"61 * * * * *\"",
                                          "\"TZ=UTC\"", "\"CRON_TZ=\"", "\"TZ=Nowhere/Land * * * * *\"", "\"@every\"", "\"@every 1x\"", "\"*/0 * * * *\""}}
  \cup {[raw |-> r, expect |-> "ok"] : r \in {"\"* * * * * *\"", "\"@every 1s\"", "\"* * * * *\"", "\"0 0 31 2 *\"", "\"TZ=UTC * * * * *\""}}
TemplateCases ==
  {[raw |-> r, expect |-> "4xx"] : r \in WrongTypeForString \cup {Absent, "null", "\"\""}}
  \cup {[raw |-> r, expect |-> "ok"] : r \in HostileStrings \cup {"\"{{.id}}.{{.timestamp}}\"", "\"{{.id}}{{.id}}{{.timestamp}}\"", "\"fixed-@SID@\"",
                                                             "\"odd.{{.timestamp.unix}}\"", "\"{{index .id 99}}\"", "\"{{.id | printf \\\"%d\\\"}}\""}}

(***************************************************************************)
(* Steps.                                                                  *)
(***************************************************************************)
Http(name, method, path, body) == [do |-> "http", name |-> name, method |-> method, path |-> path, headers |-> ("x-verif" :> "1"), body |-> body]
HttpH(name, method, path, body, hk, hv) == [do |-> "http", name |-> name, method |-> method, path |-> path, headers |-> (hk :> hv), body |-> body]
Sleep(ms) == [do |-> "sleep", ms |-> ms]
Probe(name) == [do |-> "probe", name |-> name]
Kill == [do |-> "kill"]
Start == [do |-> "start"]
Db == [do |-> "db"]
Listen == [do |-> "listen", group |-> "default", id |-> "@SID@"]

\* what every accepted entity must survive: background cycles, a hard kill, a restart on the
\* same database, more background cycles
\* ... and after which the background workers must still do their work for everybody else: a
\* canary promise routed to a listener of its own is dispatched and, its timeout being short,
\* timed out (a wedged dispatch or sweep leaves the process up and answering, so a probe is not enough)
Canary(k) ==
  << [do |-> "listen", group |-> "canary", id |-> "@SID@"],
     \* two canaries: one routed (it lives long enough to be dispatched whatever the load), one short-lived
     Http("canary-create", "POST", "/promises", "{\"id\":\"canary-" \o k \o "-@SID@\",\"timeout\":@NOW+600000@,\"tags\":{\"resonate:invoke\":\"poll://canary/@SID@\"}}"),
     Http("canary-create", "POST", "/promises", "{\"id\":\"canary-t-" \o k \o "-@SID@\",\"timeout\":@NOW+300@}"),
     \* the harness repeats these two looks until what is awaited is there, for at most 20 s (the
     \* periods involved are 50 - 300 ms: a loaded machine is slow, a wedged server never gets there)
     [do |-> "received", name |-> "canary-" \o k, group |-> "canary", id |-> "@SID@", ms |-> 20000,
      until |-> [task |-> "__invoke:canary-" \o k \o "-@SID@"]],
     [do |-> "rows", name |-> "canary-t-" \o k, ms |-> 20000, until |-> [table |-> "promises", id |-> "canary-t-" \o k \o "-@SID@", state |-> 16]] >>
\* ... and the schedule sweep: a schedule created afterwards fires
CanaryS(k) ==
  << Http("canary-create", "POST", "/schedules", "{\"id\":\"canary-s-" \o k \o "-@SID@\",\"cron\":\"* * * * * *\",\"promiseId\":\"{{.id}}.{{.timestamp}}\",\"promiseTimeout\":60000}"),
     [do |-> "rows", name |-> "canary-s-" \o k, ms |-> 20000, until |-> [table |-> "promises", sched |-> "canary-s-" \o k \o "-@SID@"]] >>
Aftermath(ms) == << Sleep(ms), Probe("after-cycles"), Db >> \o Canary("1") \o << Kill, Start, Probe("after-restart"), Sleep(ms), Probe("after-restart-cycles"), Db >> \o Canary("2")

PromiseFields == << <<"id", "\"@SID@\"">>, <<"timeout", "@NOW+400@">>,
                    <<"param", "{\"headers\":{\"h\":\"v\"},\"data\":\"ZGF0YQ==\"}">>, <<"tags", "{\"a\":\"b\"}">> >>
CreateP(id, timeout, tags) == Http("setup", "POST", "/promises", Obj(<< <<"id", "\"" \o id \o "\"">>, <<"timeout", timeout>>, <<"tags", tags>> >>))

\* --- POST /promises
PromiseScenarios ==
  LET cases == {<<"id", c>> : c \in StrCases(TRUE)} \cup {<<"timeout", c>> : c \in IntCases(FALSE)}
               \cup {<<"param", c>> : c \in ValueCases} \cup {<<"tags", c>> : c \in TagCases}
  IN {[ep |-> "POST /promises", field |-> x[1], raw |-> x[2].raw, expect |-> x[2].expect,
       steps |-> << Listen, Http("hostile", "POST", "/promises", Obj(With(PromiseFields, x[1], x[2].raw))) >>
                 \o << Http("read", "GET", "/promises/@SID@", ""), Http("search", "GET", "/promises?id=*&limit=5", "") >>
                 \o Aftermath(900)] : x \in cases}

\* --- PATCH /promises/:id
CompleteFields == << <<"state", "\"RESOLVED\"">>, <<"value", "{\"data\":\"dg==\"}">> >>
CompleteScenarios ==
  LET cases == {<<"state", c>> : c \in StrCases(TRUE) \cup {[raw |-> "\"PENDING\"", expect |-> "4xx"], [raw |-> "\"REJECTED_TIMEDOUT\"", expect |-> "4xx"],
                                                           [raw |-> "\"resolved\"", expect |-> "ok"]}}
               \cup {<<"value", c>> : c \in ValueCases}
  IN {[ep |-> "PATCH /promises", field |-> x[1], raw |-> x[2].raw, expect |-> x[2].expect,
       steps |-> << CreateP("@SID@", "@NOW+60000@", "{}"),
                    Http("hostile", "PATCH", "/promises/@SID@", Obj(With(CompleteFields, x[1], x[2].raw))),
                    Http("read", "GET", "/promises/@SID@", "") >> \o Aftermath(300)] : x \in cases}

\* --- POST /callbacks and /subscriptions: the registration is stored; when the awaited
\*     promise completes it becomes a task whose receiver is decoded by the sender
CallbackFields == << <<"Id", "\"cb-@SID@\"">>, <<"promiseId", "\"@SID@\"">>, <<"rootPromiseId", "\"root-@SID@\"">>,
                     <<"timeout", "@NOW+60000@">>, <<"recv", "\"poll://default/@SID@\"">> >>
SubscriptionFields == << <<"Id", "\"sub-@SID@\"">>, <<"promiseId", "\"@SID@\"">>, <<"timeout", "@NOW+60000@">>,
                         <<"recv", "\"poll://default/@SID@\"">> >>
RegistrationScenarios ==
  LET ccases == {<<"promiseId", c>> : c \in StrCases(TRUE)} \cup {<<"rootPromiseId", c>> : c \in StrCases(TRUE)}
                \cup {<<"timeout", c>> : c \in IntCases(FALSE)} \cup {<<"recv", c>> : c \in RecvCases}
                \cup {<<"rootPromiseId", [raw |-> "\"@SID@\"", expect |-> "4xx"]>>}       \* awaiting itself
      scases == {<<"Id", c>> : c \in StrCases(TRUE)} \cup {<<"recv", c>> : c \in RecvCases} \cup {<<"timeout", c>> : c \in IntCases(FALSE)}
      life == << Http("complete", "PATCH", "/promises/@SID@", "{\"state\":\"RESOLVED\"}") >> \o Aftermath(800)
  IN {[ep |-> "POST /callbacks", field |-> x[1], raw |-> x[2].raw, expect |-> x[2].expect,
       steps |-> << Listen, CreateP("@SID@", "@NOW+60000@", "{}"), CreateP("root-@SID@", "@NOW+60000@", "{}"),
                    Http("hostile", "POST", "/callbacks", Obj(With(CallbackFields, x[1], x[2].raw))) >> \o life] : x \in ccases}
     \cup
     {[ep |-> "POST /subscriptions", field |-> x[1], raw |-> x[2].raw, expect |-> x[2].expect,
       steps |-> << Listen, CreateP("@SID@", "@NOW+60000@", "{}"),
                    Http("hostile", "POST", "/subscriptions", Obj(With(SubscriptionFields, x[1], x[2].raw))) >> \o life] : x \in scases}

\* --- POST /schedules: the schedule is stored; the firing cycle expands the id template and
\*     creates (and routes) the promise
ScheduleFields == << <<"id", "\"s-@SID@\"">>, <<"cron", "\"* * * * * *\"">>, <<"promiseId", "\"{{.id}}.{{.timestamp}}\"">>,
                     <<"promiseTimeout", "1000">>, <<"promiseParam", "{\"data\":\"cA==\"}">>, <<"promiseTags", "{\"k\":\"v\"}">>,
                     <<"tags", "{}">>, <<"desc", "\"d\"">> >>
ScheduleScenarios ==
  LET cases == {<<"id", c>> : c \in StrCases(TRUE)} \cup {<<"cron", c>> : c \in CronCases} \cup {<<"promiseId", c>> : c \in TemplateCases}
               \cup {<<"promiseTimeout", c>> : c \in IntCases(FALSE)} \cup {<<"promiseParam", c>> : c \in ValueCases}
               \cup {<<"promiseTags", c>> : c \in TagCases} \cup {<<"tags", c>> : c \in ObjCases} \cup {<<"desc", c>> : c \in StrCases(FALSE)}
  IN {[ep |-> "POST /schedules", field |-> x[1], raw |-> x[2].raw, expect |-> x[2].expect,
       steps |-> << Listen, Http("hostile", "POST", "/schedules", Obj(With(ScheduleFields, x[1], x[2].raw))),
                    Http("read", "GET", "/schedules/s-@SID@", ""), Http("search", "GET", "/schedules?id=*", "") >> \o Aftermath(1700) \o CanaryS("1")] : x \in cases}

\* (a lease of the largest ttl: the sweeps are rare, so that the heartbeat - which computes the lease end anew - comes before
\* a sweep could take the task away; what the heartbeat stored is read by the "finish" step)
SlowSweeps(x) == IF x[1] = "ttl" /\ x[2].raw = "9223372036854775807" THEN << "--system-signal-timeout", "2s" >> ELSE <<>>
\* --- locks and tasks
LockFields == << <<"resourceId", "\"r-@SID@\"">>, <<"executionId", "\"e\"">>, <<"processId", "\"w\"">>, <<"ttl", "200">> >>
ClaimFields == << <<"id", "\"__invoke:@SID@\"">>, <<"counter", "1">>, <<"processId", "\"w\"">>, <<"ttl", "200">> >>
TaskPromise == CreateP("@SID@", "@NOW+60000@", "{\"resonate:invoke\":\"poll://default/@SID@\"}")
LockTaskScenarios ==
  LET lcases == {<<"resourceId", c>> : c \in StrCases(TRUE)} \cup {<<"executionId", c>> : c \in StrCases(TRUE)}
                \cup {<<"processId", c>> : c \in StrCases(TRUE)} \cup {<<"ttl", c>> : c \in IntCases(FALSE) \ {[raw |-> "-1", expect |-> "ok"], [raw |-> "-9223372036854775808", expect |-> "ok"]}}
                \cup {<<"ttl", [raw |-> "-1", expect |-> "4xx"]>>}
      tcases == {<<"id", c>> : c \in StrCases(TRUE)} \cup {<<"counter", c>> : c \in IntCases(TRUE)} \cup {<<"processId", c>> : c \in StrCases(TRUE)}
                \cup {<<"ttl", [raw |-> "-1", expect |-> "4xx"]>>, <<"ttl", [raw |-> "9223372036854775807", expect |-> "ok"]>>}
      paths == {"/tasks/claim/x/abc", "/tasks/claim/x/-1", "/tasks/claim/x/99999999999999999999", "/tasks/claim/__invoke:@SID@/1",
                "/tasks/complete/x/1.5", "/tasks/heartbeat/x/0", "/tasks/claim//1", "/promises/", "/schedules/", "/nope"}
  IN {[ep |-> "POST /locks/acquire", field |-> x[1], raw |-> x[2].raw, expect |-> x[2].expect,
       steps |-> << Http("hostile", "POST", "/locks/acquire", Obj(With(LockFields, x[1], x[2].raw))),
                    Http("heartbeat", "POST", "/locks/heartbeat", "{\"processId\":\"w\"}") >> \o Aftermath(400)] : x \in lcases}
     \cup
     {[ep |-> "POST /tasks/claim", field |-> x[1], raw |-> x[2].raw, expect |-> x[2].expect, args |-> SlowSweeps(x),
       steps |-> << TaskPromise, Http("hostile", "POST", "/tasks/claim", Obj(With(ClaimFields, x[1], x[2].raw))),
                    Http("heartbeat", "POST", "/tasks/heartbeat", "{\"processId\":\"w\"}"),
                    \* (the task row is read again: a lease end the heartbeat could not represent would show here)
                    Http("finish", "POST", "/tasks/complete", "{\"id\":\"__invoke:@SID@\",\"counter\":1}") >> \o Aftermath(500)] : x \in tcases}
     \cup
     {[ep |-> "GET path", field |-> "path", raw |-> p, expect |-> "ok",
       steps |-> << TaskPromise, Http("hostile", "GET", p, "") >> \o Aftermath(300)] : p \in paths}

\* --- the remaining POST endpoints: create-with-task (nested objects), lock release / heartbeat, task complete / heartbeat
TaskBodyFields == << <<"processId", "\"w\"">>, <<"ttl", "200">> >>
PromiseTaskBody(pf, tf) == "{\"promise\":" \o Obj(pf) \o ",\"task\":" \o Obj(tf) \o "}"
RoutedPromiseFields == With(PromiseFields, "tags", "{\"resonate:invoke\":\"poll://default/@SID@\"}")
MoreScenarios ==
  LET pcases == {<<"id", c>> : c \in StrCases(TRUE)} \cup {<<"timeout", c>> : c \in IntCases(FALSE)} \cup {<<"tags", c>> : c \in TagCases}
      tcases == {<<"processId", c>> : c \in StrCases(TRUE)} \cup {<<"ttl", c>> : c \in IntCases(FALSE) \ {[raw |-> "-1", expect |-> "ok"], [raw |-> "-9223372036854775808", expect |-> "ok"]}}
                \cup {<<"ttl", [raw |-> "-1", expect |-> "4xx"]>>}
      whole == {[raw |-> "{\"task\":{\"processId\":\"w\",\"ttl\":5}}", expect |-> "4xx"], [raw |-> "{\"promise\":{\"id\":\"@SID@\",\"timeout\":@NOW+500@}}", expect |-> "4xx"],
                [raw |-> "{\"promise\":null,\"task\":null}", expect |-> "4xx"], [raw |-> "{\"promise\":[],\"task\":{}}", expect |-> "4xx"]}
      rel == {<<"resourceId", c>> : c \in StrCases(TRUE)} \cup {<<"executionId", c>> : c \in StrCases(TRUE)}
      pidc == {<<"processId", c>> : c \in StrCases(TRUE)}
      ctc == {<<"id", c>> : c \in StrCases(TRUE)} \cup {<<"counter", c>> : c \in IntCases(TRUE)}
      RelFields == << <<"resourceId", "\"r-@SID@\"">>, <<"executionId", "\"e\"">> >>
      PidFields == << <<"processId", "\"w\"">> >>
      CtFields == << <<"id", "\"__invoke:@SID@\"">>, <<"counter", "1">> >>
      \* (a lease long enough not to run out between the two looks at the database around the hostile request)
      LockSetup == Http("setup", "POST", "/locks/acquire", Obj(With(LockFields, "ttl", "600000")))
  IN {[ep |-> "POST /promises/task", field |-> "promise." \o x[1], raw |-> x[2].raw, expect |-> x[2].expect,
       steps |-> << Listen, Http("hostile", "POST", "/promises/task", PromiseTaskBody(With(RoutedPromiseFields, x[1], x[2].raw), TaskBodyFields)),
                    Http("read", "GET", "/promises/@SID@", "") >> \o Aftermath(700)] : x \in pcases}
     \cup
     {[ep |-> "POST /promises/task", field |-> "task." \o x[1], raw |-> x[2].raw, expect |-> x[2].expect, args |-> SlowSweeps(x),
       steps |-> << Listen, Http("hostile", "POST", "/promises/task", PromiseTaskBody(RoutedPromiseFields, With(TaskBodyFields, x[1], x[2].raw))),
                    Http("heartbeat", "POST", "/tasks/heartbeat", "{\"processId\":\"w\"}"),
                    Http("finish", "POST", "/tasks/complete", "{\"id\":\"__invoke:@SID@\",\"counter\":1}") >> \o Aftermath(600)] : x \in tcases}
     \cup
     {[ep |-> "POST /promises/task", field |-> "body", raw |-> w.raw, expect |-> w.expect,
       steps |-> << Http("hostile", "POST", "/promises/task", w.raw) >> \o Aftermath(200)] : w \in whole}
     \cup
     {[ep |-> "POST /locks/release", field |-> x[1], raw |-> x[2].raw, expect |-> x[2].expect,
       steps |-> << LockSetup, Http("hostile", "POST", "/locks/release", Obj(With(RelFields, x[1], x[2].raw))) >> \o Aftermath(300)] : x \in rel}
     \cup
     {[ep |-> "POST /locks/heartbeat", field |-> x[1], raw |-> x[2].raw, expect |-> x[2].expect,
       steps |-> << LockSetup, Http("hostile", "POST", "/locks/heartbeat", Obj(With(PidFields, x[1], x[2].raw))) >> \o Aftermath(300)] : x \in pidc}
     \cup
     {[ep |-> "POST /tasks/heartbeat", field |-> x[1], raw |-> x[2].raw, expect |-> x[2].expect,
       steps |-> << TaskPromise, Http("hostile", "POST", "/tasks/heartbeat", Obj(With(PidFields, x[1], x[2].raw))) >> \o Aftermath(300)] : x \in pidc}
     \cup
     {[ep |-> "POST /tasks/complete", field |-> x[1], raw |-> x[2].raw, expect |-> x[2].expect,
       steps |-> << TaskPromise, Http("claim", "POST", "/tasks/claim", Obj(ClaimFields)),
                    Http("hostile", "POST", "/tasks/complete", Obj(With(CtFields, x[1], x[2].raw))) >> \o Aftermath(400)] : x \in ctc}

\* --- request headers that steer the kernel: idempotency keys and the strict flag
HeaderScenarios ==
  LET hs == { <<"strict", "maybe">>, <<"strict", "">>, <<"strict", "TRUE">>, <<"strict", "1">>, <<"strict", "0">>,
              <<"idempotency-key", "@LONG@">>, <<"idempotency-key", "{{.id}}">>, <<"idempotency-key", "a b  c">>, <<"idempotency-key", "null">> }
  IN {[ep |-> "POST /promises", field |-> "header " \o h[1], raw |-> h[2], expect |-> "ok",
       steps |-> << HttpH("hostile", "POST", "/promises", Obj(PromiseFields), h[1], h[2]),
                    HttpH("again", "POST", "/promises", Obj(PromiseFields), h[1], h[2]), Http("read", "GET", "/promises/@SID@", "") >> \o Aftermath(600)] : h \in hs}
     \cup
     {[ep |-> "PATCH /promises", field |-> "header " \o h[1], raw |-> h[2], expect |-> "ok",
       steps |-> << CreateP("@SID@", "@NOW+60000@", "{}"), HttpH("hostile", "PATCH", "/promises/@SID@", Obj(CompleteFields), h[1], h[2]),
                    HttpH("again", "PATCH", "/promises/@SID@", Obj(CompleteFields), h[1], h[2]) >> \o Aftermath(300)] : h \in hs}

\* --- searches: limits, states, cursors
SearchScenarios ==
  LET qs == {"?id=*&limit=-1", "?id=*&limit=0", "?id=*&limit=101", "?id=*&limit=abc", "?id=&limit=1", "?limit=1", "?id=*&state=bogus",
             "?id=*&cursor=garbage", "?id=*&cursor=eyJhbGciOiJIUzI1NiJ9.e30.x", "?id=%25&tags[a]=b", "?id=*&tags=zz", "?id=@LONG@"}
  IN {[ep |-> "GET /promises", field |-> "query", raw |-> q, expect |-> IF q \in {"?id=%25&tags[a]=b", "?id=@LONG@", "?id=*&limit=0", "?id=*&tags=zz"} THEN "ok" ELSE "4xx",
       steps |-> << CreateP("@SID@", "@NOW+60000@", "{}"), Http("hostile", "GET", "/promises" \o q, "") >> \o Aftermath(200)] : q \in qs}
     \cup
     {[ep |-> "GET /schedules", field |-> "query", raw |-> q, expect |-> IF q \in {"?id=%25&tags[a]=b", "?id=@LONG@", "?id=*&limit=0", "?id=*&tags=zz", "?id=*&state=bogus"} THEN "ok" ELSE "4xx",
       steps |-> << Http("hostile", "GET", "/schedules" \o q, "") >> \o Aftermath(200)] : q \in qs}

\* --- a genuine cursor of one search handed to the other search (and a promise cursor replayed with other filters)
CursorScenarios ==
  LET three == << CreateP("a-@SID@", "@NOW+60000@", "{}"), CreateP("b-@SID@", "@NOW+60000@", "{}"), CreateP("c-@SID@", "@NOW+60000@", "{}"),
                  Http("s1", "POST", "/schedules", Obj(With(With(ScheduleFields, "id", "\"s1-@SID@\""), "cron", "\"0 0 1 1 *\""))),
                  Http("s2", "POST", "/schedules", Obj(With(With(ScheduleFields, "id", "\"s2-@SID@\""), "cron", "\"0 0 1 1 *\""))),
                  Http("ppage", "GET", "/promises?id=*&limit=1", ""), Http("spage", "GET", "/schedules?id=*&limit=1", "") >>
      uses == { <<"promise cursor to schedules", "/schedules?cursor=@JSON:ppage:cursor@">>, <<"schedule cursor to promises", "/promises?cursor=@JSON:spage:cursor@">>,
                <<"promise cursor with other filters", "/promises?id=zzz*&state=resolved&limit=5&cursor=@JSON:ppage:cursor@">>,
                <<"promise cursor twice", "/promises?cursor=@JSON:ppage:cursor@&cursor=@JSON:ppage:cursor@">> }
  IN {[ep |-> "GET search", field |-> u[1], raw |-> u[2], expect |-> "ok",
       steps |-> three \o << Http("hostile", "GET", u[2], ""), Http("again", "GET", "/promises?id=*&limit=2", "") >> \o Aftermath(300)] : u \in uses}

\* --- malformed bodies on every POST endpoint
MalformedScenarios ==
  {[ep |-> p, field |-> "body", raw |-> b, expect |-> "4xx",
    steps |-> << Http("hostile", "POST", p, b) >> \o Aftermath(200)] :
      p \in {"/promises", "/promises/task", "/callbacks", "/subscriptions", "/schedules", "/locks/acquire", "/locks/release",
             "/locks/heartbeat", "/tasks/claim", "/tasks/complete", "/tasks/heartbeat"},
      b \in {"", "{", "null", "[]", "\"s\"", "{\"id\":", "@LONG@"}}

\* --- gRPC: messages that the HTTP decoder would refuse can be expressed here.  Where the gRPC
\*     front end is merely more permissive than the HTTP one (empty ids, a negative lock ttl)
\*     the expectation is "ok": the statement requires survival, not a particular validation.
Grpc(name, rpc, msg) == [do |-> "grpc", name |-> name, rpc |-> rpc, msg |-> msg]
GrpcScenarios ==
  LET cases ==
    { <<"CreateCallback", "no recv", "{\"id\":\"cb\",\"promiseId\":\"@SID@\",\"rootPromiseId\":\"root-@SID@\",\"timeout\":\"@NOW+60000@\"}", "4xx">>,
      <<"CreateSubscription", "no recv", "{\"id\":\"s\",\"promiseId\":\"@SID@\",\"timeout\":\"@NOW+60000@\"}", "4xx">>,
      <<"CreateCallback", "empty logical recv", "{\"id\":\"cb\",\"promiseId\":\"@SID@\",\"rootPromiseId\":\"root-@SID@\",\"timeout\":\"@NOW+60000@\",\"recv\":{\"logical\":\"\"}}", "ok">>,
      <<"CreateCallback", "physical recv without data", "{\"id\":\"cb\",\"promiseId\":\"@SID@\",\"rootPromiseId\":\"root-@SID@\",\"timeout\":\"@NOW+60000@\",\"recv\":{\"physical\":{\"type\":\"poll\"}}}", "ok">>,
      <<"CreateCallback", "awaiting itself", "{\"id\":\"cb\",\"promiseId\":\"@SID@\",\"rootPromiseId\":\"@SID@\",\"timeout\":\"@NOW+60000@\",\"recv\":{\"logical\":\"w\"}}", "4xx">>,
      <<"ClaimTask", "negative ttl", "{\"id\":\"__invoke:@SID@\",\"counter\":1,\"processId\":\"w\",\"ttl\":-1}", "4xx">>,
      <<"ClaimTask", "empty process id", "{\"id\":\"__invoke:@SID@\",\"counter\":1,\"processId\":\"\",\"ttl\":100}", "4xx">>,
      <<"ClaimTask", "negative counter", "{\"id\":\"__invoke:@SID@\",\"counter\":-1,\"processId\":\"w\",\"ttl\":100}", "ok">>,
      <<"ClaimTask", "empty id", "{\"id\":\"\",\"counter\":1,\"processId\":\"w\",\"ttl\":100}", "ok">>,
      <<"CompleteTask", "empty id", "{\"id\":\"\",\"counter\":0}", "ok">>,
      <<"HeartbeatTasks", "empty process id", "{\"processId\":\"\"}", "ok">>,
      <<"CreatePromise", "empty id", "{\"id\":\"\",\"timeout\":\"@NOW+500@\"}", "ok">>,
      <<"CreatePromise", "negative timeout", "{\"id\":\"g-@SID@\",\"timeout\":\"-5\"}", "ok">>,
      <<"CreatePromise", "huge timeout", "{\"id\":\"g-@SID@\",\"timeout\":\"9223372036854775807\"}", "ok">>,
      <<"CreatePromise", "routing tag null", "{\"id\":\"g-@SID@\",\"timeout\":\"@NOW+500@\",\"tags\":{\"resonate:invoke\":\"null\"}}", "ok">>,
      <<"CreatePromiseAndTask", "no task", "{\"promise\":{\"id\":\"g-@SID@\",\"timeout\":\"@NOW+500@\",\"tags\":{\"resonate:invoke\":\"w\"}}}", "4xx">>,
      <<"CreatePromiseAndTask", "no promise", "{\"task\":{\"processId\":\"w\",\"ttl\":10}}", "4xx">>,
      <<"CreatePromiseAndTask", "unrouted", "{\"promise\":{\"id\":\"g-@SID@\",\"timeout\":\"@NOW+500@\"},\"task\":{\"processId\":\"w\",\"ttl\":10}}", "4xx">>,
      <<"CreatePromiseAndTask", "negative ttl", "{\"promise\":{\"id\":\"g-@SID@\",\"timeout\":\"@NOW+500@\",\"tags\":{\"resonate:invoke\":\"w\"}},\"task\":{\"processId\":\"w\",\"ttl\":-3}}", "4xx">>,
      <<"CreatePromiseAndTask", "empty process id", "{\"promise\":{\"id\":\"g-@SID@\",\"timeout\":\"@NOW+500@\",\"tags\":{\"resonate:invoke\":\"w\"}},\"task\":{\"processId\":\"\",\"ttl\":3}}", "ok">>,
      <<"ResolvePromise", "no value", "{\"id\":\"@SID@\"}", "ok">>,
      <<"CreateSchedule", "bad cron", "{\"id\":\"gs-@SID@\",\"cron\":\"bogus\",\"promiseId\":\"x\",\"promiseTimeout\":\"5\"}", "4xx">>,
      <<"CreateSchedule", "cron with a time zone and nothing else", "{\"id\":\"gs-@SID@\",\"cron\":\"TZ=UTC\",\"promiseId\":\"x\",\"promiseTimeout\":\"5\"}", "4xx">>,
      <<"CreateSchedule", "empty cron", "{\"id\":\"gs-@SID@\",\"cron\":\"\",\"promiseId\":\"x\",\"promiseTimeout\":\"5\"}", "4xx">>,
      <<"CreateSchedule", "cron step zero", "{\"id\":\"gs-@SID@\",\"cron\":\"*/0 * * * *\",\"promiseId\":\"x\",\"promiseTimeout\":\"5\"}", "4xx">>,
      <<"CreateSchedule", "broken template", "{\"id\":\"gs-@SID@\",\"cron\":\"* * * * * *\",\"promiseId\":\"{{.id\",\"promiseTimeout\":\"1000\"}", "ok">>,
      <<"CreateSchedule", "routed promise", "{\"id\":\"gs-@SID@\",\"cron\":\"* * * * * *\",\"promiseId\":\"{{.id}}.{{.timestamp}}\",\"promiseTimeout\":\"1000\",\"promiseTags\":{\"resonate:invoke\":\"poll://default/@SID@\"}}", "ok">>,
      <<"CreateSchedule", "empty promise id", "{\"id\":\"gs-@SID@\",\"cron\":\"* * * * * *\",\"promiseId\":\"\",\"promiseTimeout\":\"1000\"}", "ok">>,
      <<"AcquireLock", "negative ttl", "{\"resourceId\":\"r\",\"executionId\":\"e\",\"processId\":\"w\",\"ttl\":\"-1\"}", "ok">>,
      <<"AcquireLock", "empty ids", "{\"resourceId\":\"\",\"executionId\":\"\",\"processId\":\"\",\"ttl\":\"5\"}", "ok">>,
      <<"SearchPromises", "negative limit", "{\"id\":\"*\",\"limit\":-5}", "4xx">>,
      <<"SearchPromises", "huge limit", "{\"id\":\"*\",\"limit\":100000}", "4xx">>,
      <<"SearchPromises", "bad cursor", "{\"cursor\":\"garbage\"}", "4xx">>,
      <<"SearchPromises", "unknown state", "{\"id\":\"*\",\"state\":99}", "4xx">>,
      <<"SearchPromises", "empty id", "{\"id\":\"\"}", "4xx">>,
      <<"SearchSchedules", "bad cursor", "{\"cursor\":\"a.b.c\"}", "4xx">>,
      <<"ReadPromise", "empty id", "{\"id\":\"\"}", "ok">>,
      <<"ReadSchedule", "empty id", "{\"id\":\"\"}", "ok">>,
      <<"DeleteSchedule", "empty id", "{\"id\":\"\"}", "ok">> }
  IN {[ep |-> "grpc " \o x[1], field |-> x[2], raw |-> x[3], expect |-> x[4],
       steps |-> << Listen, CreateP("@SID@", "@NOW+60000@", "{\"resonate:invoke\":\"poll://default/@SID@\"}"), CreateP("root-@SID@", "@NOW+60000@", "{}"),
                    Grpc("hostile", x[1], x[3]),
                    Http("complete", "PATCH", "/promises/@SID@", "{\"state\":\"RESOLVED\"}") >> \o Aftermath(1300)] : x \in cases}

\* --- C07, "a claimed task is not taken away before its lease has run out", for the largest ttl values: the lease end is
\*     a sum that must not wrap (a lease that ended before it began is swept at once).  Claim or create-with-task, let a few
\*     sweeps pass, then finish the task with the counter that was granted: it must still be that worker's.
LeaseScenarios ==
  {[ep |-> "lease", field |-> how, raw |-> ttl, expect |-> "ok",
    steps |-> (IF how = "claim"
               THEN << TaskPromise, Http("hostile", "POST", "/tasks/claim", "{\"id\":\"__invoke:@SID@\",\"counter\":1,\"processId\":\"w\",\"ttl\":" \o ttl \o "}") >>
               ELSE << Http("hostile", "POST", "/promises/task", "{\"promise\":{\"id\":\"@SID@\",\"timeout\":@NOW+60000@,\"tags\":{\"resonate:invoke\":\"poll://default/@SID@\"}},\"task\":{\"processId\":\"w\",\"ttl\":" \o ttl \o "}}") >>)
              \o << Sleep(400), Http("finish", "POST", "/tasks/complete", "{\"id\":\"__invoke:@SID@\",\"counter\":1}") >>]
   : how \in {"claim", "create-with-task"}, ttl \in {"9223372036854775807", "9223372036854775000", "9000000000000000000", "3600000"}}

Scenarios == LeaseScenarios \cup PromiseScenarios \cup CompleteScenarios \cup RegistrationScenarios \cup ScheduleScenarios
             \cup LockTaskScenarios \cup SearchScenarios \cup MalformedScenarios \cup GrpcScenarios
             \cup MoreScenarios \cup HeaderScenarios \cup CursorScenarios
=============================================================================
