SPECIFICATION Spec
CONSTANTS
  CronPeriod <- MCCronPeriod
  Expand <- MCExpand
  PIds = {"p1", "p2"}
  Keys = {"k1"}
  Timeouts = {2}
  TagSets <- WakeTagSets
  SubIds = {"s1"}
  Pids = {"w1"}
  Ttls = {1}
  Counters = {1}
  LockIds = {"l1"}
  ExecIds = {"e1"}
  SchedIds = {"sc1"}
  Crons = {2}
  Templates = {"T"}
  PTimeouts = {1}
  MaxTime = 3
  MaxSteps = 4
  Delay = 1
  MaxCounter = 2
  MaxAttempt = 1
  Families = {"promise", "wake"}
INVARIANTS
  TypeOK
  I_C05_NoOrphanRegistration
  I_C05_AckMeansRegisteredOrCompleted
  I_C08_NoActiveInvokeOfCompleted
  I_C04_NoTimeoutBeforeDeadline
PROPERTIES
  A_C01_WriteOnce
  A_C01_NeverDisappears
  A_C05_RegistrationsConverted
  A_C05_NoneLeftBehind
  A_C05_ConvertedTaskIsLive
  A_C08_FinishedWithPromise
  A_C08_RoutedHasTask
  A_C07_TasksNeverDisappear
  A_C07_FinishedIsAbsorbing
