------------------------------ MODULE FrontGen ------------------------------
(* emits the scenario table of Front.tla as ndjson (spec -> implementation) *)
EXTENDS Front
CONSTANT OutFile
RECURSIVE SetToSeq(_)
SetToSeq(S) == IF S = {} THEN <<>> ELSE LET x == CHOOSE x \in S : TRUE IN <<x>> \o SetToSeq(S \ {x})
All == SetToSeq(Scenarios)
\* the hostile request is bracketed by two looks at the database file (an invalid request leaves no trace)
RECURSIVE Wrap(_)
Wrap(steps) ==
  IF steps = <<>> THEN <<>>
  ELSE IF "name" \in DOMAIN Head(steps) /\ Head(steps).name = "hostile"
       THEN <<[do |-> "db"], Head(steps), [do |-> "db"]>> \o Wrap(Tail(steps))
       ELSE <<Head(steps)>> \o Wrap(Tail(steps))
Numbered == [i \in DOMAIN All |-> [sid |-> "s" \o ToString(i), args |-> (IF "args" \in DOMAIN All[i] THEN All[i].args ELSE <<>>), steps |-> Wrap(All[i].steps)] @@ All[i]]
ASSUME ndJsonSerialize(OutFile, Numbered)
ASSUME PrintT(<<"VECTORS", Len(All)>>)
=============================================================================
