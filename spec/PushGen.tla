------------------------------ MODULE PushGen ------------------------------
(***************************************************************************)
(* Generator of scenarios for pushx (spec -> code): a plan (a sequence of  *)
(* messages) is played eagerly - the harness hands a message over, waits   *)
(* for its request to arrive / its report when the model says that comes   *)
(* next - and the steps are printed as JSON.  The steps only pace the      *)
(* harness; what the real transport did is judged by PushTrace.tla.        *)
(***************************************************************************)
EXTENDS MC_Push
Named(seq) == [k \in DOMAIN seq |-> M("m" \o ToString(k), seq[k][1], seq[k][2])]
Singles == {<< <<a, b>> >> : a \in Reachable, b \in Behaviours} \cup {<< <<a, "200">> >> : a \in Unreachable \cup Unresolvable}
Slowly == {<<"url", "hang">>, <<"physical", "slow-200">>}
Rest == {<<"url", "200">>, <<"physical-headers", "500">>, <<"data-null", "200">>, <<"recv-null", "200">>, <<"refused", "200">>, <<"url-absent", "200">>}
Few == {<<"url", "200">>, <<"url", "404">>, <<"data-not-object", "200">>}
PlansQuick ==
  IF Size = 1
  THEN Singles \cup {<<x, y>> : x, y \in Rest} \cup {<<a, x, y>> : a \in Slowly, x, y \in Rest}
       \cup {<<a, x, y, z>> : a \in Slowly, x, y, z \in {<<"url", "200">>, <<"data-null", "200">>}}
  ELSE {<<a, x, y, z>> : a \in Slowly, x, y, z \in Few} \cup {<<a, x, y, z, <<"url", "200">> >> : a \in {<<"url", "hang">>}, x, y, z \in {<<"url", "200">>, <<"scheme-ftp", "200">>}}
CONSTANT Deep      \* thorough tier: every pair of classes as well
AllOf == {one[1] : one \in Singles}
Plans ==
  IF Deep /\ Size = 1 THEN PlansQuick \cup {<<a, b>> : a, b \in AllOf}
  ELSE PlansQuick


VARIABLES plan, k, hist
gvars == <<s, plan, k, hist>>
GInit == s = EmptyPush /\ plan \in {Named(p) : p \in Plans} /\ k = 1 /\ hist = <<>>
Note(e) == hist' = Append(hist, e)
Left == k <= Len(plan)
Busy == ~ Idle(s) /\ s.seen = Requests(s.cur)
\* the harness hands the next message over (Process runs to its end)
GSend == /\ Left /\ s.owed = {} /\ ~ CanTake(s) /\ ~ CanArrive(s)
         /\ (Idle(s) \/ (Busy /\ s.cur.beh \in {"hang", "slow-200"}))
         /\ s' = End(Enq(Begin(s, plan[k]), plan[k]), plan[k]) /\ k' = k + 1 /\ Note([e |-> "send", m |-> plan[k].id]) /\ UNCHANGED plan
GOwed == \E m \in s.owed : s' = Report(s, m, "error") /\ Note([e |-> "report", m |-> m.id]) /\ UNCHANGED <<plan, k>>
GTake == s.owed = {} /\ CanTake(s) /\ s' = Take(s) /\ UNCHANGED <<plan, k, hist>>
GArrive == s.owed = {} /\ CanArrive(s) /\ s' = Arrive(s) /\ Note([e |-> "arrive", m |-> s.cur.id]) /\ UNCHANGED <<plan, k>>
GReport == /\ s.owed = {} /\ Busy /\ ~ (Left /\ s.cur.beh \in {"hang", "slow-200"})
           /\ s' = Report(s, s.cur, ReportDue(s, s.cur)) /\ Note([e |-> "report", m |-> s.cur.id]) /\ UNCHANGED <<plan, k>>
GNext == GSend \/ GOwed \/ GTake \/ GArrive \/ GReport
GSpec == GInit /\ [][GNext]_gvars
Emit == (~ ENABLED GNext) => PrintT(<<"PUSHGEN", ToJson([size |-> Size, msgs |-> plan, steps |-> hist])>>)
\* (sanity) a finished scenario has reported every message
GDone == (~ ENABLED GNext) => \A i \in DOMAIN plan : Reported(s, plan[i])
=============================================================================
