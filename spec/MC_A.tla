-------------------------------- MODULE MC_A --------------------------------
(***************************************************************************)
(* Level A as a state machine, for exhaustive checking with TLC.           *)
(* Requests with arguments drawn from small constant sets, the five        *)
(* background effects one entity at a time, and the clock, interleaved in  *)
(* every possible way.  Step properties of Props.tla are action            *)
(* properties ([][P(db, db')]_vars), reply properties are invariants that  *)
(* quantify over every request that could be made in the state.            *)
(* One module, one cfg per property family (MC_A_*.cfg).                   *)
(***************************************************************************)
EXTENDS Props

CONSTANTS PIds, Keys, Timeouts, TagSets, SubIds, Pids, Ttls, Counters,
          LockIds, ExecIds, SchedIds, Crons, Templates, PTimeouts,
          MaxTime, MaxSteps, Delay, MaxCounter, MaxAttempt,
          Families        \* subset of {"promise","wake","task","lock","sched"}

VARIABLES db, now, steps, lapsed
vars == <<db, now, steps, lapsed>>

MCCronPeriod(c) == c                       \* a "cron" is its period
MCExpand(tpl, sid, ts) == IF tpl = "T" THEN sid \o "." \o ToString(ts) ELSE tpl

V1 == [headers |-> <<>>, data |-> "v"]
OptKeys == {None} \cup {Some(k) : k \in Keys}

CreateArgs ==
  [id : PIds, ikey : OptKeys, strict : BOOLEAN, param : {EmptyValue}, timeout : Timeouts, tags : TagSets]
CreateTaskArgs ==
  [id : PIds, ikey : OptKeys, strict : {FALSE}, param : {EmptyValue}, timeout : Timeouts, tags : TagSets,
   pid : Pids, ttl : Ttls]
CompleteArgs ==
  [id : PIds, ikey : OptKeys, strict : BOOLEAN, state : {RESOLVED, REJECTED, CANCELED}, value : {V1}]
ReadArgs == [id : PIds]
CallbackArgs == [promiseId : PIds, rootId : PIds, recv : {"\"w\""}, timeout : Timeouts]
SubArgs == [promiseId : PIds, id : SubIds, recv : {"\"w\""}, timeout : Timeouts]
TaskIds == {InvokeTaskId(p) : p \in PIds} \cup {CallbackId(r, p) : r, p \in PIds}
           \cup {SubscriptionId(p, s) : p \in PIds, s \in SubIds}
ClaimArgs == [id : TaskIds, counter : Counters, pid : Pids, ttl : Ttls]
CompleteTaskArgs == [id : TaskIds, counter : Counters]
HbArgs == [pid : Pids]
AcquireArgs == [rid : LockIds, eid : ExecIds, pid : Pids, ttl : Ttls]
ReleaseArgs == [rid : LockIds, eid : ExecIds]
SchedArgs == [id : SchedIds, desc : {""}, cron : Crons, tags : {<<>>}, promiseId : Templates,
              promiseTimeout : PTimeouts, promiseParam : {EmptyValue}, promiseTags : TagSets,
              ikey : OptKeys]
SchedIdArgs == [id : SchedIds]

Requests ==
  (IF "promise" \in Families
   THEN ({"CreatePromise"} \X CreateArgs) \cup ({"CompletePromise"} \X CompleteArgs)
        \cup ({"ReadPromise"} \X ReadArgs) ELSE {})
  \cup
  (IF "wake" \in Families
   THEN ({"CreateCallback"} \X CallbackArgs) \cup ({"CreateSubscription"} \X SubArgs) ELSE {})
  \cup
  (IF "task" \in Families
   THEN ({"CreatePromiseAndTask"} \X CreateTaskArgs) \cup ({"ClaimTask"} \X ClaimArgs)
        \cup ({"CompleteTask"} \X CompleteTaskArgs) \cup ({"HeartbeatTasks"} \X HbArgs) ELSE {})
  \cup
  (IF "lock" \in Families
   THEN ({"AcquireLock"} \X AcquireArgs) \cup ({"ReleaseLock"} \X ReleaseArgs)
        \cup ({"HeartbeatLocks"} \X HbArgs) ELSE {})
  \cup
  (IF "sched" \in Families
   THEN ({"CreateSchedule"} \X SchedArgs) \cup ({"DeleteSchedule"} \X SchedIdArgs)
        \cup ({"ReadSchedule"} \X SchedIdArgs) ELSE {})

\* tag sets used by the configurations
PromiseTagSets == {<<>>, ("resonate:timeout" :> "true"), ("resonate:invoke" :> "w")}
NoTagSets == {<<>>}
WakeTagSets == {<<>>, ("resonate:timeout" :> "true")}
TaskTagSets == {<<>>, ("resonate:invoke" :> "w")}
SchedTagSets == {<<>>, ("resonate:invoke" :> "w")}

Init == db = EmptyDB /\ now = 0 /\ steps = 0 /\ lapsed = {}

LapsedNow(S, t) == {<<x, S.tasks[x].counter>> : x \in ExpirableTasks(S, TaskBusy, t)}

Bg(S2) ==
  /\ db' = S2 /\ steps' = steps /\ now' = now
  /\ lapsed' = NextLapsed(lapsed, db, S2, now)

Request(k, a) ==
  /\ steps < MaxSteps /\ steps' = steps + 1 /\ now' = now
  /\ db' = Op(k, db, a, now).db
  /\ lapsed' = NextLapsed(lapsed, db, db', now)

BgTimeout(id) == Overdue(db, id, now) /\ Bg(TimeoutP(db, id, now))
BgFire(s)     == CanFire(db, s, now) /\ Bg(Fire(db, s, now))
BgLocks       == (\E r \in DOMAIN db.locks : db.locks[r].expiresAt <= now) /\ Bg(SweepLocks(db, now))
\* counters and attempts are bounded so that the exploration is finite
BgExpire(x)   == CanExpire(db, x, now) /\ db.tasks[x].counter < MaxCounter /\ Bg(ExpireTask(db, x, now))
BgDispatch(x, outcome) ==
  /\ CanDispatch(db, x)
  /\ (outcome = "fail" /\ now < db.tasks[x].timeout /\ db.tasks[x].mesg.type # "notify")
        => db.tasks[x].attempt < MaxAttempt
  /\ Bg(Dispatch(db, x, outcome, Delay, now))

Tick ==
  /\ now < MaxTime /\ now' = now + 1 /\ UNCHANGED <<db, steps>>
  /\ lapsed' = lapsed \cup LapsedNow(db, now + 1)

Next ==
  \/ \E rq \in Requests : Request(rq[1], rq[2])
  \/ \E id \in DOMAIN db.promises : BgTimeout(id)
  \/ \E s \in DOMAIN db.schedules : BgFire(s)
  \/ BgLocks
  \/ \E x \in DOMAIN db.tasks : BgExpire(x)
  \/ \E x \in DOMAIN db.tasks : \E oc \in {"ok", "fail"} : BgDispatch(x, oc)
  \/ Tick

Spec == Init /\ [][Next]_vars
\* clients stop, the background effects are fair: everything overdue is eventually handled
FairSpec == Init /\ [][Next]_vars
            /\ WF_vars(\E id \in DOMAIN db.promises : BgTimeout(id))
            /\ WF_vars(\E s \in DOMAIN db.schedules : BgFire(s))
            /\ WF_vars(BgLocks)
            /\ WF_vars(\E x \in DOMAIN db.tasks : BgExpire(x))

(***************************************************************************)
(* Properties.                                                             *)
(***************************************************************************)
TypeOK == WellFormed(db)

A_C01_WriteOnce          == [][C01_WriteOnce(db, db')]_vars
A_C01_PendingLeavesOnce  == [][C01_PendingLeavesOnce(db, db')]_vars
A_C01_CreationImmutable  == [][C01_CreationImmutable(db, db')]_vars
A_C01_NeverDisappears    == [][C01_NeverDisappears(db, db')]_vars
A_C01_BornPending        == [][C01_BornPending(db, db')]_vars

\* every reply any request could get in this state carries bodies that agree with the
\* store after the request
ReplyBodies(res) ==
  (IF "promise" \in DOMAIN res THEN Range(res.promise) ELSE {})
I_C01_RepliesAgree ==
  \A rq \in Requests : LET o == Op(rq[1], db, rq[2], now) IN
     \A b \in ReplyBodies(o.res) : C01_BodyAgrees(o.db, b)

\* --- C03: the declarative decision tables of the statement
EffState(p, t) == IF p.state = PENDING /\ p.timeout <= t THEN TimedoutStateOf(p.tags) ELSE p.state
EffKey(p, t)   == IF p.state = PENDING /\ p.timeout <= t THEN None ELSE p.iku
CreateTable(S, a, t) ==
  IF ~ Has(S.promises, a.id) THEN CREATED
  ELSE LET p == S.promises[a.id] IN
       IF KeyMatch(p.ikc, a.ikey) /\ ~ (a.strict /\ EffState(p, t) # PENDING) THEN OK ELSE PROMISE_EXISTS
CompleteTable(S, a, t) ==
  IF ~ Has(S.promises, a.id) THEN PROMISE_NOT_FOUND
  ELSE LET p == S.promises[a.id] IN
       IF p.state = PENDING /\ t < p.timeout THEN CREATED
       ELSE IF \/ KeyMatch(EffKey(p, t), a.ikey) /\ ~ (a.strict /\ EffState(p, t) # a.state)
               \/ ~ a.strict /\ EffState(p, t) = TIMEDOUT
            THEN OK ELSE AlreadyStatus(EffState(p, t))
I_C03_StatusTable ==
  \A rq \in Requests :
     /\ rq[1] = "CreatePromise" => Op(rq[1], db, rq[2], now).res.status = CreateTable(db, rq[2], now)
     /\ rq[1] = "CompletePromise" => Op(rq[1], db, rq[2], now).res.status = CompleteTable(db, rq[2], now)
\* a repeat (the promise exists) changes nothing but the overdue time-out of that promise
I_C03_RepeatChangesNothing ==
  \A rq \in Requests :
     (rq[1] \in {"CreatePromise", "CreatePromiseAndTask"} /\ Has(db.promises, rq[2].id)) =>
        Op(rq[1], db, rq[2], now).db = TimeoutP(db, rq[2].id, now)
I_C03_CompletedIsFinal ==
  \A rq \in Requests :
     (rq[1] = "CompletePromise" /\ Has(db.promises, rq[2].id) /\ db.promises[rq[2].id].state # PENDING) =>
        Op(rq[1], db, rq[2], now).db = db

\* --- C04
I_C04_NoPendingAfterDeadline ==
  \A rq \in Requests :
     rq[1] \in {"ReadPromise", "CompletePromise"} =>
        \A b \in ReplyBodies(Op(rq[1], db, rq[2], now).res) : C04_NotPendingAfterDeadline(b, now)
\* create: the same, except the finding F3 (a promise born overdue is reported pending)
I_C04_CreateNoPendingAfterDeadline ==
  \A rq \in Requests :
     rq[1] \in {"CreatePromise"} =>
        LET o == Op(rq[1], db, rq[2], now) IN
        \A b \in ReplyBodies(o.res) : o.res.status # CREATED => C04_NotPendingAfterDeadline(b, now)
I_C04_NoTimeoutBeforeDeadline == C04_NoTimeoutBeforeDeadline(db, now)
A_C04_CompletionShape == [][C04_CompletionShape(db, db')]_vars

\* --- C05
I_C05_NoOrphanRegistration  == C05_NoOrphanRegistration(db)
A_C05_RegistrationsConverted == [][C05_RegistrationsConverted(db, db')]_vars
A_C05_NoneLeftBehind         == [][C05_NoneLeftBehind(db, db')]_vars
A_C05_ConvertedTaskIsLive    == [][C05_ConvertedTaskIsLive(db, db')]_vars
I_C05_AckMeansRegisteredOrCompleted ==
  \A rq \in Requests :
     rq[1] \in {"CreateCallback", "CreateSubscription"} =>
        LET o == Op(rq[1], db, rq[2], now)
            a == rq[2]
            cbid == IF rq[1] = "CreateCallback" THEN CallbackId(a.rootId, a.promiseId)
                    ELSE SubscriptionId(a.promiseId, a.id)
            mesg == IF rq[1] = "CreateCallback" THEN [type |-> "resume", root |-> a.rootId, leaf |-> a.promiseId]
                    ELSE [type |-> "notify", root |-> a.promiseId, leaf |-> ""] IN
        (o.res.status \in {OK, CREATED} /\ IsSome(o.res.promise)) =>
           C05_AckMeansRegisteredOrCompleted(o.db, The(o.res.promise), cbid, mesg)

\* --- C07
A_C07_CountersNeverDecrease == [][C07_CountersNeverDecrease(db, db')]_vars
A_C07_FinishedIsAbsorbing   == [][C07_FinishedIsAbsorbing(db, db')]_vars
A_C07_TasksNeverDisappear   == [][C07_TasksNeverDisappear(db, db')]_vars
A_C07_ClaimGuard            == [][C07_ClaimGuard(db, db')]_vars
A_C07_LeaseHonoured         == [][C07_LeaseHonoured(db, db', lapsed)]_vars
A_C07_FencingOnReclaim      == [][C07_FencingOnReclaim(db, db')]_vars
\* stale and future counters are refused; a completion of a finished task is acknowledged
I_C07_CounterStatuses ==
  \A rq \in Requests :
     /\ (rq[1] = "ClaimTask" /\ Has(db.tasks, rq[2].id)) =>
          LET x == db.tasks[rq[2].id]  st == Op(rq[1], db, rq[2], now).res.status IN
          /\ st = CREATED <=> (x.state \in {T_INIT, T_ENQUEUED} /\ x.counter = rq[2].counter)
          /\ (x.state \in {T_INIT, T_ENQUEUED} /\ x.counter # rq[2].counter) => st = TASK_INVALID_COUNTER
     /\ (rq[1] = "CompleteTask" /\ Has(db.tasks, rq[2].id)) =>
          LET x == db.tasks[rq[2].id]  st == Op(rq[1], db, rq[2], now).res.status IN
          /\ st = CREATED <=> (x.state = T_CLAIMED /\ x.counter = rq[2].counter)
          /\ x.state \in {T_COMPLETED, T_TIMEDOUT} => st = OK
          /\ (x.state = T_CLAIMED /\ x.counter # rq[2].counter) => st = TASK_INVALID_COUNTER

\* --- C08
A_C08_RoutedHasTask       == [][C08_RoutedHasTask(db, db')]_vars
A_C08_FinishedWithPromise == [][C08_FinishedWithPromise(db, db')]_vars
I_C08_NoActiveInvokeOfCompleted == C08_NoActiveInvokeOfCompleted(db)
\* create-with-task on an unrouted promise is refused and changes nothing
I_C08_UnroutedRefused ==
  \A rq \in Requests :
     (rq[1] = "CreatePromiseAndTask" /\ ~ Has(db.promises, rq[2].id) /\ ~ Routed(rq[2].tags)) =>
        LET o == Op(rq[1], db, rq[2], now) IN o.db = db /\ o.res.status = RECV_NOT_FOUND

\* --- C09
A_C09_NoTransferInPlace == [][C09_NoTransferInPlace(db, db')]_vars
\* while a lease has not expired, nobody else acquires and nobody else's release has effect
I_C09_Exclusive ==
  \A rq \in Requests :
     /\ (rq[1] = "AcquireLock" /\ Has(db.locks, rq[2].rid) /\ db.locks[rq[2].rid].eid # rq[2].eid) =>
          LET o == Op(rq[1], db, rq[2], now) IN o.db = db /\ o.res.status = LOCK_ALREADY_ACQUIRED
     /\ (rq[1] = "ReleaseLock" /\ Has(db.locks, rq[2].rid) /\ db.locks[rq[2].rid].eid # rq[2].eid) =>
          LET o == Op(rq[1], db, rq[2], now) IN o.db = db /\ o.res.status = LOCK_NOT_FOUND
     /\ (rq[1] = "AcquireLock" /\ (~ Has(db.locks, rq[2].rid) \/ db.locks[rq[2].rid].eid = rq[2].eid)) =>
          LET o == Op(rq[1], db, rq[2], now) IN
          /\ o.res.status = CREATED
          /\ o.db.locks[rq[2].rid].expiresAt = now + rq[2].ttl /\ o.db.locks[rq[2].rid].eid = rq[2].eid
     /\ rq[1] = "HeartbeatLocks" =>
          LET o == Op(rq[1], db, rq[2], now) IN
          /\ DOMAIN o.db.locks = DOMAIN db.locks
          /\ \A r \in DOMAIN db.locks :
                /\ o.db.locks[r].eid = db.locks[r].eid
                /\ o.db.locks[r].expiresAt = IF db.locks[r].pid = rq[2].pid THEN now + db.locks[r].ttl
                                             ELSE db.locks[r].expiresAt
\* the holder keeps the lock until release or expiry: a row disappears only if it was
\* released by its execution or its lease had run out
A_C09_KeptUntilReleaseOrExpiry ==
  [][\A r \in (DOMAIN db.locks) \ (DOMAIN db'.locks) :
        \/ db.locks[r].expiresAt <= now
        \/ \E rq \in Requests : rq[1] = "ReleaseLock" /\ rq[2].rid = r /\ rq[2].eid = db.locks[r].eid
                                /\ db' = Op(rq[1], db, rq[2], now).db]_vars

\* --- C10
A_C10_AdvancesByOne        == [][C10_AdvancesByOne(db, db')]_vars
A_C10_NotEarly             == [][C10_NotEarly(db, db', now)]_vars
A_C10_FiringCreatesPromise == [][C10_FiringCreatesPromise(db, db')]_vars
I_C10_NextAfterCreation    == C10_NextAfterCreation(db)

\* --- C11 (level A): with fair background effects nothing overdue stays forever
\* (tasks whose counter has reached the exploration bound are exempt: their sweep is cut off
\* by the bound, not by the design)
ConvergedMC(Q, t) ==
  /\ DuePromises(Q, t) = {}
  /\ \A r \in DOMAIN Q.locks : Q.locks[r].expiresAt > t
  /\ DueSchedules(Q, t) = {}
  /\ \A x \in ExpirableTasks(Q, TaskBusy, t) : Q.tasks[x].counter >= MaxCounter
L_C11_Converges == []<>ConvergedMC(db, now)

\* bounds the exploration for the liveness configuration
NoRequests == steps <= MaxSteps
=============================================================================
