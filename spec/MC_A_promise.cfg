SPECIFICATION Spec
CONSTANTS
  CronPeriod <- MCCronPeriod
  Expand <- MCExpand
  PIds = {"p1"}
  Keys = {"k1", "k2"}
  Timeouts = {2, 3}
  TagSets <- PromiseTagSets
  SubIds = {"s1"}
  Pids = {"w1"}
  Ttls = {1}
  Counters = {1}
  LockIds = {"l1"}
  ExecIds = {"e1"}
  SchedIds = {"sc1"}
  Crons = {2}
  Templates = {"T"}
  PTimeouts = {1}
  MaxTime = 4
  MaxSteps = 4
  Delay = 1
  MaxCounter = 2
  MaxAttempt = 1
  Families = {"promise"}
INVARIANTS
  TypeOK
  I_C01_RepliesAgree
  I_C03_StatusTable
  I_C03_RepeatChangesNothing
  I_C03_CompletedIsFinal
  I_C04_NoPendingAfterDeadline
  I_C04_CreateNoPendingAfterDeadline
  I_C04_NoTimeoutBeforeDeadline
  I_C05_NoOrphanRegistration
  I_C08_NoActiveInvokeOfCompleted
PROPERTIES
  A_C01_WriteOnce
  A_C01_PendingLeavesOnce
  A_C01_CreationImmutable
  A_C01_NeverDisappears
  A_C01_BornPending
  A_C04_CompletionShape
  A_C08_RoutedHasTask
  A_C08_FinishedWithPromise
