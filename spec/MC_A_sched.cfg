SPECIFICATION Spec
CONSTANTS
  CronPeriod <- MCCronPeriod
  Expand <- MCExpand
  PIds = {"p1"}
  Keys = {"k1"}
  Timeouts = {2, 3}
  TagSets <- NoTagSets
  SubIds = {"s1"}
  Pids = {"w1"}
  Ttls = {1}
  Counters = {1}
  LockIds = {"l1"}
  ExecIds = {"e1"}
  SchedIds = {"sc1"}
  Crons = {2}
  Templates = {"T"}
  PTimeouts = {1}
  MaxTime = 6
  MaxSteps = 3
  Delay = 1
  MaxCounter = 2
  MaxAttempt = 1
  Families = {"sched"}
INVARIANTS
  TypeOK
  I_C10_NextAfterCreation
  I_C04_NoTimeoutBeforeDeadline
  I_C08_NoActiveInvokeOfCompleted
PROPERTIES
  A_C10_AdvancesByOne
  A_C10_NotEarly
  A_C10_FiringCreatesPromise
  A_C01_WriteOnce
  A_C08_RoutedHasTask
