SPECIFICATION Spec
CONSTANTS
  CronPeriod <- MCCronPeriod
  Expand <- MCExpand
  Script <- Script_notify
  Times <- Times_notify
  InitDB <- DB_notify
  Sweeps = {"EnqueueTasks"}
  MaxSweeps = 1
  Delay = 2
  Known = {"F14"}
  F1Fixed = TRUE
  Idc <- MCIdc
  Parties = 2
VIEW View
INVARIANTS
  TypeOK
  I_CommitRefines
  I_ReplyLinearizable
PROPERTIES
  A_C01
  A_C04
  A_C05
  A_C07
  A_C08
