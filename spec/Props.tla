-------------------------------- MODULE Props --------------------------------
(***************************************************************************)
(* The listed properties as named predicates over the level-A vocabulary.  *)
(* They are written from the property statements, not from the code.       *)
(* Each takes explicit arguments (the database before and after a step,    *)
(* the clock, observations) so that the same definitions are instantiated  *)
(* by the exhaustive models (MC_*.tla) and by the trace specification      *)
(* (ResonateTrace.tla), where "a step" is one store commit of the real     *)
(* server.                                                                 *)
(***************************************************************************)
EXTENDS Resonate

(***************************************************************************)
(* C01 - write-once completion, immutable creation fields.                 *)
(***************************************************************************)
Final(p) == [state |-> p.state, value |-> p.value, iku |-> p.iku, completedOn |-> p.completedOn]
Creation(p) == [param |-> p.param, timeout |-> p.timeout, tags |-> p.tags, ikc |-> p.ikc,
                createdOn |-> p.createdOn]

C01_WriteOnce(P, Q) ==
  \A id \in DOMAIN P.promises :
     P.promises[id].state # PENDING => (Has(Q.promises, id) /\ Q.promises[id] = P.promises[id])

C01_PendingLeavesOnce(P, Q) ==
  \A id \in DOMAIN P.promises :
     (P.promises[id].state = PENDING /\ Has(Q.promises, id)) =>
        \/ Q.promises[id] = P.promises[id]
        \/ /\ Q.promises[id].state \in TerminalStates
           /\ IsSome(Q.promises[id].completedOn)

C01_CreationImmutable(P, Q) ==
  \A id \in (DOMAIN P.promises) \cap (DOMAIN Q.promises) :
     Creation(Q.promises[id]) = Creation(P.promises[id])

C01_NeverDisappears(P, Q) ==
  /\ DOMAIN P.promises \subseteq DOMAIN Q.promises
  /\ Len(P.porder) <= Len(Q.porder)
  /\ SubSeq(Q.porder, 1, Len(P.porder)) = P.porder

\* a new promise is born pending with no completion data
C01_BornPending(P, Q) ==
  \A id \in (DOMAIN Q.promises) \ (DOMAIN P.promises) :
     LET q == Q.promises[id] IN
     \/ q.state = PENDING /\ q.value = EmptyValue /\ IsNone(q.iku) /\ IsNone(q.completedOn)
     \/ q.state \in TerminalStates   \* created and completed inside one batch

\* an observed promise body b (in a response, a claim payload, a notification) agrees
\* with the store: the creation fields are those of the row, a terminal body carries the
\* row's final fields and the row is terminal
C01_BodyAgrees(Q, b) ==
  /\ Has(Q.promises, b.id)
  /\ Creation(b) = Creation(Q.promises[b.id])
  /\ b.state \in TerminalStates =>
        (Q.promises[b.id].state \in TerminalStates /\ Final(b) = Final(Q.promises[b.id]))

(***************************************************************************)
(* C04 - exact time-outs.                                                  *)
(***************************************************************************)
\* a promise body reported at clock t
C04_NotPendingAfterDeadline(b, t) == b.state = PENDING => b.timeout > t

\* stored rows: nothing is timed out before its deadline.  A row timed out by the
\* server has completedOn = timeout; a user completion always has completedOn < timeout.
C04_NoTimeoutBeforeDeadline(Q, t) ==
  \A id \in DOMAIN Q.promises :
     LET q == Q.promises[id] IN
     /\ q.state = TIMEDOUT => q.timeout <= t
     /\ (q.state \in TerminalStates /\ q.completedOn = Some(q.timeout)) => q.timeout <= t

\* the shape of every completion: either a user completion strictly before the deadline,
\* or the forced time-out (state by tag, empty value, no key, completedOn = timeout)
C04_CompletionShape(P, Q) ==
  \A id \in (DOMAIN P.promises) \cap (DOMAIN Q.promises) :
     LET p == P.promises[id]  q == Q.promises[id] IN
     (p.state = PENDING /\ q.state # PENDING) =>
        \/ /\ IsSome(q.completedOn) /\ The(q.completedOn) < q.timeout
           /\ q.state \in {RESOLVED, REJECTED, CANCELED}
        \/ /\ q.completedOn = Some(q.timeout) /\ q.state = TimedoutStateOf(q.tags)
           /\ q.value = EmptyValue /\ IsNone(q.iku)

(***************************************************************************)
(* C05 - no lost wake-ups.                                                 *)
(***************************************************************************)
C05_NoOrphanRegistration(Q) ==
  \A cb \in DOMAIN Q.callbacks :
     /\ Has(Q.promises, Q.callbacks[cb].promiseId)
     /\ Q.promises[Q.callbacks[cb].promiseId].state = PENDING

TaskMatchesRegistration(x, cb) ==
  /\ x.rootId = cb.rootId /\ x.recv = cb.recv /\ x.mesg = cb.mesg /\ x.timeout = cb.timeout
  /\ x.counter = 1

\* every registration that is gone has become a task with the same id (conversion),
\* and the promise it was on is no longer pending
C05_RegistrationsConverted(P, Q) ==
  \A cb \in (DOMAIN P.callbacks) \ (DOMAIN Q.callbacks) :
     /\ Has(Q.tasks, cb) /\ TaskMatchesRegistration(Q.tasks[cb], P.callbacks[cb])
     /\ Has(Q.promises, P.callbacks[cb].promiseId)
     /\ Q.promises[P.callbacks[cb].promiseId].state # PENDING

\* ... and conversely a promise that left pending has no registration left
C05_NoneLeftBehind(P, Q) ==
  \A id \in (DOMAIN P.promises) \cap (DOMAIN Q.promises) :
     (P.promises[id].state = PENDING /\ Q.promises[id].state # PENDING) =>
        CallbacksOn(Q, id) = {}

\* a freshly converted task is dispatchable: it is not finished in the step that made it
C05_ConvertedTaskIsLive(P, Q) ==
  \A cb \in (DOMAIN P.callbacks) \ (DOMAIN Q.callbacks) :
     Has(Q.tasks, cb) /\ ~ Has(P.tasks, cb) => Q.tasks[cb].state \in TaskActive

\* an acknowledged registration (2xx reply carrying promise body b for registration id
\* cbid) either reports the promise completed, or the registration exists / has already
\* been converted
\* (mesg is the message the registration asks for: a task that merely has the same id - ids derived
\* from ids containing ":" can collide - is not this registration converted)
C05_AckMeansRegisteredOrCompleted(Q, b, cbid, mesg) ==
  b.state = PENDING => \/ Has(Q.callbacks, cbid) /\ Q.callbacks[cbid].mesg = mesg
                       \/ Has(Q.tasks, cbid) /\ Q.tasks[cbid].mesg = mesg

(***************************************************************************)
(* C07 - single holder, leases, fencing.  lapsed = set of <<task, counter>> whose    *)
(* lease or time-out has been reached on the server clock while it was enqueued or   *)
(* claimed with that counter.                                                        *)
(***************************************************************************)
\* lease bookkeeping: a pair <<task, counter>> is "lapsed" when its lease or time-out has been
\* reached on the server clock since the lease was last (re)started; a new claim starts a
\* new lease of the same counter
LapsedAt(S, t) == {<<x, S.tasks[x].counter>> : x \in ExpirableTasks(S, TaskBusy, t)}
LeaseRestarts(P, Q) ==
  {<<x, Q.tasks[x].counter>> : x \in {y \in DOMAIN Q.tasks :
      Q.tasks[y].state = T_CLAIMED /\ (~ Has(P.tasks, y) \/ P.tasks[y].state # T_CLAIMED)}}
NextLapsed(lapsed, P, Q, t) == (lapsed \ LeaseRestarts(P, Q)) \cup LapsedAt(Q, t)

C07_CountersNeverDecrease(P, Q) ==
  \A x \in (DOMAIN P.tasks) \cap (DOMAIN Q.tasks) : Q.tasks[x].counter >= P.tasks[x].counter

C07_FinishedIsAbsorbing(P, Q) ==
  \A x \in DOMAIN P.tasks :
     P.tasks[x].state \in {T_COMPLETED, T_TIMEDOUT} =>
        (Has(Q.tasks, x) /\ Q.tasks[x].state = P.tasks[x].state
                         /\ Q.tasks[x].counter = P.tasks[x].counter)

C07_TasksNeverDisappear(P, Q) == DOMAIN P.tasks \subseteq DOMAIN Q.tasks

\* a step into CLAIMED starts from an unclaimed unfinished task and keeps the counter
C07_ClaimGuard(P, Q) ==
  \A x \in (DOMAIN P.tasks) \cap (DOMAIN Q.tasks) :
     (Q.tasks[x].state = T_CLAIMED /\ P.tasks[x].state # T_CLAIMED) =>
        (P.tasks[x].state \in {T_INIT, T_ENQUEUED} /\ Q.tasks[x].counter = P.tasks[x].counter)

\* a holder loses a claimed task only by completion (its own or its promise's), or after
\* the lease / time-out has been reached; going back to init bumps the counter by one
C07_LeaseHonoured(P, Q, lapsed) ==
  \A x \in (DOMAIN P.tasks) \cap (DOMAIN Q.tasks) :
     LET p == P.tasks[x]  q == Q.tasks[x] IN
     (p.state = T_CLAIMED /\ (q.state # T_CLAIMED \/ q.counter # p.counter \/ q.pid # p.pid)) =>
        \/ q.state = T_COMPLETED
        \/ /\ <<x, p.counter>> \in lapsed
           /\ \/ q.state = T_TIMEDOUT
              \/ q.state = T_INIT /\ q.counter = p.counter + 1

C07_FencingOnReclaim(P, Q) ==
  \A x \in (DOMAIN P.tasks) \cap (DOMAIN Q.tasks) :
     (P.tasks[x].state \in TaskBusy /\ Q.tasks[x].state = T_INIT) =>
        Q.tasks[x].counter = P.tasks[x].counter + 1

(***************************************************************************)
(* C08 - tasks are born and finished with their promise.                   *)
(***************************************************************************)
C08_RoutedHasTask(P, Q) ==
  \A id \in (DOMAIN Q.promises) \ (DOMAIN P.promises) :
     LET q == Q.promises[id] IN
     IF Routed(q.tags)
     THEN /\ Has(Q.tasks, InvokeTaskId(id))
          /\ Q.tasks[InvokeTaskId(id)].rootId = id
          /\ Q.tasks[InvokeTaskId(id)].recv = RecvOf(q.tags)
          /\ Q.tasks[InvokeTaskId(id)].mesg = [type |-> "invoke", root |-> id, leaf |-> id]
     ELSE ~ (Has(Q.tasks, InvokeTaskId(id)) /\ ~ Has(P.tasks, InvokeTaskId(id)))

C08_FinishedWithPromise(P, Q) ==
  \A id \in (DOMAIN P.promises) \cap (DOMAIN Q.promises) :
     (P.promises[id].state = PENDING /\ Q.promises[id].state # PENDING) =>
        \A x \in DOMAIN P.tasks :
           (P.tasks[x].rootId = id /\ P.tasks[x].state \in TaskActive) =>
              Q.tasks[x].state = T_COMPLETED

\* no active task is rooted at a completed promise, except tasks that report the
\* completion itself (resume / notify tasks created by the conversion)
C08_NoActiveInvokeOfCompleted(Q) ==
  \A x \in DOMAIN Q.tasks :
     (Q.tasks[x].mesg.type = "invoke" /\ Q.tasks[x].state \in TaskActive
      /\ Has(Q.promises, Q.tasks[x].rootId)) =>
        Q.promises[Q.tasks[x].rootId].state = PENDING

\* a dispatch selects an init task without busy sibling (evaluated on the database at
\* the moment of the hand-off)
C08_DispatchSelection(Q, x, counter) ==
  /\ Has(Q.tasks, x)
  /\ (Q.tasks[x].state = T_INIT /\ Q.tasks[x].counter = counter) =>
        ~ \E y \in DOMAIN Q.tasks : y # x /\ Q.tasks[y].rootId = Q.tasks[x].rootId
                                    /\ Q.tasks[y].state \in TaskBusy

(***************************************************************************)
(* C09 - locks.                                                            *)
(***************************************************************************)
\* a lock row changes hands only through absence: never rewritten in place to another
\* execution (single-transaction steps)
C09_NoTransferInPlace(P, Q) ==
  \A r \in (DOMAIN P.locks) \cap (DOMAIN Q.locks) : Q.locks[r].eid = P.locks[r].eid

C09_LeaseArithmetic(Q) ==
  \A r \in DOMAIN Q.locks : Q.locks[r].ttl >= 0

(***************************************************************************)
(* C10 - schedules.                                                        *)
(***************************************************************************)
\* next run time only moves forward, from one occurrence to the following one, and last
\* is the occurrence just left
C10_AdvancesByOne(P, Q) ==
  \A s \in (DOMAIN P.schedules) \cap (DOMAIN Q.schedules) :
     LET p == P.schedules[s]  q == Q.schedules[s] IN
     (q.createdOn = p.createdOn /\ q.next # p.next) =>
        /\ q.next = CronNext(p.cron, p.next)
        /\ q.last = Some(p.next)

\* never before the occurrence time
C10_NotEarly(P, Q, t) ==
  \A s \in (DOMAIN P.schedules) \cap (DOMAIN Q.schedules) :
     (Q.schedules[s].createdOn = P.schedules[s].createdOn
      /\ Q.schedules[s].next # P.schedules[s].next) => P.schedules[s].next <= t

\* atomic with the promise: when a schedule advances past an occurrence the promise of
\* that occurrence exists afterwards
C10_FiringCreatesPromise(P, Q) ==
  \A s \in (DOMAIN P.schedules) \cap (DOMAIN Q.schedules) :
     LET p == P.schedules[s] IN
     (Q.schedules[s].createdOn = p.createdOn /\ Q.schedules[s].next # p.next) =>
        LET a == ScheduledPromiseArgs(s, p) IN
        /\ Has(Q.promises, a.id)
        /\ ~ Has(P.promises, a.id) =>
              /\ Q.promises[a.id].timeout = a.timeout
              /\ Q.promises[a.id].param = a.param
              /\ Q.promises[a.id].tags = a.tags

C10_NextAfterCreation(Q) ==
  \A s \in DOMAIN Q.schedules :
     /\ Q.schedules[s].next > Q.schedules[s].createdOn
     /\ IsSome(Q.schedules[s].last) => The(Q.schedules[s].last) < Q.schedules[s].next

(***************************************************************************)
(* C11 - convergence: nothing overdue is left (state predicate at clock t) *)
(***************************************************************************)
Converged(Q, t) ==
  /\ DuePromises(Q, t) = {}
  /\ \A r \in DOMAIN Q.locks : Q.locks[r].expiresAt > t
  /\ DueSchedules(Q, t) = {}
  /\ ExpirableTasks(Q, TaskBusy, t) = {}
=============================================================================
