------------------------------ MODULE RouteGen ------------------------------
(* emits the vector tables of Route.tla as ndjson (spec -> implementation) *)
EXTENDS Route
CONSTANT OutFile
RECURSIVE SetToSeq(_)
SetToSeq(S) == IF S = {} THEN <<>> ELSE LET x == CHOOSE x \in S : TRUE IN <<x>> \o SetToSeq(S \ {x})
All == SetToSeq(RouteVectors) \o SetToSeq(SendVectors)
ASSUME ndJsonSerialize(OutFile, [i \in DOMAIN All |-> [i |-> i] @@ All[i]])
ASSUME PrintT(<<"VECTORS", Len(All)>>)
=============================================================================
