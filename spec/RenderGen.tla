----------------------------- MODULE RenderGen -----------------------------
(* emits the complete vector table of Render.tla as ndjson (spec -> implementation) *)
EXTENDS Render
CONSTANT OutFile
RECURSIVE SetToSeq(_)
SetToSeq(S) == IF S = {} THEN <<>> ELSE LET x == CHOOSE x \in S : TRUE IN <<x>> \o SetToSeq(S \ {x})
Numbered == LET s == SetToSeq(Vectors) IN [i \in DOMAIN s |-> [i |-> i] @@ s[i]]
ASSUME ndJsonSerialize(OutFile, Numbered)
ASSUME PrintT(<<"VECTORS", Cardinality(Vectors)>>)
=============================================================================
