------------------------------- MODULE Store -------------------------------
(***************************************************************************)
(* The durable state of a Resonate server (five tables) and the 27 store   *)
(* commands of internal/kernel/t_aio/store.go as pure operators.           *)
(*                                                                         *)
(* A database is a record                                                  *)
(*   [promises, porder, callbacks, tasks, locks, schedules, sorder]        *)
(* whose tables are functions from the row id (a string) to a row record.  *)
(* porder / sorder are the ids in insertion order (the sort_id order that  *)
(* search exposes).  Optional columns are sequences of length <= 1.        *)
(* The same representation is what the Go harnesses log (see               *)
(* harness/project), so TLC reads implementation traces without any        *)
(* translation layer.                                                      *)
(*                                                                         *)
(* Apply(db, c)      the database after command c  (deterministic)         *)
(* Res(db, c)        the result the command must report where the SQL      *)
(*                   leaves no choice                                      *)
(* ResOK(db, c, r)   whether an observed result r is admissible (used for  *)
(*                   the commands with LIMIT and no total ORDER BY)        *)
(* ApplyTx, ApplyBatch   sequential composition; a batch is all-or-nothing *)
(***************************************************************************)
EXTENDS Integers, Sequences, FiniteSets, TLC

None     == <<>>
Some(x)  == <<x>>
IsSome(o) == Len(o) > 0
IsNone(o) == Len(o) = 0
The(o)   == o[1]

Put(f, k, v) == (k :> v) @@ f
Del(f, ks)   == [x \in (DOMAIN f) \ ks |-> f[x]]
Has(f, k)    == k \in DOMAIN f
Min2(a, b)   == IF a <= b THEN a ELSE b
Range(s)     == {s[i] : i \in DOMAIN s}

EmptyDB == [promises |-> <<>>, porder |-> <<>>, callbacks |-> <<>>, tasks |-> <<>>,
            locks |-> <<>>, schedules |-> <<>>, sorder |-> <<>>]

PENDING   == "PENDING"
RESOLVED  == "RESOLVED"
REJECTED  == "REJECTED"
CANCELED  == "REJECTED_CANCELED"
TIMEDOUT  == "REJECTED_TIMEDOUT"
PromiseStates   == {PENDING, RESOLVED, REJECTED, CANCELED, TIMEDOUT}
TerminalStates  == PromiseStates \ {PENDING}

T_INIT      == "INIT"
T_ENQUEUED  == "ENQUEUED"
T_CLAIMED   == "CLAIMED"
T_COMPLETED == "COMPLETED"
T_TIMEDOUT  == "TIMEDOUT"
TaskStates  == {T_INIT, T_ENQUEUED, T_CLAIMED, T_COMPLETED, T_TIMEDOUT}
TaskActive  == {T_INIT, T_ENQUEUED, T_CLAIMED}
TaskBusy    == {T_ENQUEUED, T_CLAIMED}

EmptyValue == [headers |-> <<>>, data |-> ""]

(***************************************************************************)
(* Rows.                                                                   *)
(***************************************************************************)
NewPromiseRow(c) ==
  [state |-> PENDING, param |-> c.param, value |-> EmptyValue, timeout |-> c.timeout,
   ikc |-> c.ikc, iku |-> None, tags |-> c.tags, createdOn |-> c.createdOn,
   completedOn |-> None]

NewTaskRow(c) ==   \* CreateTask command (TASK_INSERT_STATEMENT)
  [state |-> c.state, counter |-> 1, attempt |-> 0, pid |-> c.pid, rootId |-> c.mesg.root,
   recv |-> c.recv, mesg |-> c.mesg, timeout |-> c.timeout, ttl |-> c.ttl,
   expiresAt |-> c.expiresAt, createdOn |-> Some(c.createdOn), completedOn |-> None]

TaskFromCallback(cb, createdOn) ==   \* TASK_INSERT_ALL_STATEMENT: column defaults
  [state |-> T_INIT, counter |-> 1, attempt |-> 0, pid |-> None, rootId |-> cb.rootId,
   recv |-> cb.recv, mesg |-> cb.mesg, timeout |-> cb.timeout, ttl |-> 0,
   expiresAt |-> 0, createdOn |-> Some(createdOn), completedOn |-> None]

WithId(id, row) == [id |-> id] @@ row

(***************************************************************************)
(* Queries that several commands share.                                    *)
(***************************************************************************)
DuePromises(db, t) ==
  {id \in DOMAIN db.promises : db.promises[id].state = PENDING /\ db.promises[id].timeout <= t}

CallbacksOn(db, pid) ==
  {cb \in DOMAIN db.callbacks : db.callbacks[cb].promiseId = pid}

DueSchedules(db, t) ==
  {s \in DOMAIN db.schedules : db.schedules[s].next <= t}

ExpirableTasks(db, states, t) ==
  {x \in DOMAIN db.tasks : db.tasks[x].state \in states
                           /\ (db.tasks[x].expiresAt <= t \/ db.tasks[x].timeout <= t)}

\* init tasks whose root has no enqueued/claimed task
EnqueueableTasks(db) ==
  {x \in DOMAIN db.tasks :
     /\ db.tasks[x].state = T_INIT
     /\ ~ \E y \in DOMAIN db.tasks : db.tasks[y].rootId = db.tasks[x].rootId
                                     /\ db.tasks[y].state \in TaskBusy}
EnqueueableRoots(db) == {db.tasks[x].rootId : x \in EnqueueableTasks(db)}

\* position of an id in an order sequence (1-based); ids are unique in it
Pos(seq, id) == CHOOSE i \in DOMAIN seq : seq[i] = id

\* the matching ids of a search, newest first, after the cursor, at most limit;
\* keep(id) is supplied by the caller (pattern, state mask and tags)
NewestFirst(order, start, keep(_), limit) ==
  LET matched == SelectSeq(SubSeq(order, 1, start), keep)
      n == Len(matched)
  IN [i \in 1..Min2(limit, n) |-> matched[n - i + 1]]

\* cursor = None, or Some(id): strictly older than id
SearchStart(order, cursor) ==
  IF IsNone(cursor) THEN Len(order) ELSE Pos(order, The(cursor)) - 1

(***************************************************************************)
(* Apply: effect of one command.                                           *)
(***************************************************************************)
CompleteTasksOf(tasks, root, completedOn) ==
  [x \in DOMAIN tasks |->
     IF tasks[x].rootId = root /\ tasks[x].state \in TaskActive
     THEN [tasks[x] EXCEPT !.state = T_COMPLETED, !.completedOn = Some(completedOn)]
     ELSE tasks[x]]

Apply(db, c) ==
  CASE c.k = "CreatePromise" ->
         IF Has(db.promises, c.id) THEN db
         ELSE [db EXCEPT !.promises = Put(@, c.id, NewPromiseRow(c)),
                         !.porder = Append(@, c.id)]
    [] c.k = "CreatePromiseAndTask" ->
         IF Has(db.promises, c.promise.id) THEN db
         ELSE LET d1 == [db EXCEPT !.promises = Put(@, c.promise.id, NewPromiseRow(c.promise)),
                                   !.porder = Append(@, c.promise.id)]
              IN IF Has(db.tasks, c.task.id) THEN d1
                 ELSE [d1 EXCEPT !.tasks = Put(@, c.task.id, NewTaskRow(c.task))]
    [] c.k = "UpdatePromise" ->
         IF Has(db.promises, c.id) /\ db.promises[c.id].state = PENDING
         THEN [db EXCEPT !.promises[c.id] =
                 [@ EXCEPT !.state = c.state, !.value = c.value, !.iku = c.iku,
                           !.completedOn = Some(c.completedOn)]]
         ELSE db
    [] c.k = "CreateCallback" ->
         IF /\ Has(db.promises, c.promiseId) /\ db.promises[c.promiseId].state = PENDING
            /\ ~ Has(db.callbacks, c.id)
         THEN [db EXCEPT !.callbacks = Put(@, c.id,
                 [promiseId |-> c.promiseId, rootId |-> c.mesg.root, recv |-> c.recv,
                  mesg |-> c.mesg, timeout |-> c.timeout, createdOn |-> c.createdOn])]
         ELSE db
    [] c.k = "DeleteCallbacks" ->
         [db EXCEPT !.callbacks = Del(@, CallbacksOn(db, c.promiseId))]
    [] c.k = "CreateSchedule" ->
         IF Has(db.schedules, c.id) THEN db
         ELSE [db EXCEPT !.schedules = Put(@, c.id,
                  [desc |-> c.desc, cron |-> c.cron, tags |-> c.tags, promiseId |-> c.promiseId,
                   promiseTimeout |-> c.promiseTimeout, promiseParam |-> c.promiseParam,
                   promiseTags |-> c.promiseTags, last |-> None, next |-> c.next,
                   ikey |-> c.ikey, createdOn |-> c.createdOn]),
                         !.sorder = Append(@, c.id)]
    [] c.k = "UpdateSchedule" ->
         \* last_run_time = next_run_time, next_run_time = ?  WHERE id = ? AND next_run_time = ?
         IF Has(db.schedules, c.id) /\ IsSome(c.last) /\ db.schedules[c.id].next = The(c.last)
         THEN [db EXCEPT !.schedules[c.id] = [@ EXCEPT !.last = Some(db.schedules[c.id].next), !.next = c.next]]
         ELSE db
    [] c.k = "DeleteSchedule" ->
         IF Has(db.schedules, c.id)
         THEN [db EXCEPT !.schedules = Del(@, {c.id}),
                         !.sorder = SelectSeq(@, LAMBDA s : s # c.id)]
         ELSE db
    [] c.k = "CreateTask" ->
         IF Has(db.tasks, c.id) THEN db
         ELSE [db EXCEPT !.tasks = Put(@, c.id, NewTaskRow(c))]
    [] c.k = "CreateTasks" ->
         \* one task per callback on the promise, task id = callback id.  The SQL has no
         \* ON CONFLICT: a clash with an existing task id is an error (see Fails).
         LET cbs == CallbacksOn(db, c.promiseId)
         IN [db EXCEPT !.tasks =
               [x \in (DOMAIN @) \cup cbs |->
                  IF x \in cbs THEN TaskFromCallback(db.callbacks[x], c.createdOn) ELSE @[x]]]
    [] c.k = "CompleteTasks" ->
         [db EXCEPT !.tasks = CompleteTasksOf(@, c.rootId, c.completedOn)]
    [] c.k = "UpdateTask" ->
         IF /\ Has(db.tasks, c.id) /\ db.tasks[c.id].state \in c.currentStates
            /\ db.tasks[c.id].counter = c.currentCounter
         THEN [db EXCEPT !.tasks[c.id] =
                 [@ EXCEPT !.pid = c.pid, !.state = c.state, !.counter = c.counter,
                           !.attempt = c.attempt, !.ttl = c.ttl, !.expiresAt = c.expiresAt,
                           !.completedOn = c.completedOn]]
         ELSE db
    [] c.k = "HeartbeatTasks" ->
         [db EXCEPT !.tasks =
            [x \in DOMAIN db.tasks |->
               IF db.tasks[x].pid = Some(c.pid) /\ db.tasks[x].state = T_CLAIMED
               THEN [db.tasks[x] EXCEPT !.expiresAt = c.time + db.tasks[x].ttl] ELSE db.tasks[x]]]
    [] c.k = "AcquireLock" ->
         IF ~ Has(db.locks, c.rid)
         THEN [db EXCEPT !.locks = Put(@, c.rid,
                 [eid |-> c.eid, pid |-> c.pid, ttl |-> c.ttl, expiresAt |-> c.expiresAt])]
         ELSE IF db.locks[c.rid].eid = c.eid
              THEN [db EXCEPT !.locks[c.rid] =
                      [@ EXCEPT !.pid = c.pid, !.ttl = c.ttl, !.expiresAt = c.expiresAt]]
              ELSE db
    [] c.k = "ReleaseLock" ->
         IF Has(db.locks, c.rid) /\ db.locks[c.rid].eid = c.eid
         THEN [db EXCEPT !.locks = Del(@, {c.rid})] ELSE db
    [] c.k = "HeartbeatLocks" ->
         [db EXCEPT !.locks =
            [r \in DOMAIN db.locks |->
               IF db.locks[r].pid = c.pid
               THEN [db.locks[r] EXCEPT !.expiresAt = c.time + db.locks[r].ttl] ELSE db.locks[r]]]
    [] c.k = "TimeoutLocks" ->
         [db EXCEPT !.locks = Del(@, {r \in DOMAIN @ : @[r].expiresAt <= c.time})]
    [] OTHER -> db      \* the nine read commands

\* the only command that can fail on a well-formed database: bulk task insert onto an
\* existing task id (UNIQUE constraint, no ON CONFLICT clause)
Fails(db, c) ==
  /\ c.k = "CreateTasks"
  /\ CallbacksOn(db, c.promiseId) \cap DOMAIN db.tasks # {}

(***************************************************************************)
(* Results.                                                                *)
(***************************************************************************)
Changed(f, g) == Cardinality({x \in DOMAIN f : ~ (x \in DOMAIN g /\ g[x] = f[x])})
Bool2Int(b) == IF b THEN 1 ELSE 0

OneRow(tbl, id) == IF Has(tbl, id) THEN [rows |-> 1, recs |-> <<WithId(id, tbl[id])>>]
                   ELSE [rows |-> 0, recs |-> <<>>]

Res(db, c) ==
  CASE c.k = "ReadPromise"  -> OneRow(db.promises, c.id)
    [] c.k = "ReadSchedule" -> OneRow(db.schedules, c.id)
    [] c.k = "ReadTask"     -> OneRow(db.tasks, c.id)
    [] c.k = "ReadLock"     -> OneRow(db.locks, c.rid)
    [] c.k = "CreatePromise"  -> [rows |-> Bool2Int(~ Has(db.promises, c.id))]
    [] c.k = "CreatePromiseAndTask" ->
         [rows  |-> Bool2Int(~ Has(db.promises, c.promise.id)),
          trows |-> Bool2Int(~ Has(db.promises, c.promise.id) /\ ~ Has(db.tasks, c.task.id))]
    [] c.k = "UpdatePromise" ->
         [rows |-> Bool2Int(Has(db.promises, c.id) /\ db.promises[c.id].state = PENDING)]
    [] c.k = "CreateCallback" ->
         [rows |-> Bool2Int(/\ Has(db.promises, c.promiseId)
                            /\ db.promises[c.promiseId].state = PENDING
                            /\ ~ Has(db.callbacks, c.id))]
    [] c.k = "DeleteCallbacks" -> [rows |-> Cardinality(CallbacksOn(db, c.promiseId))]
    [] c.k = "CreateSchedule"  -> [rows |-> Bool2Int(~ Has(db.schedules, c.id))]
    [] c.k = "UpdateSchedule"  ->
         [rows |-> Bool2Int(Has(db.schedules, c.id) /\ IsSome(c.last)
                            /\ db.schedules[c.id].next = The(c.last))]
    [] c.k = "DeleteSchedule"  -> [rows |-> Bool2Int(Has(db.schedules, c.id))]
    [] c.k = "CreateTask"      -> [rows |-> Bool2Int(~ Has(db.tasks, c.id))]
    [] c.k = "CreateTasks"     -> [rows |-> Cardinality(CallbacksOn(db, c.promiseId))]
    [] c.k = "CompleteTasks"   ->
         [rows |-> Cardinality({x \in DOMAIN db.tasks : db.tasks[x].rootId = c.rootId
                                                        /\ db.tasks[x].state \in TaskActive})]
    [] c.k = "UpdateTask" ->
         [rows |-> Bool2Int(/\ Has(db.tasks, c.id) /\ db.tasks[c.id].state \in c.currentStates
                            /\ db.tasks[c.id].counter = c.currentCounter)]
    [] c.k = "HeartbeatTasks" ->
         [rows |-> Cardinality({x \in DOMAIN db.tasks : db.tasks[x].pid = Some(c.pid)
                                                        /\ db.tasks[x].state = T_CLAIMED})]
    [] c.k = "AcquireLock" ->
         [rows |-> Bool2Int(~ Has(db.locks, c.rid) \/ db.locks[c.rid].eid = c.eid)]
    [] c.k = "ReleaseLock" ->
         [rows |-> Bool2Int(Has(db.locks, c.rid) /\ db.locks[c.rid].eid = c.eid)]
    [] c.k = "HeartbeatLocks" ->
         [rows |-> Cardinality({r \in DOMAIN db.locks : db.locks[r].pid = c.pid})]
    [] c.k = "TimeoutLocks" ->
         [rows |-> Cardinality({r \in DOMAIN db.locks : db.locks[r].expiresAt <= c.time})]
    [] OTHER -> [rows |-> -1]     \* set-valued reads: see ResOK

\* ids of the records of a multi-row result, in order
RecIds(r) == [i \in DOMAIN r.recs |-> r.recs[i].id]
NoDup(s) == \A i, j \in DOMAIN s : i # j => s[i] # s[j]

\* Admissibility of an observed result.  Deterministic commands: equality with Res.
\* ReadPromises: LIMIT without ORDER BY: any min(limit,|due|) distinct due rows.
\* ReadSchedules: ORDER BY next_run_time, sort_id LIMIT: the first ones in that order
\*   (only the columns the statement selects are compared by the harness).
\* ReadTasks: ORDER BY root_promise_id, sort_id LIMIT: string order of ids is outside
\*   the model, so any min(limit,|eligible|) distinct eligible rows.
\* ReadEnqueueableTasks: one row per eligible root (SQLite: bare columns of a GROUP BY,
\*   Postgres: DISTINCT ON ... ORDER BY sort_id), at most limit roots.
ResOK(db, c, r) ==
  CASE c.k = "ReadPromises" ->
         LET due == DuePromises(db, c.time) IN
         /\ r.rows = Min2(c.limit, Cardinality(due)) /\ Len(r.recs) = r.rows
         /\ NoDup(RecIds(r))
         /\ \A i \in DOMAIN r.recs : /\ r.recs[i].id \in due
                                     /\ r.recs[i] = WithId(r.recs[i].id, db.promises[r.recs[i].id])
    [] c.k = "ReadSchedules" ->
         LET due == DueSchedules(db, c.time)
             Before(a, b) == \/ db.schedules[a].next < db.schedules[b].next
                             \/ /\ db.schedules[a].next = db.schedules[b].next
                                /\ Pos(db.sorder, a) < Pos(db.sorder, b)
         IN
         /\ r.rows = Min2(c.limit, Cardinality(due)) /\ Len(r.recs) = r.rows
         /\ NoDup(RecIds(r))
         /\ \A i \in DOMAIN r.recs : r.recs[i].id \in due
         /\ \A i, j \in DOMAIN r.recs : i < j => Before(r.recs[i].id, r.recs[j].id)
         /\ \A s \in due \ Range(RecIds(r)) : \A i \in DOMAIN r.recs : Before(r.recs[i].id, s)
    [] c.k = "ReadTasks" ->
         LET el == ExpirableTasks(db, c.states, c.time) IN
         /\ r.rows = Min2(c.limit, Cardinality(el)) /\ Len(r.recs) = r.rows
         /\ NoDup(RecIds(r))
         /\ \A i \in DOMAIN r.recs : /\ r.recs[i].id \in el
                                     /\ r.recs[i] = WithId(r.recs[i].id, db.tasks[r.recs[i].id])
    [] c.k = "ReadEnqueueableTasks" ->
         LET el == EnqueueableTasks(db)
             roots == EnqueueableRoots(db) IN
         /\ r.rows = Min2(c.limit, Cardinality(roots)) /\ Len(r.recs) = r.rows
         /\ \A i \in DOMAIN r.recs : /\ r.recs[i].id \in el
                                     /\ r.recs[i] = WithId(r.recs[i].id, db.tasks[r.recs[i].id])
         /\ \A i, j \in DOMAIN r.recs : i # j => r.recs[i].rootId # r.recs[j].rootId
    [] c.k \in {"SearchPromises", "SearchSchedules"} -> TRUE   \* checked by the search spec
    [] OTHER -> r = Res(db, c)

(***************************************************************************)
(* Transactions and batches.                                               *)
(***************************************************************************)
RECURSIVE ApplySeq(_, _)
ApplySeq(db, cs) == IF cs = <<>> THEN db ELSE ApplySeq(Apply(db, Head(cs)), Tail(cs))

RECURSIVE SeqFails(_, _)
SeqFails(db, cs) ==
  IF cs = <<>> THEN FALSE
  ELSE Fails(db, Head(cs)) \/ SeqFails(Apply(db, Head(cs)), Tail(cs))

\* all commands of all transactions of a batch, in submission order
RECURSIVE Flatten(_)
Flatten(txs) == IF txs = <<>> THEN <<>> ELSE Head(txs) \o Flatten(Tail(txs))

BatchFails(db, txs) == SeqFails(db, Flatten(txs))
ApplyBatch(db, txs) == IF BatchFails(db, txs) THEN db ELSE ApplySeq(db, Flatten(txs))

\* database just before command j of transaction i of a batch
PreState(db, txs, i, j) ==
  LET before == Flatten(SubSeq(txs, 1, i - 1)) \o SubSeq(txs[i], 1, j - 1)
  IN ApplySeq(db, before)

(***************************************************************************)
(* Structural invariants of any reachable database.                        *)
(***************************************************************************)
WellFormed(db) ==
  /\ Range(db.porder) = DOMAIN db.promises /\ NoDup(db.porder)
  /\ Range(db.sorder) = DOMAIN db.schedules /\ NoDup(db.sorder)
=============================================================================
