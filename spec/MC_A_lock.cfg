SPECIFICATION Spec
CONSTANTS
  CronPeriod <- MCCronPeriod
  Expand <- MCExpand
  PIds = {"p1"}
  Keys = {"k1", "k2"}
  Timeouts = {2, 3}
  TagSets <- PromiseTagSets
  SubIds = {"s1"}
  Pids = {"w1", "w2"}
  Ttls = {0, 1, 2}
  Counters = {1}
  LockIds = {"l1"}
  ExecIds = {"e1", "e2"}
  SchedIds = {"sc1"}
  Crons = {2}
  Templates = {"T"}
  PTimeouts = {1}
  MaxTime = 4
  MaxSteps = 5
  Delay = 1
  MaxCounter = 2
  MaxAttempt = 1
  Families = {"lock"}
INVARIANTS
  TypeOK
  I_C09_Exclusive
PROPERTIES
  A_C09_NoTransferInPlace
  A_C09_KeptUntilReleaseOrExpiry
