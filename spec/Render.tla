------------------------------- MODULE Render -------------------------------
(***************************************************************************)
(* C15: how the two front ends must render kernel outcomes.                *)
(*                                                                         *)
(* The space is finite: 17 operations x the 29 status codes the kernel     *)
(* defines x the way the outcome reaches the front end (a response object  *)
(* or a platform error, with or without an underlying cause) x the shape   *)
(* of the accompanying resource.  TLC enumerates it completely (Vectors);  *)
(* the harness frontx plays every vector against the REAL gin and grpc     *)
(* servers over a stub kernel and records what a real client sees; TLC     *)
(* then judges every observation against the rules below (RenderTrace).    *)
(***************************************************************************)
EXTENDS Integers, Sequences, FiniteSets, TLC, Json

Ops == {"ReadPromise", "SearchPromises", "CreatePromise", "CreatePromiseAndTask", "CompletePromise",
        "CreateCallback", "CreateSubscription", "ReadSchedule", "SearchSchedules", "CreateSchedule",
        "DeleteSchedule", "AcquireLock", "ReleaseLock", "HeartbeatLocks", "ClaimTask", "CompleteTask",
        "HeartbeatTasks"}

SuccessStatuses == {20000, 20100, 20400}
RequestStatuses == {40000, 40001, 40300, 40301, 40302, 40303, 40304, 40305, 40306, 40307, 40308,
                    40400, 40401, 40402, 40403, 40404, 40900, 40901}
PlatformStatuses == {50000, 50001, 50002, 50003, 50004, 50300, 50301, 50302, 50303}
Statuses == SuccessStatuses \cup RequestStatuses \cup PlatformStatuses

IsSuccess(s) == s >= 20000 /\ s < 30000

\* the whole space, one record per case
Vectors ==
  {[op |-> o, status |-> s, via |-> "response", shape |-> sh, cause |-> FALSE] :
      o \in Ops, s \in SuccessStatuses, sh \in {"full", "min"}}
  \cup
  {[op |-> o, status |-> s, via |-> "response", shape |-> sh, cause |-> FALSE] :
      o \in Ops, s \in RequestStatuses, sh \in {"absent", "full"}}
  \cup     \* a successful claim of a task of each kind (what it carries depends on the kind)
  {[op |-> "ClaimTask", status |-> 20100, via |-> "response", shape |-> sh, cause |-> FALSE] : sh \in {"invoke", "resume", "notify"}}
  \cup
  {[op |-> o, status |-> s, via |-> "error", shape |-> "absent", cause |-> c] :
      o \in Ops, s \in RequestStatuses \cup PlatformStatuses, c \in BOOLEAN}

(***************************************************************************)
(* The rules of the statement.                                             *)
(***************************************************************************)
HttpCode(s) == s \div 100

\* gRPC codes (google.golang.org/grpc/codes): the mapping is by status class
GOK == 0  GInvalidArgument == 3  GNotFound == 5  GAlreadyExists == 6  GPermissionDenied == 7
GInternal == 13  GUnavailable == 14
GrpcCode(s) ==
  LET c == s \div 100 IN
  CASE c \in {200, 201, 204} -> GOK
    [] c = 400 -> GInvalidArgument
    [] c = 403 -> GPermissionDenied
    [] c = 404 -> GNotFound
    [] c = 409 -> GAlreadyExists
    [] c = 500 -> GInternal
    [] c = 503 -> GUnavailable

NoFlags == [noop |-> FALSE, acquired |-> FALSE, released |-> FALSE, claimed |-> FALSE, completed |-> FALSE]
\* outcome flags of a successful gRPC reply agree with the kernel status
FlagsOf(op, s) ==
  CASE op \in {"CreatePromise", "CreatePromiseAndTask", "CompletePromise", "CreateCallback", "CreateSubscription"}
         -> [NoFlags EXCEPT !.noop = (s = 20000)]
    [] op = "AcquireLock"  -> [NoFlags EXCEPT !.acquired = (s = 20100)]
    [] op = "ReleaseLock"  -> [NoFlags EXCEPT !.released = (s = 20400)]
    [] op = "ClaimTask"    -> [NoFlags EXCEPT !.claimed = (s = 20100)]
    [] op = "CompleteTask" -> [NoFlags EXCEPT !.completed = (s = 20100)]
    [] OTHER -> NoFlags

\* the five promise states (numbers of pkg/promise) and the one name each has on both wires
StateName(k) ==
  CASE k = 1 -> "PENDING" [] k = 2 -> "RESOLVED" [] k = 4 -> "REJECTED"
    [] k = 8 -> "REJECTED_CANCELED" [] k = 16 -> "REJECTED_TIMEDOUT"
StateNames(ks) == [i \in DOMAIN ks |-> StateName(ks[i])]

\* an observation o (as recorded by frontx) against the rules
NoDrop(o) == o.replied /\ ~ o.dead /\ o.reached
HttpOK(o) ==
  o.proto = "http" =>
     /\ o.http.code = HttpCode(o.status)
     /\ IF IsSuccess(o.status) THEN o.http.bodyKind \in {"resource", "empty"}
        ELSE o.http.bodyKind = "error" /\ o.http.errCode = o.status
GrpcOK(o) ==
  o.proto = "grpc" =>
     /\ o.grpc.code = GrpcCode(o.status)
     /\ IsSuccess(o.status) =>
          [f \in DOMAIN NoFlags |-> o.grpc.flags[f]] = FlagsOf(o.op, o.status)
=============================================================================
