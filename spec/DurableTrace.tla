---------------------------- MODULE DurableTrace ----------------------------
(***************************************************************************)
(* Judges what procx observed when it played behaviours of Durable.tla     *)
(* against real `resonate serve` processes (C06, process level): the       *)
(* machine of Durable.tla is re-run along the observations - every         *)
(* acknowledged request is its action, every kill / SIGTERM / restart is   *)
(* the action that leaves the durable state alone - and every look at the  *)
(* database file and every read through the API must show exactly the      *)
(* state of the machine.                                                   *)
(***************************************************************************)
EXTENDS Durable, Json
CONSTANT TraceFile
CONSTANT Known
TraceLog == ndJsonDeserialize(TraceFile)
NoteFinding(name) == TLCSet(42, TLCGet(42) \cup {name})

VARIABLES l, ops, bad
tvars == <<vars, l, ops, bad>>
Ev == TraceLog[l]
O == ops[Ev.i]
Consume == l <= Len(TraceLog) /\ l' = l + 1
Same == UNCHANGED vars

TInit == Init /\ l = 1 /\ ops = <<>> /\ bad = "" /\ TLCSet(42, {})

TBegin ==
  /\ Consume /\ Ev.e = "begin"
  /\ up' = ~ Ev.cold /\ ps' = [p \in Promises |-> "none"] /\ routed' = {} /\ subs' = {} /\ notified' = {}
  /\ ts' = [p \in Promises |-> "none"] /\ sched' = "none" /\ fired' = FALSE /\ lock' = FALSE
  /\ short' = "none" /\ aged' = FALSE /\ n' = 0 /\ hist' = <<>>
  /\ ops' = Ev.ops /\ bad' = ""

IsStep(role) == Consume /\ Ev.e = "step" /\ Ev.role = role /\ UNCHANGED ops

\* an acknowledged request is the action of the machine; a refused one makes the scenario unplayable
Request ==
  /\ IsStep("main") /\ Ev.do = "http"
  /\ IF Ev.class = "2xx"
     THEN /\ CASE O.op = "create" -> CreateP(O.p, O.routed)
               [] O.op = "subscribe" -> Subscribe(O.p)
               [] O.op = "complete" -> CompleteP(O.p, O.state)
               [] O.op = "claim" -> Claim(O.p)
               [] O.op = "completetask" -> CompleteT(O.p)
               [] O.op = "createschedule" -> CreateS(O.kind)
               [] O.op = "deleteschedule" -> DeleteS
               [] O.op = "acquire" -> Acquire
               [] O.op = "release" -> Release
               [] O.op = "createshort" -> CreateShort
          /\ bad' = ""
     ELSE /\ Same
          /\ bad' = IF ~ Ev.alive THEN "the server died"
                    ELSE IF Ev.class \in {"5xx", "none"} THEN "the server is not usable on its database"
                    ELSE "unplayable: a request of the scenario was not accepted"

Process ==
  /\ IsStep("main") /\ Ev.do \in {"kill", "term", "start", "startkill", "sleep"}
  /\ CASE Ev.do = "kill" -> Kill
       [] Ev.do = "term" -> Term
       [] Ev.do = "start" -> Start
       [] Ev.do = "startkill" -> StartKill(O.ms)
       [] Ev.do = "sleep" -> Wait
  /\ bad' = IF Ev.do = "start" /\ ~ Ev.replied THEN "the server did not come back on its database"
            ELSE IF Ev.do = "term" /\ ~ Ev.replied THEN "the server did not stop on SIGTERM"
            ELSE IF Ev.do = "sleep" /\ up /\ ~ Ev.alive THEN "the server died"
            ELSE ""

\* requests in flight at the kill: acknowledged ones have happened, the others may have
Acked(p) == \E k \in DOMAIN Ev.json : Ev.json[k].name = p /\ Ev.json[k].class = "2xx"
RECURSIVE BurstFold(_, _)
BurstFold(S, reqs) ==
  IF reqs = <<>> THEN S
  ELSE LET r == Head(reqs)
           S2 == IF Acked(r.p) THEN (IF r.create THEN EffCreate(S, r.p, TRUE) ELSE EffComplete(S, r.p, "resolved"))
                 ELSE [S EXCEPT !.ps[r.p] = IF r.create THEN "maybe-created" ELSE "maybe-completed"]
       IN BurstFold(S2, Tail(reqs))
TBurst ==
  /\ IsStep("main") /\ Ev.do = "burst"
  /\ up /\ up' = FALSE /\ SetD(BurstFold(D, O.reqs))
  /\ Step(O)
  /\ UNCHANGED <<sched, fired, lock, short, aged>>
  /\ bad' = ""

\* a look at the rows of the database file
RowsBad(R) ==
  IF R.corrupt THEN "the database file is corrupted"
  ELSE IF ~ R.ok THEN "unplayable: the database file could not be read"
  ELSE IF ~ Whole(R) THEN "a stored entity is not whole (half of a request took effect)"
  ELSE IF \E p \in Promises : ~ MaybeResolved(R, p) THEN "a request in flight at the crash took effect in part"
  ELSE IF \E p \in Promises : ~ PromiseAsAcked(R, p) THEN "an acknowledged write is not in the database as acknowledged"
  ELSE IF ~ Others(R) THEN
         (IF short = "timedout" /\ Has(R.promises, "t") /\ Row(R.promises, "t").state # 16 THEN "background processing did not resume"
          ELSE IF fired /\ ~ \E i \in DOMAIN R.promises : R.promises[i].sched = "s" THEN "background processing did not resume"
          ELSE "an acknowledged write is not in the database as acknowledged")
  ELSE ""
RECURSIVE Resolve(_, _, _)
Resolve(S, R, todo) ==
  IF todo = {} THEN S
  ELSE LET p == CHOOSE p \in todo : TRUE
           S2 == CASE S.ps[p] = "maybe-created" -> IF Has(R.promises, p) THEN EffCreate(S, p, TRUE) ELSE [S EXCEPT !.ps[p] = "none"]
                   [] S.ps[p] = "maybe-completed" -> IF Has(R.promises, p) /\ Row(R.promises, p).state = 2 THEN EffComplete(S, p, "resolved")
                                                     ELSE [S EXCEPT !.ps[p] = "pending"]
                   [] OTHER -> S
       IN Resolve(S2, R, todo \ {p})
TRows ==
  /\ IsStep("rows")
  /\ LET R == Ev.json IN
     /\ bad' = RowsBad(R)
     /\ IF RowsBad(R) = "" THEN SetD(Resolve(D, R, Promises)) ELSE UNCHANGED <<ps, routed, subs, notified, ts>>
     /\ short' = IF short = "pending" /\ Has(R.promises, "t") /\ Row(R.promises, "t").state = 16 THEN "timedout" ELSE short
  /\ Step(O)
  /\ UNCHANGED <<up, sched, fired, lock, aged>>

\* a read through the API
StateName == [pending |-> "PENDING", resolved |-> "RESOLVED", rejected |-> "REJECTED", canceled |-> "REJECTED_CANCELED"]
TGet ==
  /\ IsStep("get") /\ Same
  /\ LET p == Ev.name IN
     bad' = IF ~ Ev.alive THEN "the server died"
            ELSE IF ~ Definite(p) THEN ""
            ELSE IF ps[p] = "none" THEN (IF Ev.code = 404 THEN "" ELSE "a promise that was never acknowledged is returned")
            ELSE IF Ev.code = 200 /\ Ev.json.state = StateName[ps[p]] THEN ""
            ELSE "an acknowledged write is not returned as acknowledged"

TEnd ==
  /\ Consume /\ Ev.e = "end" /\ Same /\ UNCHANGED ops
  /\ bad' = IF Ev.panicked THEN "the server panicked" ELSE ""

\* the harness waited for background work (it reports what it saw; the look that follows is judged)
TAux == IsStep("aux") /\ Same /\ bad' = ""
TNext == TAux \/ TBegin \/ Request \/ Process \/ TBurst \/ TRows \/ TGet \/ TEnd
TSpec == TInit /\ [][TNext]_tvars

\* every acknowledged mutation is still there, unchanged, after kill / SIGTERM / restart
C06_AckedSurvives == bad \notin {"an acknowledged write is not in the database as acknowledged", "an acknowledged write is not returned as acknowledged",
                                 "a promise that was never acknowledged is returned"}
\* a request in flight at the crash has taken effect completely or not at all
C06_AllOrNothing == bad \notin {"a stored entity is not whole (half of a request took effect)", "a request in flight at the crash took effect in part",
                                "the database file is corrupted"}
\* the server restarts on its database, also after crashes during recovery, and stops on SIGTERM
C06_Restarts == bad \notin {"the server did not come back on its database", "the server is not usable on its database", "the server did not stop on SIGTERM", "the server died", "the server panicked"}
\* background processing resumes from the stored state
C06_Resumes == bad # "background processing did not resume"
\* (machinery) the scenario could be played
Playable == bad \notin {"unplayable: a request of the scenario was not accepted", "unplayable: the database file could not be read"}

TraceAccepted ==
  LET d == TLCGet("stats").diameter IN
  IF d - 1 = Len(TraceLog) THEN PrintT(<<"KNOWN-FINDINGS-SEEN", TLCGet(42)>>)
  ELSE Print(<<"TRACE NOT CONSUMED", d - 1, Len(TraceLog)>>, FALSE)
Last == IF l > 1 THEN TraceLog[l - 1] ELSE [e |-> "none"]
Alias == [l |-> l, bad |-> bad, up |-> up, ps |-> ps, routed |-> routed, subs |-> subs, notified |-> notified, ts |-> ts,
          sched |-> sched, lock |-> lock, short |-> short, aged |-> aged, fired |-> fired,
          event |-> IF Last.e = "step" THEN [do |-> Last.do, role |-> Last.role, name |-> Last.name, class |-> Last.class, code |-> Last.code, i |-> Last.i] ELSE [do |-> Last.e, role |-> "", name |-> "", class |-> "", code |-> 0, i |-> 0]]
=============================================================================
