------------------------------ MODULE MC_Poll ------------------------------
(***************************************************************************)
(* Poll.tla as a state machine: exhaustively (MC_Poll.cfg) for the         *)
(* registry invariants over every sequence of events, and in simulation    *)
(* mode as the generator of event sequences that pollx replays on the real *)
(* connections registry and worker.                                        *)
(***************************************************************************)
EXTENDS Poll, Json, Randomization

CONSTANTS Depth, MaxConns, Gen     \* Gen: simulation mode draws the event kind first (weighted)

VARIABLES P, next, hist, k
vars == <<P, next, hist, k>>

Groups == {"g1", "g2"}
Ids == {"a", "b"}
SendIds == {"a", "b", "zz", ""}

Init == P = EmptyPoll /\ next = 1 /\ hist = <<>> /\ k = 0

Step(P2, ev) == P' = P2 /\ hist' = Append(hist, ev) /\ k' = k + 1

DoConnect(g, id) ==
  /\ next <= MaxConns /\ ~ P.stopped
  /\ next' = next + 1
  /\ Step(Connect(P, next, g, id), [e |-> "connect", c |-> next, g |-> g, id |-> id])
DoDisconnect(c) ==
  /\ c \in DOMAIN P.info /\ UNCHANGED next
  /\ Step(Disconnect(P, c), [e |-> "disconnect", c |-> c])
DoSend(type, g, id) ==
  /\ ~ P.stopped /\ UNCHANGED next
  /\ LET cs == Candidates(P, type, g, id) IN
     IF cs = {} THEN Step(P, [e |-> "send", type |-> type, g |-> g, id |-> id])
     ELSE \E c \in cs : Step(Deliver(P, c, k), [e |-> "send", type |-> type, g |-> g, id |-> id])
DoDrain(c) ==
  /\ c \in DOMAIN P.buf /\ P.buf[c] # <<>> /\ UNCHANGED next
  /\ Step(Drain(P, c), [e |-> "drain", c |-> c])
DoStop ==
  /\ ~ P.stopped /\ UNCHANGED next
  /\ Step(Stop(P), [e |-> "stop"])

Kinds == <<"connect", "connect", "connect", "disconnect", "send", "send", "send", "send", "drain", "connect">>
GenNext ==
  /\ k < Depth
  /\ LET kind == Kinds[RandomElement(1..Len(Kinds))] IN
     \/ kind = "connect" /\ \E g \in {RandomElement(Groups)}, id \in {RandomElement(Ids)} : DoConnect(g, id)
     \/ kind = "disconnect" /\ \E c \in {RandomElement(1..MaxConns)} : DoDisconnect(c)
     \/ kind = "send" /\ \E t \in {RandomElement({"invoke", "notify"})}, g \in {RandomElement(Groups)},
                               id \in {RandomElement(SendIds)} : DoSend(t, g, id)
     \/ kind = "drain" /\ \E c \in {RandomElement(1..MaxConns)} : DoDrain(c)
     \/ UNCHANGED <<P, next, hist>> /\ k' = k     \* the drawn event is not enabled: draw again

Next ==
  IF Gen THEN GenNext ELSE
  /\ k < Depth
  /\ \/ \E g \in Groups, id \in Ids : DoConnect(g, id)
     \/ \E c \in 1..MaxConns : DoDisconnect(c)
     \/ \E t \in {"invoke", "notify"}, g \in Groups, id \in SendIds : DoSend(t, g, id)
     \/ \E c \in 1..MaxConns : DoDrain(c)
     \/ DoStop
Spec == Init /\ [][Next]_vars

I_RegistryOK == RegistryOK(P)
\* a send changes at most one buffer, of a connection registered in the addressed group
A_SendExactlyOne ==
  [][\A c \in DOMAIN P.buf : c \in DOMAIN P'.buf =>
        (Len(P'.buf[c]) > Len(P.buf[c]) =>
           /\ Cardinality({d \in DOMAIN P.buf : Len(P'.buf[d]) > Len(P.buf[d])}) = 1
           /\ c \in Registered(P))]_vars
Emit == k = Depth => PrintT(<<"POLLGEN", ToJson(hist)>>)
View == <<P, next, k>>
=============================================================================
