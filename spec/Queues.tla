------------------------------- MODULE Queues -------------------------------
(***************************************************************************)
(* C12: the production plumbing between client goroutines and the kernel:  *)
(* internal/api/api.go (submission queue, buffer slot, done flag),         *)
(* internal/kernel/system/system.go (Loop, Tick, Done, Shutdown),          *)
(* gocoro's bounded in-queue, internal/aio/aio.go (subsystem queues,       *)
(* completion queue with blocking enqueue, buffer slot) and one subsystem  *)
(* worker.  Every client issues one request (the echo request: one         *)
(* subsystem round trip).  One action per critical section of the code;    *)
(* the check-then-send of EnqueueSQE is two steps on purpose.              *)
(***************************************************************************)
EXTENDS Integers, Sequences, FiniteSets, TLC, Json

CONSTANTS Clients,
          Q,        \* capacity of the api submission queue
          C,        \* capacity of the aio completion queue
          S,        \* capacity of the subsystem queue
          PoolCap,  \* capacity of the coroutine scheduler's in-queue
          SB, CB,   \* submission / completion batch sizes
          EmitAt,   \* simulation: the depth at which the schedule of a behaviour is printed
          EnqueueLocked \* TRUE: EnqueueSQE holds a read lock across its done-check and its send and
                        \* Shutdown takes the write lock (the code after the fix of finding F12);
                        \* FALSE: the check-then-send of the original code

RESULT == 0
SHUTTING_DOWN == 50300  API_QUEUE_FULL == 50301  SCHEDULER_FULL == 50303  AIO_ERROR == 50001

VARIABLES cpc, sq, buffer, done, replies, kpc, apiSig, aioSig, inq, awaiting, subq, wpc, wcur, cq, cbuf, shut,
          exitSeen,  \* what the clients looked like when the loop returned (history)
          hist       \* the externally controllable steps taken so far (the schedule queuex replays)
vars == <<cpc, sq, buffer, done, replies, kpc, apiSig, aioSig, inq, awaiting, subq, wpc, wcur, cq, cbuf, shut, exitSeen, hist>>
\* exhaustive checking ignores the history
View == <<cpc, sq, buffer, done, replies, kpc, apiSig, aioSig, inq, awaiting, subq, wpc, wcur, cq, cbuf, shut>>

None == <<>>
Reply(c, code) == replies' = [replies EXCEPT ![c] = Append(@, code)]

Init ==
  /\ cpc = [c \in Clients |-> "idle"] /\ sq = <<>> /\ buffer = None /\ done = FALSE
  /\ replies = [c \in Clients |-> <<>>] /\ kpc = "tick" /\ apiSig = "none" /\ aioSig = "none"
  /\ inq = <<>> /\ awaiting = {} /\ subq = <<>> /\ wpc = "idle" /\ wcur = None /\ cq = <<>> /\ cbuf = None
  /\ shut = FALSE /\ exitSeen = <<>> /\ hist = <<>>

(***************************************************************************)
(* Clients: api.Process -> EnqueueSQE -> wait for the reply.               *)
(***************************************************************************)
\* EnqueueSQE, first half: "if a.done { callback(shutting down) }"
Call(c) ==
  /\ cpc[c] = "idle"
  /\ IF done THEN Reply(c, SHUTTING_DOWN) /\ cpc' = [cpc EXCEPT ![c] = "done"]
             ELSE UNCHANGED replies /\ cpc' = [cpc EXCEPT ![c] = "checked"]
  /\ hist' = Append(hist, <<"call", c>>)
  /\ UNCHANGED <<sq, buffer, done, kpc, apiSig, aioSig, inq, awaiting, subq, wpc, wcur, cq, cbuf, shut, exitSeen>>
\* EnqueueSQE, second half: "select { case a.sq <- sqe: default: callback(queue full) }"
Send(c) ==
  /\ cpc[c] = "checked"
  /\ IF Len(sq) < Q
     THEN sq' = Append(sq, c) /\ cpc' = [cpc EXCEPT ![c] = "waiting"] /\ UNCHANGED replies
     ELSE Reply(c, API_QUEUE_FULL) /\ cpc' = [cpc EXCEPT ![c] = "done"] /\ UNCHANGED sq
  /\ hist' = Append(hist, <<"send", c>>)
  /\ UNCHANGED <<buffer, done, kpc, apiSig, aioSig, inq, awaiting, subq, wpc, wcur, cq, cbuf, shut, exitSeen>>
\* the reply arrives on the client's 1-slot channel
Receive(c) ==
  /\ cpc[c] = "waiting" /\ Len(replies[c]) > 0
  /\ cpc' = [cpc EXCEPT ![c] = "done"]
  /\ UNCHANGED <<sq, buffer, done, replies, kpc, apiSig, aioSig, inq, awaiting, subq, wpc, wcur, cq, cbuf, shut, exitSeen, hist>>

\* System.Shutdown: api.Shutdown (done = true) and close(shortCircuit)
Shutdown ==
  /\ ~ shut /\ shut' = TRUE /\ done' = TRUE
  /\ EnqueueLocked => \A c \in Clients : cpc[c] # "checked"      \* the write lock waits for the readers
  /\ hist' = Append(hist, <<"shutdown", "">>)
  /\ UNCHANGED <<cpc, sq, buffer, replies, kpc, apiSig, aioSig, inq, awaiting, subq, wpc, wcur, cq, cbuf, exitSeen>>

(***************************************************************************)
(* Kernel goroutine: Loop.                                                 *)
(***************************************************************************)
TakeN(s, n) == SubSeq(s, 1, IF Len(s) < n THEN Len(s) ELSE n)
DropN(s, n) == SubSeq(s, (IF Len(s) < n THEN Len(s) ELSE n) + 1, Len(s))
Range(s) == {s[i] : i \in DOMAIN s}

\* admit requests into the scheduler's bounded in-queue; the overflow is refused
RECURSIVE Admit(_, _, _)
Admit(reqs, q, refused) ==
  IF reqs = <<>> THEN [q |-> q, refused |-> refused]
  ELSE IF Len(q) < PoolCap THEN Admit(Tail(reqs), Append(q, Head(reqs)), refused)
       ELSE Admit(Tail(reqs), q, refused \cup {Head(reqs)})

\* dispatch the submissions of the new coroutines; a full subsystem queue fails the submission at once
RECURSIVE Dispatch(_, _, _)
Dispatch(cs, q, failed) ==
  IF cs = <<>> THEN [q |-> q, failed |-> failed]
  ELSE IF Len(q) < S THEN Dispatch(Tail(cs), Append(q, Head(cs)), failed)
       ELSE Dispatch(Tail(cs), q, failed \cup {Head(cs)})

Tick ==
  /\ kpc = "tick"
  /\ LET \* DequeueCQE(CB): buffer slot first, then the channel
         cqes == (IF cbuf = None THEN <<>> ELSE cbuf) \o TakeN(cq, CB - Len(cbuf))
         finished == Range(cqes)
         \* DequeueSQE(SB)
         sqes == (IF buffer = None THEN <<>> ELSE buffer) \o TakeN(sq, SB - Len(buffer))
         adm == Admit(sqes, inq, {})
         \* RunUntilBlocked: everything in the in-queue runs to its first yield
         disp == Dispatch(adm.q, subq, {})
     IN /\ cbuf' = None /\ cq' = DropN(cq, CB - Len(cbuf))
        /\ buffer' = None /\ sq' = DropN(sq, SB - Len(buffer))
        /\ inq' = <<>> /\ subq' = disp.q
        /\ awaiting' = (awaiting \ finished) \cup (Range(adm.q) \ disp.failed)
        /\ replies' = [c \in Clients |->
              IF c \in finished THEN Append(replies[c], RESULT)
              ELSE IF c \in adm.refused THEN Append(replies[c], SCHEDULER_FULL)
              ELSE IF c \in disp.failed THEN Append(replies[c], AIO_ERROR)
              ELSE replies[c]]
  /\ kpc' = "check"
  /\ UNCHANGED <<cpc, done, apiSig, aioSig, wpc, wcur, shut, exitSeen, hist>>

\* "if s.Done() { shutdown; return }" : api.done && len(api.sq) == 0 && scheduler.Size() == 0
Check ==
  /\ kpc = "check"
  /\ IF done /\ Len(sq) = 0 /\ inq = <<>> /\ awaiting = {}
     THEN kpc' = "exited" /\ exitSeen' = <<cpc>> /\ UNCHANGED <<apiSig, aioSig>>
     ELSE /\ kpc' = "wait" /\ UNCHANGED exitSeen
          /\ apiSig' = IF buffer = None THEN "armed" ELSE "fired"
          /\ aioSig' = IF cbuf = None THEN "armed" ELSE "fired"
  /\ UNCHANGED <<cpc, sq, buffer, done, replies, inq, awaiting, subq, wpc, wcur, cq, cbuf, shut, hist>>

\* the signal goroutines move one entry into the buffer slot
ApiSignal ==
  /\ apiSig = "armed" /\ sq # <<>>
  /\ buffer' = <<Head(sq)>> /\ sq' = Tail(sq) /\ apiSig' = "fired"
  /\ UNCHANGED <<cpc, done, replies, kpc, aioSig, inq, awaiting, subq, wpc, wcur, cq, cbuf, shut, exitSeen, hist>>
AioSignal ==
  /\ aioSig = "armed" /\ cq # <<>>
  /\ cbuf' = <<Head(cq)>> /\ cq' = Tail(cq) /\ aioSig' = "fired"
  /\ UNCHANGED <<cpc, sq, buffer, done, replies, kpc, apiSig, inq, awaiting, subq, wpc, wcur, shut, exitSeen, hist>>
\* a signal, the short circuit or the signal time-out ends the wait; the signal goroutines are cancelled
Wake ==
  /\ kpc = "wait" /\ kpc' = "tick" /\ apiSig' = "none" /\ aioSig' = "none"
  /\ UNCHANGED <<cpc, sq, buffer, done, replies, inq, awaiting, subq, wpc, wcur, cq, cbuf, shut, exitSeen, hist>>

(***************************************************************************)
(* Subsystem worker: one submission at a time; EnqueueCQE blocks when the  *)
(* completion queue is full.                                               *)
(***************************************************************************)
WorkerTake ==
  /\ wpc = "idle" /\ subq # <<>>
  /\ wcur' = <<Head(subq)>> /\ subq' = Tail(subq) /\ wpc' = "hold"
  /\ UNCHANGED <<cpc, sq, buffer, done, replies, kpc, apiSig, aioSig, inq, awaiting, cq, cbuf, shut, exitSeen, hist>>
WorkerPut ==
  /\ wpc = "hold" /\ Len(cq) < C
  /\ cq' = Append(cq, wcur[1]) /\ wcur' = None /\ wpc' = "idle"
  /\ UNCHANGED <<cpc, sq, buffer, done, replies, kpc, apiSig, aioSig, inq, awaiting, subq, cbuf, shut, exitSeen, hist>>

Next ==
  \/ \E c \in Clients : Call(c) \/ Send(c) \/ Receive(c)
  \/ Shutdown \/ Tick \/ Check \/ ApiSignal \/ AioSignal \/ Wake \/ WorkerTake \/ WorkerPut

Fairness ==
  /\ WF_vars(Tick) /\ WF_vars(Check) /\ WF_vars(Wake) /\ WF_vars(WorkerTake) /\ WF_vars(WorkerPut)
  /\ \A c \in Clients : WF_vars(Send(c)) /\ WF_vars(Receive(c))
Spec == Init /\ [][Next]_vars /\ Fairness

(***************************************************************************)
(* Properties.                                                             *)
(***************************************************************************)
\* never two replies
C12_AtMostOneReply == \A c \in Clients : Len(replies[c]) <= 1
\* a refusal carries the right code
C12_ReplyCodes ==
  \A c \in Clients : \A i \in DOMAIN replies[c] :
     replies[c][i] \in {RESULT, SHUTTING_DOWN, API_QUEUE_FULL, SCHEDULER_FULL, AIO_ERROR}
\* refused with "shutting down" only after shutdown was requested
C12_ShuttingDownOnlyAfterShutdown ==
  \A c \in Clients : (replies[c] # <<>> /\ replies[c][1] = SHUTTING_DOWN) => shut
\* when the loop returns, every request that was accepted (is waiting) has its reply
C12_AcceptedAnsweredBeforeExit ==
  kpc = "exited" => \A c \in Clients : cpc[c] = "waiting" => Len(replies[c]) = 1
\* ... and nobody is still between the done-check and the send (it would be accepted into
\* a queue nobody reads any more): the check-then-send race of EnqueueSQE (finding F12)
C12_NoRequestStranded ==
  kpc = "exited" => \A c \in Clients : cpc[c] # "checked"
\* every request eventually has exactly one reply; after shutdown the loop eventually returns
C12_EveryRequestAnswered == \A c \in Clients : (cpc[c] # "idle") ~> (Len(replies[c]) = 1)
C12_LoopReturnsAfterShutdown == shut ~> (kpc = "exited")

\* schedule generation (simulation mode): print the controllable steps of a behaviour
Emit == (TLCGet("level") = EmitAt \/ (kpc = "exited" /\ \A c \in Clients : cpc[c] \in {"done", "waiting"}))
          => PrintT(<<"QGEN", ToJson(hist)>>)
=============================================================================
