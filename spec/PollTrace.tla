----------------------------- MODULE PollTrace -----------------------------
(***************************************************************************)
(* Judges the record of pollx (the real registry and worker, event by      *)
(* event) against Poll.tla.  Which member of a group a message without a   *)
(* matching id is handed to is the implementation's choice (random in the  *)
(* code); the specification accepts any admissible one.                    *)
(***************************************************************************)
EXTENDS Poll, Json
CONSTANT TraceFile
TraceLog == ndJsonDeserialize(TraceFile)

VARIABLES l, P, chk
vars == <<l, P, chk>>
Ev == TraceLog[l]
Last == IF l > 1 THEN TraceLog[l - 1] ELSE [e |-> "none"]
NoChk == [send |-> TRUE, reg |-> TRUE, crash |-> FALSE]

\* the registry as observed: sequence of <<g, <<<<id, c>>...>>>>
ObsGroup(o, g) ==
  LET hits == {i \in DOMAIN o.reg : o.reg[i][1] = g} IN
  IF hits = {} THEN <<>>
  ELSE LET ms == o.reg[CHOOSE i \in hits : TRUE][2] IN [j \in DOMAIN ms |-> [id |-> ms[j][1], c |-> ms[j][2]]]
RegMatches(S, o) ==
  /\ \A g \in (DOMAIN S.reg) \cup {o.reg[i][1] : i \in DOMAIN o.reg} : GroupOf(S, g) = ObsGroup(o, g)
  /\ S.n = o.n
  /\ \A c \in DOMAIN S.buf : c <= Len(o.lens) /\ Len(S.buf[c]) = o.lens[c]

Init == l = 1 /\ P = EmptyPoll /\ chk = NoChk
Consume == l <= Len(TraceLog) /\ l' = l + 1
EReset == Consume /\ Ev.e = "reset" /\ P' = EmptyPoll /\ chk' = NoChk
EConnect ==
  /\ Consume /\ Ev.e = "connect"
  /\ P' = Connect(P, Ev.c, Ev.g, Ev.id)
  /\ chk' = [send |-> TRUE, reg |-> RegMatches(P', Ev), crash |-> Ev.panic \/ P'.crashed]
EDisconnect ==
  /\ Consume /\ Ev.e = "disconnect"
  /\ P' = Disconnect(P, Ev.c)
  /\ chk' = [send |-> TRUE, reg |-> RegMatches(P', Ev), crash |-> Ev.panic \/ P'.crashed]
ESend ==
  /\ Consume /\ Ev.e = "send"
  /\ LET cs == Candidates(P, Ev.type, Ev.g, Ev.id)
         ok == IF Ev.to = 0
               THEN /\ ~ Ev.done                                   \* reported delivered only if a buffer took it
                    /\ \/ cs = {}
                       \/ \E c \in cs : Len(P.buf[c]) >= Cap
               ELSE /\ Ev.done /\ Ev.to \in cs /\ Len(P.buf[Ev.to]) < Cap
     IN /\ P' = IF Ev.to = 0 THEN P ELSE Deliver(P, Ev.to, l)
        /\ chk' = [send |-> ok, reg |-> RegMatches(P', Ev), crash |-> Ev.panic \/ P'.crashed]
EDrain ==
  /\ Consume /\ Ev.e = "drain"
  /\ P' = IF Ev.got THEN Drain(P, Ev.c) ELSE P
  /\ chk' = [send |-> TRUE, reg |-> RegMatches(P', Ev), crash |-> Ev.panic]
EStop == Consume /\ Ev.e = "stop" /\ P' = P /\ chk' = NoChk
Next == EReset \/ EConnect \/ EDisconnect \/ ESend \/ EDrain \/ EStop
Spec == Init /\ [][Next]_vars

\* a message is handed to exactly one admissible listener of the addressed group (the one
\* with the addressed id if connected; a notification only to it) and reported delivered
\* exactly when that listener's buffer accepted it
C18_DeliveryAdmissible == chk.send
\* connects, reconnects (which replace the older connection), disconnects and the
\* connection limit leave the registry exactly as specified
C18_RegistryAsSpecified == chk.reg
C18_NeverCrashes == ~ chk.crash
TraceAccepted ==
  LET d == TLCGet("stats").diameter IN
  IF d - 1 = Len(TraceLog) THEN TRUE ELSE Print(<<"TRACE NOT CONSUMED", d - 1, Len(TraceLog)>>, FALSE)
Alias == [l |-> l, chk |-> chk, event |-> Last]
=============================================================================
