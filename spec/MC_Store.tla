------------------------------ MODULE MC_Store ------------------------------
(***************************************************************************)
(* Generator of store workloads (spec -> implementation direction of the   *)
(* C16 / C17 checks).  TLC in simulation mode walks the state machine      *)
(*    db' = ApplyBatch(db, batch)                                          *)
(* where a batch is 1..3 transactions of 1..3 commands drawn from all 27   *)
(* command kinds over small domains, and prints every behaviour as one     *)
(* JSON line (the list of batches).  The harness storex replays the lines  *)
(* on the real SQLite worker (and on the Postgres worker over the dialect  *)
(* emulation) and StoreTrace.tla judges what came back.                    *)
(* The module is also checked exhaustively to a small depth               *)
(* (MC_Store_small.cfg) for the structural invariants of Store.tla.        *)
(***************************************************************************)
EXTENDS Store, Json, Randomization

CONSTANTS Depth, Exhaustive

VARIABLES db, hist, n
vars == <<db, hist, n>>

P == {"p1", "p2"}
T == {"t1", "t2", "t3"}
CB == {"t1", "t2", "c1"}
W == {"w1", "w2"}
Times == 0..3
Vals == {EmptyValue, [headers |-> ("h" :> "1"), data |-> "d"]}
TagSets == {<<>>, ("a" :> "b"), ("a" :> "b") @@ ("c" :> "d")}
OptKey == {None, Some("k1")}
Mesgs == {[type |-> "invoke", root |-> p, leaf |-> p] : p \in P}
         \cup {[type |-> "resume", root |-> r, leaf |-> p] : r \in P, p \in P}
         \cup {[type |-> "notify", root |-> p, leaf |-> ""] : p \in P}
Recvs == {"\"w\"", "{\"type\":\"poll\",\"data\":{\"group\":\"g\"}}"}

R(S) == RandomElement(S)

PromiseCmdR(x) == [k |-> "CreatePromise", id |-> R(P), param |-> R(Vals), timeout |-> R(Times), ikc |-> R(OptKey),
                tags |-> R(TagSets), createdOn |-> R(Times)]
TaskCmdR(st, x) == [k |-> "CreateTask", id |-> R(T), recv |-> R(Recvs), mesg |-> R(Mesgs), timeout |-> R(Times),
                 pid |-> IF st = T_CLAIMED THEN Some(R(W)) ELSE None, state |-> st, ttl |-> R({0, 2}),
                 expiresAt |-> R(Times), createdOn |-> R(Times)]

Kinds == <<"ReadPromise", "ReadPromises", "SearchPromises", "CreatePromise", "CreatePromise", "UpdatePromise", "UpdatePromise",
           "CreateCallback", "CreateCallback", "DeleteCallbacks", "ReadSchedule", "ReadSchedules", "SearchSchedules",
           "CreateSchedule", "UpdateSchedule", "DeleteSchedule", "ReadTask", "ReadEnqueueableTasks", "ReadTasks",
           "CreateTask", "CreateTask", "CreateTasks", "CreateTasks", "CompleteTasks", "UpdateTask", "UpdateTask", "UpdateTask",
           "HeartbeatTasks", "CreatePromiseAndTask", "ReadLock", "AcquireLock", "AcquireLock", "ReleaseLock",
           "HeartbeatLocks", "TimeoutLocks">>

RandCmd(x) ==
  LET k == Kinds[R(DOMAIN Kinds)] IN
  CASE k = "ReadPromise" -> [k |-> k, id |-> R(P)]
    [] k = "ReadPromises" -> [k |-> k, time |-> R(Times), limit |-> R(1..3)]
    [] k = "SearchPromises" -> [k |-> k, q |-> R({"*", "p*", "*1", "p2"}),
                                states |-> R({{PENDING}, {RESOLVED}, {REJECTED, CANCELED, TIMEDOUT}, PromiseStates}),
                                tags |-> R({<<>>, ("a" :> "b"), ("c" :> "d")}), limit |-> R(1..3),
                                cursor |-> None]
    [] k = "CreatePromise" -> PromiseCmdR(x)
    [] k = "UpdatePromise" -> [k |-> k, id |-> R(P), state |-> R(TerminalStates), value |-> R(Vals), iku |-> R(OptKey),
                               completedOn |-> R(Times)]
    [] k = "CreateCallback" -> [k |-> k, id |-> R(CB), promiseId |-> R(P), recv |-> R(Recvs), mesg |-> R(Mesgs),
                                timeout |-> R(Times), createdOn |-> R(Times)]
    [] k = "DeleteCallbacks" ->
         [k |-> k, promiseId |-> IF DOMAIN db.callbacks # {} /\ R({TRUE, FALSE}) THEN db.callbacks[R(DOMAIN db.callbacks)].promiseId ELSE R(P)]
    [] k = "ReadSchedule" -> [k |-> k, id |-> R({"s1", "s2"})]
    [] k = "ReadSchedules" -> [k |-> k, time |-> R(Times), limit |-> R(1..2)]
    [] k = "SearchSchedules" -> [k |-> k, q |-> R({"*", "s1"}), tags |-> R({<<>>, ("a" :> "b")}), limit |-> R(1..2), cursor |-> None]
    [] k = "CreateSchedule" -> [k |-> k, id |-> R({"s1", "s2"}), desc |-> R({"", "d"}), cron |-> "* * * * *", tags |-> R(TagSets),
                                promiseId |-> "x.{{.timestamp}}", promiseTimeout |-> R(Times), promiseParam |-> R(Vals),
                                promiseTags |-> R(TagSets), next |-> R(Times), ikey |-> R(OptKey), createdOn |-> R(Times)]
    [] k = "UpdateSchedule" ->
         LET id == R({"s1", "s2"})
             aim == R({TRUE, FALSE}) /\ Has(db.schedules, id)
         IN [k |-> k, id |-> id, last |-> IF aim THEN Some(db.schedules[id].next) ELSE Some(R(Times)), next |-> R(Times)]
    [] k = "DeleteSchedule" -> [k |-> k, id |-> R({"s1", "s2"})]
    [] k = "ReadTask" -> [k |-> k, id |-> R(T)]
    [] k = "ReadEnqueueableTasks" -> [k |-> k, time |-> R(Times), limit |-> R(1..3)]
    [] k = "ReadTasks" -> [k |-> k, states |-> R({{T_ENQUEUED, T_CLAIMED}, {T_INIT}, {T_CLAIMED}}), time |-> R(Times), limit |-> R(1..3)]
    [] k = "CreateTask" -> TaskCmdR(R({T_INIT, T_CLAIMED}), x)
    [] k = "CreateTasks" ->
         [k |-> k, promiseId |-> IF DOMAIN db.callbacks # {} /\ R({TRUE, FALSE}) THEN db.callbacks[R(DOMAIN db.callbacks)].promiseId ELSE R(P),
          createdOn |-> R(Times)]
    [] k = "CompleteTasks" -> [k |-> k, rootId |-> R(P), completedOn |-> R(Times)]
    [] k = "UpdateTask" ->
         LET id == R(T)
             aim == R({TRUE, FALSE}) /\ Has(db.tasks, id)
         IN [k |-> k, id |-> id, pid |-> R({None, Some("w1")}), state |-> R(TaskStates), counter |-> R({1, 2}),
             attempt |-> R({0, 1}), ttl |-> R({0, 2}), expiresAt |-> R(Times), completedOn |-> R({None, Some(2)}),
             currentStates |-> IF aim THEN {db.tasks[id].state} \cup R({{}, {T_INIT}})
                               ELSE R({{T_INIT}, {T_INIT, T_ENQUEUED}, {T_CLAIMED}, {T_ENQUEUED, T_CLAIMED}}),
             currentCounter |-> IF aim THEN db.tasks[id].counter ELSE R({1, 1, 2})]
    [] k = "HeartbeatTasks" -> [k |-> k, pid |-> R(W), time |-> R(Times)]
    [] k = "CreatePromiseAndTask" ->
         LET pc == PromiseCmdR(x)
             tc == TaskCmdR(R({T_INIT, T_CLAIMED}), x)
         IN [k |-> k, promise |-> pc, task |-> [tc EXCEPT !.mesg = [type |-> "invoke", root |-> pc.id, leaf |-> pc.id]]]
    [] k = "ReadLock" -> [k |-> k, rid |-> R({"l1", "l2"})]
    [] k = "AcquireLock" -> [k |-> k, rid |-> R({"l1", "l2"}), eid |-> R({"e1", "e2"}), pid |-> R(W), ttl |-> R({0, 2}), expiresAt |-> R(Times)]
    [] k = "ReleaseLock" -> [k |-> k, rid |-> R({"l1", "l2"}), eid |-> R({"e1", "e2"})]
    [] k = "HeartbeatLocks" -> [k |-> k, pid |-> R(W), time |-> R(Times)]
    [] k = "TimeoutLocks" -> [k |-> k, time |-> R(Times)]

RandTx(x) == LET m == R(1..3) IN [i \in 1..m |-> RandCmd(<<x, i>>)]
RandBatch(x) == LET m == R({1, 1, 2, 3}) IN [i \in 1..m |-> RandTx(<<x, i>>)]

\* a small deterministic menu for the exhaustive configuration
SmallCmds ==
  {[k |-> "CreatePromise", id |-> p, param |-> EmptyValue, timeout |-> 2, ikc |-> None, tags |-> <<>>, createdOn |-> 0] : p \in P}
  \cup {[k |-> "UpdatePromise", id |-> p, state |-> s, value |-> EmptyValue, iku |-> None, completedOn |-> 1] : p \in P, s \in {RESOLVED, TIMEDOUT}}
  \cup {[k |-> "CreateCallback", id |-> c, promiseId |-> p, recv |-> "\"w\"", mesg |-> [type |-> "resume", root |-> "p2", leaf |-> p],
         timeout |-> 2, createdOn |-> 0] : c \in {"t1", "c1"}, p \in {"p1"}}
  \cup {[k |-> "CreateTasks", promiseId |-> "p1", createdOn |-> 1], [k |-> "DeleteCallbacks", promiseId |-> "p1"],
        [k |-> "CompleteTasks", rootId |-> "p2", completedOn |-> 1]}
  \cup {[k |-> "CreateTask", id |-> "t1", recv |-> "\"w\"", mesg |-> [type |-> "invoke", root |-> "p2", leaf |-> "p2"], timeout |-> 2,
         pid |-> None, state |-> T_INIT, ttl |-> 0, expiresAt |-> 0, createdOn |-> 0]}
  \cup {[k |-> "AcquireLock", rid |-> "l1", eid |-> e, pid |-> "w1", ttl |-> 1, expiresAt |-> 2] : e \in {"e1", "e2"}}
  \cup {[k |-> "ReleaseLock", rid |-> "l1", eid |-> "e1"], [k |-> "TimeoutLocks", time |-> 2]}

Init == db = EmptyDB /\ hist = <<>> /\ n = 0

Next ==
  /\ n < Depth
  /\ n' = n + 1
  /\ IF Exhaustive
     THEN \E c \in SmallCmds : db' = ApplyBatch(db, <<<<c>>>>) /\ hist' = <<>>
     ELSE LET b == RandBatch(n) IN db' = ApplyBatch(db, b) /\ hist' = Append(hist, b)

Spec == Init /\ [][Next]_vars

\* prints the behaviour when it is complete (simulation mode)
Emit == (n = Depth /\ ~ Exhaustive) => PrintT(<<"STOREGEN", ToJson(hist)>>)

\* structural invariants of every reachable database
TypeOK == WellFormed(db)
NoOrphanCallbackAfterDelete == TRUE
=============================================================================
