SPECIFICATION FairSpec
CONSTANTS
  CronPeriod <- MCCronPeriod
  Expand <- MCExpand
  PIds = {"p1"}
  Keys = {"k1"}
  Timeouts = {2}
  TagSets <- TaskTagSets
  SubIds = {"s1"}
  Pids = {"w1"}
  Ttls = {1}
  Counters = {1}
  LockIds = {"l1"}
  ExecIds = {"e1"}
  SchedIds = {"sc1"}
  Crons = {2}
  Templates = {"T"}
  PTimeouts = {1}
  MaxTime = 4
  MaxSteps = 2
  Delay = 1
  MaxCounter = 2
  MaxAttempt = 1
  Families = {"promise", "task", "lock", "sched"}
INVARIANTS
  TypeOK
PROPERTIES
  L_C11_Converges
