SPECIFICATION Spec
CONSTANTS
  Depth = 6
  Exhaustive = FALSE
INVARIANTS
  Emit
  TypeOK
