-------------------------------- MODULE Push --------------------------------
(***************************************************************************)
(* The HTTP push transport: internal/app/plugins/http/http.go behind the   *)
(* sender worker (internal/app/subsystems/aio/sender/sender.go:Process).   *)
(* C19: "an unknown or undeliverable address results in a failed, retried  *)
(* hand-off rather than a lost or misdirected message".                    *)
(*                                                                         *)
(* A message m is handed to the sender worker.  If its address resolves to *)
(* the http transport it is put on the transport's bounded queue (a Go     *)
(* channel of `Size` slots) - or refused at once when the queue is full.   *)
(* One transport worker takes the messages of the queue one at a time,     *)
(* POSTs the body to the url of the address and reports the hand-off:      *)
(*    success  iff the receiver answered 200;                              *)
(*    failure  when it answered anything else;                             *)
(*    error    when nothing was sent or no answer came (address data that  *)
(*             is no url, connection refused or cut, no answer in time).   *)
(* Exactly one report per message; the kernel retries failure and error.   *)
(*                                                                         *)
(* The state is one record S so that the trace specification can follow    *)
(* the set of states compatible with what was observed.                    *)
(***************************************************************************)
EXTENDS Integers, Sequences, FiniteSets, TLC

CONSTANT Size          \* slots of the transport queue

(***************************************************************************)
(* Classes of addresses (what the task's recv resolves to) and of          *)
(* receivers (what the addressed endpoint does with a request).            *)
(***************************************************************************)
\* addresses that reach the http transport and carry a url the client can contact
Reachable == {"url", "physical", "physical-headers"}
\* addresses that reach the http transport but cannot be contacted: the hand-off must fail without any request
Unreachable == {"data-not-object", "data-null", "url-absent", "url-empty", "url-invalid", "scheme-ftp", "refused"}
\* addresses the sender itself cannot resolve: the hand-off fails before any transport sees it
Unresolvable == {"recv-null", "recv-number", "scheme-unknown", "plugin-unknown"}
Addrs == Reachable \cup Unreachable \cup Unresolvable

\* what the endpoint does; `hang` answers after the client's timeout, `cut` closes the connection without answering,
\* `redirect` answers 307 to an endpoint that answers 200 (the client POSTs the body again there)
Behaviours == {"200", "201", "204", "400", "404", "500", "503", "slow-200", "hang", "cut", "redirect"}

\* the report the transport owes for a message that was put on the wire
ReportOf(b) ==
  CASE b \in {"200", "slow-200", "redirect"} -> "success"
    [] b \in {"201", "204", "400", "404", "500", "503"} -> "failure"
    [] b \in {"hang", "cut"} -> "error"

\* a message: m.id, m.addr \in Addrs, m.beh \in Behaviours (meaningful for reachable addresses)
Requests(m) == IF m.addr \in Reachable THEN (IF m.beh = "redirect" THEN 2 ELSE 1) ELSE 0

(***************************************************************************)
(* State and steps.                                                        *)
(*   sending  messages inside SenderWorker.Process, before the put         *)
(*   ending   messages inside SenderWorker.Process, after the put          *)
(*   queue    the channel of the transport                                 *)
(*   cur      the message the transport worker is busy with ("" = idle)    *)
(*   seen     how many requests of cur the receiver has got                *)
(*   owed     messages whose report is due at once (refused or             *)
(*            unresolvable: reported from inside Process)                  *)
(*   done     m.id -> the report given                                     *)
(*   log      requests received by endpoints, in order: <<message id>>     *)
(*   acc      ids in the order in which the transport accepted them        *)
(***************************************************************************)
EmptyPush == [sending |-> {}, ending |-> {}, queue |-> <<>>, cur |-> [id |-> ""], seen |-> 0, owed |-> {}, done |-> <<>>, log |-> <<>>, acc |-> <<>>]

Idle(S) == S.cur.id = ""
Reported(S, m) == m.id \in DOMAIN S.done

\* Process is called with m
Begin(S, m) == [S EXCEPT !.sending = @ \cup {m}]
\* inside Process: resolution, then the non-blocking put on the queue
CanEnq(S, m) == m \in S.sending
Enq(S, m) ==
  IF m.addr \in Unresolvable \/ Len(S.queue) >= Size
  THEN [S EXCEPT !.owed = @ \cup {m}, !.sending = @ \ {m}, !.ending = @ \cup {m}]
  ELSE [S EXCEPT !.queue = Append(@, m), !.acc = Append(@, m.id), !.sending = @ \ {m}, !.ending = @ \cup {m}]
\* Process returns: whatever it had to do with m has been done (a refusal has been reported)
CanEnd(S, m) == m \in S.ending /\ m \notin S.owed
End(S, m) == [S EXCEPT !.ending = @ \ {m}]

\* the transport worker takes the next message
CanTake(S) == Idle(S) /\ S.queue # <<>>
Take(S) == [S EXCEPT !.cur = Head(S.queue), !.seen = 0, !.queue = Tail(@)]

\* a request of cur arrives at its endpoint
CanArrive(S) == ~ Idle(S) /\ S.seen < Requests(S.cur)
Arrive(S) == [S EXCEPT !.seen = @ + 1, !.log = Append(@, S.cur.id)]

\* the report for m
ReportDue(S, m) ==
  IF m \in S.owed THEN "error"
  ELSE IF S.cur = m /\ S.seen = Requests(m) THEN (IF m.addr \in Reachable THEN ReportOf(m.beh) ELSE "error")
  ELSE "none"
Report(S, m, r) ==
  LET S1 == [S EXCEPT !.done = (m.id :> r) @@ @, !.owed = @ \ {m}] IN
  IF S.cur = m THEN [S1 EXCEPT !.cur = [id |-> ""], !.seen = 0] ELSE S1

(***************************************************************************)
(* The machine (for TLC): messages Msgs are handed over in any order, at   *)
(* any time.                                                               *)
(***************************************************************************)
CONSTANT Msgs
VARIABLE s
vars == <<s>>
Init == s = EmptyPush
Handed(m) == m \in s.sending \/ m \in s.ending \/ Reported(s, m) \/ m \in s.owed \/ s.cur = m \/ \E i \in DOMAIN s.queue : s.queue[i] = m
ABegin(m) == ~ Handed(m) /\ s' = Begin(s, m)
AEnq(m) == CanEnq(s, m) /\ s' = Enq(s, m)
AEnd(m) == CanEnd(s, m) /\ s' = End(s, m)
ATake == CanTake(s) /\ s' = Take(s)
AArrive == CanArrive(s) /\ s' = Arrive(s)
AReport(m) == ~ Reported(s, m) /\ ReportDue(s, m) # "none" /\ s' = Report(s, m, ReportDue(s, m))
Next == ATake \/ AArrive \/ \E m \in Msgs : ABegin(m) \/ AEnq(m) \/ AEnd(m) \/ AReport(m)
Spec == Init /\ [][Next]_vars /\ WF_vars(Next)

ById(i) == CHOOSE m \in Msgs : m.id = i
\* never more than one report per message, and only for messages handed over
P_ReportedOnce == [][\A m \in Msgs : Reported(s, m) => s'.done[m.id] = s.done[m.id]]_vars
\* success is reported only for a message whose receiver got it (and answered 200)
P_SuccessMeansDelivered ==
  \A i \in DOMAIN s.done : s.done[i] = "success" =>
     /\ ById(i).addr \in Reachable /\ ReportOf(ById(i).beh) = "success"
     /\ \E k \in DOMAIN s.log : s.log[k] = i
\* nothing reaches a receiver that was not addressed to one; no message is put on the wire twice
P_NoStrayRequest ==
  \A i \in {s.log[k] : k \in DOMAIN s.log} :
     /\ ById(i).addr \in Reachable
     /\ Cardinality({k \in DOMAIN s.log : s.log[k] = i}) <= Requests(ById(i))
\* the queue never holds more than its size; the worker does one thing at a time
P_Bounded == Len(s.queue) <= Size
\* the transport puts messages on the wire in the order in which it accepted them
First(seq, i) == CHOOSE k \in DOMAIN seq : seq[k] = i /\ \A j \in DOMAIN seq : seq[j] = i => k <= j
P_Fifo == \A a, b \in {s.log[k] : k \in DOMAIN s.log} :
            First(s.acc, a) < First(s.acc, b) => First(s.log, a) < First(s.log, b)
\* every message handed over is reported eventually (no message is lost silently)
P_EveryMessageReported == \A m \in Msgs : (m \in s.sending) ~> (Reported(s, m) /\ m \notin s.ending)
=============================================================================
