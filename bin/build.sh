#!/bin/bash
# Build the harness binaries from /repo's CURRENT working tree with the verif tag.
# Harness sources live in /verif/harness and are overlaid into the repository's module
# (everything that matters is under internal/), nothing is written to /repo.
set -euo pipefail
export GOFLAGS=-mod=mod GOPROXY=off GOSUMDB=off GOTOOLCHAIN=local
export GOCACHE=${VERIF_GOCACHE:-${VERIF_HOME:-/verif}/build/gocache}
REPO=${VERIF_REPO:-/repo}
V=${VERIF_HOME:-/verif}
B=$V/build
mkdir -p "$B"
python3 - "$REPO" "$V" <<'PY'
import json,os,sys
repo=sys.argv[1]
V=sys.argv[2]
H=V+'/harness'
rep={}
for pkg in ['project','ksim','storex','pgemu','frontx','routex','pollx','queuex','procx','pushx']:
    d=os.path.join(H,pkg)
    if not os.path.isdir(d): continue
    for f in os.listdir(d):
        if f.endswith('.go'):
            rep[f'{repo}/internal/verif/{pkg}/{f}']=os.path.join(d,f)
acc={'sender_access.go':'internal/app/subsystems/aio/sender/zz_verif_access.go',
     'sqlite_access.go':'internal/app/subsystems/aio/store/sqlite/zz_verif_access.go',
     'postgres_access.go':'internal/app/subsystems/aio/store/postgres/zz_verif_access.go',
     'poll_access.go':'internal/app/plugins/poll/zz_verif_access.go',
     'api_access.go':'internal/api/zz_verif_access.go',
     'system_access.go':'internal/kernel/system/zz_verif_access.go'}
for f,t in acc.items():
    p=os.path.join(H,'access',f)
    if os.path.exists(p): rep[f'{repo}/{t}']=p
json.dump({'Replace':rep},open(V+'/build/overlay.json','w'),indent=1)
PY
cd "$REPO"
for t in "$@"; do
  go build -tags verif -overlay "$B/overlay.json" -o "$B/$t" "./internal/verif/$t"
done
