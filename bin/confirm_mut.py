#!/usr/bin/env python3
"""Confirm a seeded change delivered by a sub-agent, in a scratch worktree of /repo:
 (b) with the change the tree builds and the existing suite passes,
 (c) with the change the demonstration fails,
 (a) without it the demonstration passes.
On success the change is stored as /verif/seeded/<name>/ (patch.diff, demo files, meta.json).
usage: confirm_mut.py <outdir> <worktree> <name> <property>"""
import json, os, re, shutil, subprocess, sys

out, wt, name, prop = sys.argv[1:5]
env = dict(os.environ, GOFLAGS='-mod=mod', GOPROXY='off', GOSUMDB='off', GOTOOLCHAIN='local')

def sh(cmd, check=False):
    p = subprocess.run(cmd, shell=True, cwd=wt, env=env, capture_output=True, text=True)
    if check and p.returncode != 0:
        print(p.stdout[-3000:], p.stderr[-3000:]); sys.exit(f'FAILED: {cmd}')
    return p

head = subprocess.run('git -C /repo rev-parse HEAD', shell=True, capture_output=True, text=True).stdout.strip()
sh(f'git checkout -q --detach {head} && git checkout -q -- . && git clean -qfd', check=True)

demo = open(os.path.join(out, 'demo.txt')).read()
copies = re.findall(r'^\s*(\S+)\s*-+>\s*(\S+)', demo, re.M)
cmds = [l.strip() for l in demo.splitlines() if l.strip().startswith('go test')]
if not copies or not cmds:
    sys.exit('cannot parse demo.txt')
cmd = cmds[0]

def put_demo():
    for s, d in copies:
        os.makedirs(os.path.dirname(os.path.join(wt, d)), exist_ok=True)
        shutil.copy(os.path.join(out, s), os.path.join(wt, d))

def rm_demo():
    sh('git clean -qfd')

res = {}
# (b) change applied: build + suite
sh(f'git apply {out}/patch.diff', check=True)
res['build'] = sh('go build ./...').returncode == 0
p = sh('go test -vet=off -count=1 ./... 2>&1')
res['suite_pass_with_change'] = p.returncode == 0
# (c) demo fails with the change
put_demo()
p = sh(cmd + ' 2>&1')
res['demo_fails_with_change'] = p.returncode != 0 and 'FAIL' in p.stdout
res['demo_output_with_change'] = p.stdout[-1500:]
# (a) demo passes without
sh('git checkout -q -- .')
p = sh(cmd + ' 2>&1')
res['demo_passes_without_change'] = p.returncode == 0
rm_demo()
sh('git checkout -q -- . && git clean -qfd')
ok = res['build'] and res['suite_pass_with_change'] and res['demo_fails_with_change'] and res['demo_passes_without_change']
print(name, 'CONFIRMED' if ok else 'REJECTED', {k: v for k, v in res.items() if k != 'demo_output_with_change'})
if ok:
    dst = f'/verif/seeded/{name}'
    os.makedirs(dst, exist_ok=True)
    shutil.copy(os.path.join(out, 'patch.diff'), dst)
    for s, d in copies:
        shutil.copy(os.path.join(out, s), dst)
    shutil.copy(os.path.join(out, 'demo.txt'), dst)
    readme = open(os.path.join(out, 'README.md')).read() if os.path.exists(os.path.join(out, 'README.md')) else ''
    open(os.path.join(dst, 'README.md'), 'w').write(readme)
    json.dump({'property': prop, 'name': name, 'confirmed_on_repo_head': head,
               'what_i_ran': ['git apply patch.diff; go build ./...; go test -vet=off -count=1 ./...  -> pass',
                              cmd + '  -> FAIL with the change, PASS without'],
               'needs': 'see README.md', 'detected_by': []},
              open(os.path.join(dst, 'meta.json'), 'w'), indent=1)
sys.exit(0 if ok else 1)
