#!/usr/bin/env python3
"""cex.py <tlc out.txt>: compact view of a Kernel.tla counterexample (violated property, schedule, last step)"""
import re, sys
t = open(sys.argv[1]).read()
print(' | '.join(re.findall(r'^Error: (.*(?:violated|Action property).*)', t, re.M)[:2]))
st = t.split('\nState ')[-1]
m = re.search(r'/\\ last = (.*)', st); print('last:', m.group(1)[:200] if m else '?')
m = re.search(r'/\\ now = (\d+)', st); print('now:', m.group(1) if m else '?')
m = re.search(r'/\\ hist = (<<.*)', st, re.S)
if m:
    out = []
    for r in re.findall(r'\[(.*?)\]', re.sub(r'\s+', ' ', m.group(1))):
        f = dict(re.findall(r'(\w+) \|-> ("[^"]*"|<<[^>]*>>|\w+)', r))
        e = f.get('e', '').strip('"')
        out.append(e + ':' + (f.get('c', f.get('t', '')).strip('"')) + (('/' + f['outcomes']) if 'outcomes' in f else ''))
    print(' '.join(out))
