#!/bin/bash
# queuegen.sh <num> <depth> <seed> <outfile>: schedules (call/send/shutdown steps) of random behaviours of Queues.tla
V=${VERIF_HOME:-/verif}
OUT=$(cd "$(dirname "$4")" && pwd)/$(basename "$4")
D=$(mktemp -d $V/run/qgen.XXXX)
printf 'SPECIFICATION Spec\nCONSTANTS\n  Clients = {"c1", "c2", "c3"}\n  Q = 1\n  C = 1\n  S = 1\n  PoolCap = 1\n  SB = 1\n  CB = 1\n  EmitAt = %s\n  EnqueueLocked = FALSE\nINVARIANTS\n  Emit\n' "$2" > $D/gen.cfg
cd $V/spec && timeout 600 java -Xmx4g -Xss512m -Djava.io.tmpdir=$D -cp /opt/veriftools/tla/tla2tools.jar:/opt/veriftools/tla/CommunityModules-deps.jar tlc2.TLC -noGenerateSpecTE -deadlock -workers 1 -simulate num=$1 -depth $2 -seed $3 -metadir $D/md -config $D/gen.cfg Queues.tla > $D/out.txt 2>&1
grep QGEN $D/out.txt | python3 -c "
import sys,re,json
seen=set()
for l in sys.stdin:
    m=re.match(r'<<\"QGEN\", (\".*\")>>',l.strip())
    if not m: continue
    j=json.loads(m.group(1))
    if j != '[]' and j not in seen:
        seen.add(j); print(j)
" > "$OUT"
rm -rf $D
