#!/bin/bash
# storegen.sh <num> <depth> <seed> <outfile>: TLC simulation of MC_Store.tla -> one JSON list of batches per line
V=${VERIF_HOME:-/verif}
OUT=$(cd "$(dirname "$4")" && pwd)/$(basename "$4")
D=$(mktemp -d $V/run/sgen.XXXX)
printf 'SPECIFICATION Spec\nCONSTANTS\n  Depth = %s\n  Exhaustive = FALSE\nINVARIANTS\n  Emit\n  TypeOK\n' "$2" > $D/gen.cfg
cd $V/spec && timeout 900 java -Xmx4g -Xss512m -Djava.io.tmpdir=$D -cp /opt/veriftools/tla/tla2tools.jar:/opt/veriftools/tla/CommunityModules-deps.jar tlc2.TLC -noGenerateSpecTE -deadlock -workers 1 -simulate num=$1 -depth $(( $2 + 2 )) -seed $3 -metadir $D/md -config $D/gen.cfg MC_Store.tla > $D/out.txt 2>&1
if grep -q "^Error" $D/out.txt; then grep -A5 "^Error" $D/out.txt | head -20 >&2; exit 2; fi
grep STOREGEN $D/out.txt | python3 -c "
import sys,re,json
for l in sys.stdin:
    m=re.match(r'<<\"STOREGEN\", (\".*\")>>',l.strip())
    if m: print(json.loads(m.group(1)))
" > "$OUT"
rm -rf $D
