#!/usr/bin/env python3
"""showrun.py <violation dir>: the run of the trace that contains the offending event, one line per event"""
import json, sys
d = sys.argv[1]
v = json.load(open(d + '/violation.json')); print(v['invariant'], 'at', v['event_line'])
lines = open(d + '/trace.ndjson').read().splitlines()
L = v['event_line']; s = L
while s > 0 and '"e":"reset"' not in lines[s - 1][:400]: s -= 1
skip = int(sys.argv[2]) if len(sys.argv) > 2 else 0
for n, l in enumerate(lines[s - 1:L + 1]):
    e = json.loads(l); k = e['e']
    if n < skip and k != 'reset': continue
    if k == 'reset': print('RESET', e.get('focus'), e.get('profile') if 'schedule' in str(e.get('profile')) else '')
    elif k == 'submit': print(' submit', e['t'], e['r'], e['kind'], json.dumps(e['args'])[:110])
    elif k == 'tick': pass
    elif k == 'commit': print(' commit', e['t'], e.get('fail'), [(t['o'], t['dt'], [(c['k'], c.get('id'), c.get('rows')) for c in t['cmds']]) for t in e['txs']])
    elif k == 'respond': print(' respond', e['t'], e['r'], e['body'].get('status'))
    elif k == 'send': print(' send', e['t'], e['o'], e['task'], e['counter'], e['outcome'], 'dt', e['dt'])
    elif k == 'select': print(' select', e['t'], e['o'], [(t['id'], t['counter']) for t in e['tasks']])
    else: print(' ', k, e.get('t'))
