#!/usr/bin/env python3
"""matrix_record.py <log>...: read the RESULT lines of bin/mutmatrix.sh and record them in
seeded/<name>/meta.json ("detected_by": checks that reported a violation, "missed_by": checks
that passed, with tier and seed) and print the table used in DESIGN.md."""
import json, os, re, sys
V = os.environ.get('VERIF_HOME', '/verif')
seen = {}
for path in sys.argv[1:]:
    seed = '1'
    m = re.search(r'seed(\d+)', os.path.basename(path))
    if m: seed = m.group(1)
    for line in open(path, errors='replace'):
        f = line.split()
        if len(f) >= 7 and f[0] == 'RESULT' and f[4].startswith('rc='):
            name, chk, tier, rc, inv = f[1], f[2], f[3], int(f[4][3:]), f[5]
            seen.setdefault(name, []).append({'check': chk, 'tier': tier, 'seed': seed, 'rc': rc, 'invariant': inv})
for name, rs in sorted(seen.items()):
    mp = f'{V}/seeded/{name}/meta.json'
    m = json.load(open(mp))
    runs = {(r['check'], r['tier'], r['seed']): r for r in m.get('matrix', [])}
    for r in rs: runs[(r['check'], r['tier'], r['seed'])] = r
    m['matrix'] = [runs[k] for k in sorted(runs)]
    m['detected_by'] = sorted({f"{r['check']} ({r['tier']}): {r['invariant']}" for r in m['matrix'] if r['rc'] == 1})
    m['missed_by'] = sorted({f"{r['check']} ({r['tier']}, seed {r['seed']})" for r in m['matrix'] if r['rc'] == 0})
    json.dump(m, open(mp, 'w'), indent=1)
    print(name, '|', '; '.join(m['detected_by']) or 'NOT DETECTED', '| missed:', ', '.join(m['missed_by']) or '-')
