#!/bin/bash
# pollgen.sh <num> <depth> <seed> <max> <cap> <outfile>: TLC simulation of MC_Poll.tla -> one JSON event list per line
V=${VERIF_HOME:-/verif}
OUT=$(cd "$(dirname "$6")" && pwd)/$(basename "$6")
D=$(mktemp -d $V/run/pgen.XXXX)
printf 'SPECIFICATION Spec\nCONSTANTS\n  Max = %s\n  Cap = %s\n  Depth = %s\n  MaxConns = 6\n  Gen = TRUE\nINVARIANTS\n  Emit\n  I_RegistryOK\n' "$4" "$5" "$2" > $D/gen.cfg
cd $V/spec && timeout 600 java -Xmx4g -Xss512m -Djava.io.tmpdir=$D -cp /opt/veriftools/tla/tla2tools.jar:/opt/veriftools/tla/CommunityModules-deps.jar tlc2.TLC -noGenerateSpecTE -deadlock -workers 1 -simulate num=$1 -depth $(( $2 * 3 )) -seed $3 -metadir $D/md -config $D/gen.cfg MC_Poll.tla > $D/out.txt 2>&1
if grep -q "^Error" $D/out.txt; then grep -A5 "^Error" $D/out.txt | head -20 >&2; exit 2; fi
grep POLLGEN $D/out.txt | python3 -c "
import sys,re,json
for l in sys.stdin:
    m=re.match(r'<<\"POLLGEN\", (\".*\")>>',l.strip())
    if m: print(json.loads(m.group(1)))
" > "$OUT"
rm -rf $D
