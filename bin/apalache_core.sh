#!/bin/bash
# Unbounded (inductive) check of the typed cores spec/apalache/{TaskLeaseCore,LockLeaseCore}.tla with Apalache:
#   Init => IndInv ; IndInv /\ Next => IndInv' ; IndInv => C07_Fencing / C09_Lease.
# Supplementary to the TLC checks of C07 and C09 (not a registered check: it says nothing about the code,
# it lifts the bounds of MC_A_task / MC_A_lock on counters, clock and number of claims).  exit 0 all three hold.
V=${VERIF_HOME:-/verif}
W=$(mktemp -d /dev/shm/apa.XXXX); trap 'rm -rf $W' EXIT
cp $V/spec/apalache/*.tla $W/; cd $W
rc=0
run() { m=$1; shift; out=$(timeout 600 apalache-mc check --cinit=CInit "$@" $m.tla 2>&1); echo "$out" | grep -q "EXITCODE: OK" && echo "OK   $m $*" || { echo "FAIL $m $*"; echo "$out" | tail -20; rc=1; }; }
run TaskLeaseCore --init=Init --inv=IndInv --length=0
run TaskLeaseCore --init=IndInit --inv=IndInv --length=1
run TaskLeaseCore --init=IndInit --inv=C07_Fencing --length=0
run LockLeaseCore --init=Init --inv=IndInv --length=0
run LockLeaseCore --init=IndInit --inv=IndInv --length=1
run LockLeaseCore --init=IndInit --inv=C09_Lease --length=0
exit $rc
