#!/bin/bash
# Unbounded (inductive) check of the typed core spec/apalache/TaskLeaseCore.tla with Apalache:
#   Init => IndInv ; IndInv /\ Next => IndInv' ; IndInv => C07_Fencing.
# Supplementary to the TLC checks of C07 (not a registered check: it says nothing about the code,
# it lifts the bound of MC_A_task on counters, clock and number of claims).  exit 0 all three hold.
V=${VERIF_HOME:-/verif}
W=$(mktemp -d /dev/shm/apa.XXXX); trap 'rm -rf $W' EXIT
cp $V/spec/apalache/TaskLeaseCore.tla $W/; cd $W
rc=0
run() { out=$(timeout 600 apalache-mc check --cinit=CInit "$@" TaskLeaseCore.tla 2>&1); echo "$out" | grep -q "EXITCODE: OK" && echo "OK   $*" || { echo "FAIL $*"; echo "$out" | tail -20; rc=1; }; }
run --init=Init --inv=IndInv --length=0
run --init=IndInit --inv=IndInv --length=1
run --init=IndInit --inv=C07_Fencing --length=0
exit $rc
