#!/bin/bash
# debugging helper: validate one trace with a list of invariants; print verdict + last state + offending event
# usage: tv.sh trace.ndjson INV1 INV2 ...
T=$(readlink -f $1); shift
D=$(mktemp -d /verif/run/tv.XXXX)
{ echo "SPECIFICATION Spec"; echo "CONSTANTS"; echo "  TraceFile = \"$T\""; echo "  CronPeriod <- TraceCronPeriod"; echo "  Expand <- TraceExpand"; echo "  Known = {${KNOWN:-}}"
  echo "CHECK_DEADLOCK FALSE"; echo "POSTCONDITION TraceAccepted"; echo "ALIAS Alias"; echo "INVARIANTS"; for i in "$@"; do echo "  $i"; done; } > $D/T.cfg
cd /verif/spec && timeout 600 tlc -noGenerateSpecTE -workers 1 -metadir $D/md -config $D/T.cfg ResonateTrace.tla > $D/out.txt 2>&1
grep -E "is violated|Error:|TRACE NOT|No error|states generated" $D/out.txt | head
L=$(grep -E "^/\\\\ l = " $D/out.txt | tail -1 | sed 's/.*= //')
if [ -n "$L" ] && grep -q "is violated\|Error" $D/out.txt; then
  tac $D/out.txt | grep -m1 -B0 "chk = " ; echo "event line $((L-1)):"; sed -n "$((L-1))p" $T | cut -c1-${TVW:-1500}
fi
echo "(output in $D/out.txt)"
