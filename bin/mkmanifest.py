#!/usr/bin/env python3
"""Regenerates /verif/MANIFEST.json from the table below (single source of truth for the interface)."""
import json, subprocess

ALL = ['C%02d' % i for i in range(1, 21)]
TRACE = 'TLA+ level-A spec (Resonate.tla/Props.tla) checked exhaustively by TLC + TLC trace validation (ResonateTrace.tla) of executions recorded from the real kernel/coroutines/sqlite store driven by the ksim harness (controlled AIO: commit order, batching, ticks, faults, crashes)'
TRACEB = TRACE + '; level-B spec of the coroutines (Kernel.tla: one yield at a time, B refines A checked exhaustively by TLC) whose preemption-bounded behaviours are enumerated by TLC and replayed as schedules step by step against the real kernel (ksim -script), the record judged by the same trace specification'
SIDE = 'TLA+ side specification checked/enumerated by TLC + conformance of the real code: TLC-generated workloads replayed on the real implementation and the recorded observations judged by TLC against the specification'
CLAIMED = {
 'C20': dict(cat='exploration', ref='6/C20', text='Fidelity.tla lists classes of client data (ids with slashes, spaces, case, non-ASCII, markup, separators, percent signs, template syntax, non-canonical path encodings; binary and large payloads; header/tag maps with empty and non-ASCII keys; idempotency keys; timeouts over the 64-bit range) and the scenarios: write through one protocol, read back through both, kill -9, restart, read again, complete, read again; ids differing only in case or surrounding space; ids derived by the server (scheduled promise ids, task ids and links in dispatched messages). TLC enumerates the scenarios, procx plays them on the real binary, TLC compares what came back (hex of the bytes) with what was supplied.', tech='TLA+ scenario table (Fidelity.tla) enumerated by TLC, played on the real server binary over HTTP and gRPC (procx), read-back values judged by TLC (FidelityTrace.tla)', engine='tlc+procx'),
 'C12': dict(cat='model_checking', ref='6/C12', text='Queues.tla (client goroutines, api queue/buffer/done flag under its lock, Loop, bounded scheduler in-queue, subsystem queue, worker, blocking completion queue) checked exhaustively by TLC for safety and liveness (exactly one reply, accepted requests answered before the loop returns, loop returns after shutdown); TLC-generated schedules of the controllable steps are replayed on the PRODUCTION api/aio/System.Loop with real goroutines (hook after the done-check), plus seeded free-running rounds with sizes down to 1 and bursts; TLC judges what every client observed.', tech=SIDE, engine='tlc+queuex'),
 'C15': dict(cat='model_checking', ref='6/C15', text='The complete finite table (17 operations x 29 statuses x delivery path x resource shape = 1632 vectors, and 44 paired requests) is enumerated by TLC from Render.tla and played against the real gin and grpc servers with real clients over a stub kernel, in a child process so that handler panics are observed; TLC judges HTTP code/body, gRPC code, outcome flags, the state of every promise in a reply (answers with a promise of each of the five states) and request translation.', tech=SIDE, engine='tlc+frontx'),
 'C16': dict(cat='model_checking', ref='6/C16', text='Store.tla is an executable reference of the 27 commands; TLC generates batches (1..3 transactions x 1..3 commands, guarded writes aimed at current rows half of the time, naturally failing bulk inserts) which are executed by the real SQLite worker; every reported result (evaluated on the state just before its command) and the five tables read back through a second connection are judged by TLC.', tech=SIDE, engine='tlc+storex'),
 'C17': dict(cat='model_checking', ref='6/C17', text='The same TLC-generated workloads are executed by the real Postgres worker code (statement text, placeholders, argument and scan order, row-count plumbing, transaction handling) over a dialect-translating driver on the SQLite engine, and by the SQLite worker; both are judged by TLC against Store.tla, hence against each other.', tech=SIDE, engine='tlc+storex+pgemu'),
 'C18': dict(cat='model_checking', ref='6/C18', text='Poll.tla (registry, buffers, connection limit, usurpation, id preference, notify rule, double-close = crash) checked exhaustively; TLC-generated event sequences are replayed on the real connections registry and PollWorker.Process, directly and through the real PollWorker.Start loop (control events queued while the worker is busy exercise the prioritised select); registry, buffer lengths, Done results and panics judged by TLC.', tech=SIDE, engine='tlc+pollx'),
 'C19': dict(cat='model_checking', ref='6/C19', text='Route.tla: routing-tag classes x target tables x stored receivers x task kinds (263 vectors) enumerated by TLC and played on the real router worker and the real sender worker with recording plugins; matched/receiver, plugin, data, message type, body and links judged by TLC.  Push.tla (the http transport: queue, worker, reports; model-checked) with 230 (thorough: 2130) TLC-generated scenarios played by pushx on the real sender worker and http plugin against loopback receivers, the record judged by PushTrace.tla.', tech=SIDE, engine='tlc+routex+pushx'),
 'C13': dict(cat='fault_enumeration', ref='6/C13', text='Front.tla structures the input space as endpoint x field x class of hostile value followed by the lifecycle an accepted entity goes through (time-out, routing, dispatch, firing, conversion), a kill -9, a restart and more background cycles; TLC enumerates the ~600 scenarios; each is played against its own real `resonate serve` process over real HTTP/gRPC by procx; TLC judges survival, liveness probes, reply classes and that refused requests leave no trace in the database file.', tech='TLA+ scenario table (Front.tla) enumerated by TLC, played on the real server binary (procx), observations judged by TLC (FrontTrace.tla)', engine='tlc+procx'),
 'C14': dict(cat='model_checking', ref='6/C14', text='Search definitions (pattern, state mask, tags, newest first, page size, cursor iff full) checked exhaustively by TLC: following cursors returns exactly the matching set once each; real searches go through the real API helper and real JWT cursors, each page must be the level-A result on a commit-point state, traversals are checked for duplicates/completeness under concurrent mutations, forged cursors must be rejected.', tech=TRACEB),
 'C01': dict(cat='model_checking', ref='6/C01', text='Write-once/immutability as TLA+ action properties: exhaustive on the bounded level-A model; every recorded commit (incl. each transaction inside a batch), reply and notification of seeded racing workloads with faults and crashes is checked by TLC against them.', tech=TRACEB),
 'C02': dict(cat='model_checking', ref='6/C02', text='Linearizability by observed commit points: every state change of the real store must be the level-A effect of the owning request at its decision tick (or a no-op), every reply must be the level-A result at one of the request\'s commit points; whole bodies compared, TLC is the oracle.', tech=TRACEB),
 'C03': dict(cat='model_checking', ref='6/C03', text='Declarative status tables of the statement checked by TLC against the operational spec for every reachable state and argument combination; the real create/complete coroutines are then validated against the spec on recorded traces incl. lost replies and racing retries.', tech=TRACEB),
 'C04': dict(cat='model_checking', ref='6/C04', text='Deadline semantics (before / exactly at / after) exhaustive in the model; real executions with boundary-biased ticks and decision tick decoupled from commit tick validated by TLC.', tech=TRACEB),
 'C05': dict(cat='model_checking', ref='6/C05', text='Conversion atomicity and acknowledgement semantics as TLA+ invariants/action properties, exhaustive for 2 promises x registrations x completion paths; real racing registration/completion workloads (both orders inside one batch, faults, crashes) validated by TLC.', tech=TRACEB),
 'C06': dict(cat='model_checking', ref='6/C06', text='Kernel level: crash = drop the real System and reopen the database file with a fresh one at seeded points; TLC checks that the state found after restart is exactly the last committed one, that every acknowledgement corresponds to a committed effect, and the atomicity invariants on every observed state. Process level: Durable.tla says what kill -9, SIGTERM with the default configuration, restarts, crashes during recovery and requests in flight at the kill may do to the durable state (nothing / all or nothing; background processing resumes); TLC generates behaviours, procx plays them on real `resonate serve` processes (real signals, bursts of small and of 100 kB requests killed after milliseconds or when the file has grown), TLC re-runs the machine along the observations and judges every look at the database file and every API read (DurableTrace.tla).', tech=TRACE + '; process level: TLA+ state machine Durable.tla, behaviours generated by TLC, played on the real binary by procx, observations validated by TLC (DurableTrace.tla)', engine='tlc+ksim'),
 'C07': dict(cat='model_checking', ref='6/C07', text='Claim guard, one claim per counter, lease honoured, fencing: exhaustive in the level-A task model (2 workers, stale/future counters, ttl 0); real claim/complete/heartbeat/sweep/dispatch interleavings validated by TLC with the lease bookkeeping of the spec.', tech=TRACEB),
 'C08': dict(cat='model_checking', ref='6/C08', text='Birth/finish of tasks with their promise and the dispatch discipline (selection, one per root per cycle, enqueued only after success, message names task+counter) checked by TLC on the model and on recorded executions with the real router and the real sender worker (recording plugin).', tech=TRACEB),
 'C09': dict(cat='model_checking', ref='6/C09', text='Lock exclusivity and lease arithmetic: exhaustive for 2 executions x 2 processes x ttl {0,1,2} x every clock position; real acquire/release/heartbeat/sweep interleavings validated by TLC.', tech=TRACEB),
 'C10': dict(cat='model_checking', ref='6/C10', text='Schedule firing (advance by exactly one occurrence, never early, atomic with the promise, idempotent create) exhaustive in the model; real cron strings, clock jumps, delete/re-create races, faults and crashes validated by TLC, incl. what a firing cycle selects (the most overdue first) and that no occurrence is left behind when the run ends (convergence workload with unrenderable id templates).', tech=TRACEB),
 'C11': dict(cat='model_checking', ref='6/C11', text='Liveness <>[]Converged under weak fairness of the background effects checked by TLC on level A; on the real kernel: after clients stop, configurations drawn down to 1, the bounded number of cycles is run and TLC evaluates Converged on the logged database.  Tick.tla (admission of background coroutines and requests per tick; model-checked) with every tick of every run judged by TickTrace.tla; the production queues by queuex.', tech=TRACEB),
}
NOTE = {
 'C01': 'bounded models; promise values from small pools (byte fidelity is C20); SQLite atomic commit, TLC, the projection function are trusted',
 'C02': 'the sequential spec of ClaimTask has two instants (claim, then promise read), as the API does; search is checked by C14',
 'C03': 'routing tags restricted to plain strings at this level (JSON receivers: C19)',
 'C04': 'the clock reading that counts for a reply is the one of its linearization point; known finding F3 is reported, not suppressed for other cases',
 'C05': 'ids with ":" (non-injective derived ids) are exercised by the colliding-ids workload and the collide scenario; the wedge they cause is known finding F2 (C11)',
 'C06': 'fsync / power loss is out of scope (a process kill keeps the OS page cache); at kernel level process death is simulated by dropping the System and the connection',
 'C07': 'the attempt counter is advisory and compared loosely after claims',
 'C08': 'hand-off outcomes are scripted by the harness (ok/refused/transport error); router errors injected',
 'C09': 'single store connection',
 'C10': 'cron expressions of the */k-seconds family; robfig/cron is the trusted definition of an occurrence',
 'C12': 'one subsystem (echo) and one worker; wall-clock settle times in directed mode steer the schedule only (the verdict is on what clients observed; a request is reported missing after 5 s)',
 'C15': 'the stub kernel may return combinations the real kernel never produces (the statement quantifies over every status for every endpoint)',
 'C16': 'isolation (visibility only at commit) is exercised through the second connection after every Execute, not at intermediate points',
 'C17': 'NO Postgres server: the SQL runs on SQLite through pgemu; Postgres-only semantics (32-bit INTEGER columns, jsonb key order, locking across several workers) are out of reach',
 'C18': 'the HTTP/SSE handler goroutines and the shutdown path are outside the replay',
 'C19': 'representative values per class, all classes enumerated',
 'C13': 'classes of values with representatives (not every byte string); both tiers play the whole table; background work after the hostile input is awaited with bounded wait-until looks (12 s), never a fixed sleep; expectations "must be refused" only where the statement is unambiguous (absent/empty required field, wrong JSON type, out-of-range number), otherwise only survival and no 5xx',
 'C20': 'classes with representatives, not every byte string; HTTP header values cannot carry non-ASCII text or surrounding white space (those idempotency keys travel over gRPC only); values are re-encoded to hex by the harness before TLC compares them',
 'C14': 'ids and patterns from an alphabet without SQL LIKE metacharacters and of uniform case (SQLite LIKE is case-insensitive; the statement only defines *); completeness is checked for promise traversals',
 'C11': 'the cycle bound is generous (40 + 12 x rows); hand-offs succeed and no faults after clients stop; known finding F2 (colliding derived ids) is reported, other stuck promises are violations',
}
REASONS = {p: 'check not built yet (work in progress; see DESIGN.md section 10 for the build order)' for p in ALL}

def main():
    try:
        cur = json.load(open('/verif/MANIFEST.json'))
    except Exception:
        cur = {}
    commits = subprocess.run('git -C /repo log --format=%H --grep="^verif-hook:"', shell=True, capture_output=True, text=True).stdout.split()
    checks = []
    for p in ALL:
        if p not in CLAIMED: continue
        c = CLAIMED[p]
        checks.append(dict(property_id=p, quick_cmd=f'bin/check {p} --tier quick', thorough_cmd=f'bin/check {p} --tier thorough',
                           evidence_file=f'/verif/evidence/{p}.json', replay_cmd_template='bin/check replay {path}',
                           engine=c.get('engine', 'tlc+ksim'),
                           level_claimed=dict(category=c['cat'], text=c['text'], design_ref=c['ref']),
                           level_note=NOTE.get(p, ''), technique=c['tech']))
    m = dict(version=1,
             setup_cmd='bin/setup.sh',
             hooks=dict(guard='verif', enable='bin/build.sh: go build -tags verif -overlay /verif/build/overlay.json (harness sources and accessor files are overlaid into the module, nothing is written to /repo)',
                        baseline_off_cmd='cd /repo && GOFLAGS=-mod=mod GOPROXY=off GOSUMDB=off GOTOOLCHAIN=local go test -vet=off -count=1 ./...',
                        source_commits=commits, add_only=True),
             engines=[dict(name='tlc+ksim', path='/verif/bin/check', serves_properties=sorted(p for p in CLAIMED if CLAIMED[p].get('engine', 'tlc+ksim') == 'tlc+ksim'),
                           kind_free_text='TLC (exhaustive level-A models + trace validation) over traces recorded by Go harnesses that drive the real code')],
             checks=checks,
             notes='Known findings: /verif/known_findings.json. Seeded changes and which checks catch them: /verif/seeded/*/meta.json and DESIGN.md.',
             not_applicable=[dict(property_id=p, reason=REASONS[p]) for p in ALL if p not in CLAIMED])
    json.dump(m, open('/verif/MANIFEST.json', 'w'), indent=1)

if __name__ == '__main__':
    main()
