#!/bin/bash
# Run checks against seeded changes: for each seeded/<name> apply patch.diff to the repository
# copy ($VERIF_REPO, default /repo), run the checks, undo.
#   mutmatrix.sh [name | name:Cxx,Cyy[:tier] ...]     (no argument: every seeded change)
# Without an explicit list a change is run against meta.json "checks" (entries "Cxx" or "Cxx:thorough").
# Prints one line per pair:  RESULT <name> <Cxx> <tier> rc=<rc> <violated invariant> <#VIOLATION lines>
V=${VERIF_HOME:-/verif}; R=${VERIF_REPO:-/repo}
cd $V
items="$@"
[ -z "$items" ] && items=$(ls seeded | grep -v PROMPT)
for it in $items; do
  n=${it%%:*}
  if [ "$n" = "$it" ]; then
    ps=$(python3 -c "import json;m=json.load(open('seeded/$n/meta.json'));print(' '.join(m.get('checks') or [m['property']]))")
  else
    ps=${it#*:}; ps=${ps//,/ }
  fi
  if ! git -C $R apply --check $V/seeded/$n/patch.diff 2>/dev/null; then echo "RESULT $n - patch does not apply"; continue; fi
  git -C $R apply $V/seeded/$n/patch.diff
  for p in $ps; do
    tier=${TIER:-quick}; case $p in *:*) tier=${p#*:}; p=${p%%:*};; esac
    out=$(VERIF_SEED=${VERIF_SEED:-1} bin/check $p --tier $tier 2>&1); rc=$?
    inv=$(echo "$out" | grep -o "invariant [A-Za-z0-9_]* violated" | head -1 | awk '{print $2}')
    echo "RESULT $n $p $tier rc=$rc ${inv:--} $(echo "$out" | grep -c '^VIOLATION')"
    [ $rc -eq 2 ] && echo "$out" | tail -5
  done
  git -C $R checkout -- . ; git -C $R clean -qfd -- internal test cmd pkg 2>/dev/null
done
