#!/bin/bash
# Run checks against seeded changes: for each seeded/<name> apply patch.diff to the repository
# copy ($VERIF_REPO, default /repo), run the listed checks, undo.  usage: mutmatrix.sh [name:Cxx,Cyy ...]
# without arguments: every seeded change against the property named in its meta.json.
V=${VERIF_HOME:-/verif}; R=${VERIF_REPO:-/repo}
cd $V
items="$@"
if [ -z "$items" ]; then
  for d in seeded/*/; do n=$(basename $d); p=$(python3 -c "import json;print(json.load(open('$d/meta.json'))['property'])" 2>/dev/null || echo ""); [ -n "$p" ] && items="$items $n:$p"; done
fi
for it in $items; do
  n=${it%%:*}; ps=${it#*:}
  if ! git -C $R apply --check $V/seeded/$n/patch.diff 2>/dev/null; then echo "RESULT $n - patch does not apply"; continue; fi
  git -C $R apply $V/seeded/$n/patch.diff
  for p in ${ps//,/ }; do
    out=$(VERIF_SEED=${VERIF_SEED:-1} bin/check $p --tier ${TIER:-quick} 2>&1); rc=$?
    inv=$(echo "$out" | grep -o "invariant [A-Za-z0-9_]* violated" | head -1)
    echo "RESULT $n $p rc=$rc $inv $(echo "$out" | grep -c '^VIOLATION')"
    [ $rc -eq 2 ] && echo "$out" | tail -5
  done
  git -C $R checkout -- . ; git -C $R clean -qfd -- internal test cmd pkg 2>/dev/null
done
