#!/bin/bash
# kgen.sh <scenario> <num> <seed> <outfile> [keep]: TLC simulation of spec/Kernel.tla for one scenario of
# MC_Kernel.tla -> one JSON document {name, setup, script, t0, delay, schedules:[...]} (appended to outfile).
# Of the <num> behaviours the <keep> most different ones are kept (greedy, by the 3-grams of their steps).
V=${VERIF_HOME:-/verif}
S=$1; N=$2; SEED=$3; OUT=$(cd "$(dirname "$4")" && pwd)/$(basename "$4"); KEEP=${5:-$N}
D=$(mktemp -d $V/run/kgen.XXXX)
sed -e 's/^VIEW View//' -e '/^INVARIANTS/,$d' $V/spec/MC_Kernel_$S.cfg > $D/gen.cfg
printf '  Name = "%s"\n  Setup <- Setup_%s\nINVARIANTS\n  Emit\n' "$S" "$S" | python3 -c "
import sys
cfg=open('$D/gen.cfg').read(); add=sys.stdin.read()
i=cfg.index('CONSTANTS')+len('CONSTANTS\n')
consts,inv=add.split('INVARIANTS')
open('$D/gen.cfg','w').write(cfg[:i]+consts+cfg[i:]+'INVARIANTS'+inv)"
cd $V/spec && timeout 900 java -Xmx4g -Xss512m -Djava.io.tmpdir=$D -cp /opt/veriftools/tla/tla2tools.jar:/opt/veriftools/tla/CommunityModules-deps.jar tlc2.TLC -noGenerateSpecTE -deadlock -workers 1 -simulate num=$N -depth 60 -seed $SEED -metadir $D/md -config $D/gen.cfg KernelGen.tla > $D/out.txt 2>&1
if grep -q "^Error" $D/out.txt; then grep -B2 -A8 "^Error" $D/out.txt | head -30 >&2; exit 2; fi
KEEP=$KEEP python3 - $D/out.txt >> "$OUT" <<'PY'
import sys,re,json,os
hdr=None; scheds=[]; seen=set()
for l in open(sys.argv[1]):
    l=l.strip()
    m=re.match(r'<<"KERNELHDR", (".*")>>',l)
    if m and hdr is None: hdr=json.loads(json.loads(m.group(1)))
    m=re.match(r'<<"KERNELGEN", (".*")>>',l)
    if m:
        h=json.loads(json.loads(m.group(1)))
        key=json.dumps(h)
        if key not in seen: seen.add(key); scheds.append(h)
def grams(h):
    t=[s['e']+':'+str(s.get('c',s.get('t',''))) for s in h]
    return {tuple(t[i:i+3]) for i in range(len(t)-2)}
keep=int(os.environ['KEEP']); chosen=[]; cov=set(); pool=[(h,grams(h)) for h in scheds]
while pool and len(chosen)<keep:
    best=max(range(len(pool)), key=lambda i: len(pool[i][1]-cov))
    h,g=pool.pop(best); chosen.append(h); cov|=g
hdr['schedules']=chosen
print(json.dumps(hdr))
PY
rm -rf $D
