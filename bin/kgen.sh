#!/bin/bash
# kgen.sh <scenario> <parties> <bound> <seed> <outfile> [max]: ALL preemption-bounded schedules of one scenario of
# MC_Kernel.tla (TLC, exhaustive, spec KernelGen!GenSpec) for every choice of <parties> of its requests and
# sweeps -> one JSON document {name, setup, script, t0, delay, schedules:[...]} appended to outfile.
# Schedules that commit in the same order and take every decision at the same instant are one class
# (one representative is kept); if there are more than <max> classes a seeded sample is taken.
V=${VERIF_HOME:-/verif}
S=$1; PARTIES=$2; BOUND=$3; SEED=$4; OUT=$(cd "$(dirname "$5")" && pwd)/$(basename "$5"); MAX=${6:-0}
D=$(mktemp -d $V/run/kgen.XXXX)
python3 - $V/spec/MC_Kernel_$S.cfg $D/gen.cfg "$S" "$PARTIES" "$BOUND" <<'PY'
import sys,re
src,dst,name,parties,bound=sys.argv[1:6]
cfg=open(src).read()
cfg=cfg[:cfg.index('VIEW')] if 'VIEW' in cfg else cfg[:cfg.index('INVARIANTS')]
cfg=cfg.replace('SPECIFICATION Spec','SPECIFICATION GenSpec')
cfg=re.sub(r'Parties = \d+','Parties = '+parties,cfg)
cfg+=f'  Name = "{name}"\n  Setup <- Setup_{name}\n  Bound = {bound}\nINVARIANTS\n  EmitAll\n'
open(dst,'w').write(cfg)
PY
cd $V/spec && timeout 1500 java -Xmx8g -Xss512m -Djava.io.tmpdir=$D -cp /opt/veriftools/tla/tla2tools.jar:/opt/veriftools/tla/CommunityModules-deps.jar tlc2.TLC -noGenerateSpecTE -deadlock -workers 8 -metadir $D/md -config $D/gen.cfg KernelGen.tla > $D/out.txt 2>&1
if grep -q "^Error" $D/out.txt; then grep -B2 -A8 "^Error" $D/out.txt | head -30 >&2; exit 2; fi
MAX=$MAX SEED=$SEED python3 - $D/out.txt >> "$OUT" <<'PY'
import sys,re,json,os,random
hdr=None; classes={}; total=0
for l in open(sys.argv[1]):
    l=l.strip()
    m=re.match(r'<<"KERNELHDR", (".*")>>',l)
    if m and hdr is None: hdr=json.loads(json.loads(m.group(1)))
    m=re.match(r'<<"KERNELGEN", (".*")>>',l)
    if not m: continue
    h=json.loads(json.loads(m.group(1))); total+=1
    now=None; commits=[]; ticks={}
    for s in h:
        e=s['e']
        if e=='advance': now=s['t']
        elif e=='commit': commits.append(s['c'])
        elif e=='send': commits.append('send:'+s['c']+':'+','.join(s['outcomes']))
        elif e in ('start','resume','sweep'): ticks.setdefault(s['c'],[]).append(now)
    key=json.dumps([commits,sorted(ticks.items())])
    if key not in classes or len(h)<len(classes[key]): classes[key]=h
keys=sorted(classes)
mx=int(os.environ['MAX'])
if mx and len(keys)>mx:
    random.Random(int(os.environ['SEED'])).shuffle(keys); keys=keys[:mx]
hdr['schedules']=[classes[k] for k in keys]
hdr['behaviours']=total; hdr['classes']=len(classes)
print(json.dumps(hdr))
sys.stderr.write(f"kgen: {hdr['name']}: {total} behaviours, {len(classes)} classes, {len(keys)} kept\n")
PY
rm -rf $D
