#!/bin/bash
# Run once after a fresh restore, offline: build the harness binaries from files on disk and
# run the machinery self-test (the binding must bite).
set -euo pipefail
cd /verif
mkdir -p build run evidence
bin/build.sh ksim
echo "setup: ksim built"
