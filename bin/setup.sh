#!/bin/bash
# Run once after a fresh restore, offline: build the harness binaries from files on disk.
set -euo pipefail
cd ${VERIF_HOME:-/verif}
mkdir -p build run evidence
bin/build.sh ksim storex frontx routex pollx queuex procx pushx
echo "setup: harness binaries built"
