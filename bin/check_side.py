"""Checks that use the side specifications (Store, Render, Route, Poll, Queues, Front, Search)."""
import json, os, re, shutil, subprocess, sys, time
from concurrent.futures import ThreadPoolExecutor

V = os.environ.get('VERIF_HOME', '/verif')
sys.path.insert(0, f'{V}/bin')

def _core():
    import importlib.machinery, importlib.util
    loader = importlib.machinery.SourceFileLoader('check_core', f'{V}/bin/check')
    spec = importlib.util.spec_from_loader('check_core', loader)
    m = importlib.util.module_from_spec(spec)
    loader.exec_module(m)
    return m

core = _core()

def known_names(pid=None):
    return [k['name'] for k in core.known_findings() if k.get('status') == 'known']

def print_known(pid, seen):
    for k in core.known_findings():
        if k.get('status') == 'known' and pid in k.get('properties', []):
            print(f'KNOWN-FINDING: property={pid} {k["name"]}: {k["signature"]}' + ('' if k['name'] in seen else ' [listed; not met by the workloads of this run]'))

def tlc_trace(module, tracefile, invs, outdir, extra_consts='', spec='Spec'):
    os.makedirs(outdir, exist_ok=True)
    cfg = f'{outdir}/T.cfg'
    with open(cfg, 'w') as f:
        f.write(f'SPECIFICATION {spec}\nCONSTANTS\n  TraceFile = "{tracefile}"\n{extra_consts}')
        f.write('CHECK_DEADLOCK FALSE\nPOSTCONDITION TraceAccepted\nALIAS Alias\nINVARIANTS\n')
        for i in invs: f.write(f'  {i}\n')
    rc, out = core.tlc(module, cfg, outdir, workers=1, heap='3g', timeout=1500)
    gen, dist = core.stats(out)
    r = dict(trace=tracefile, states=dist, violated=None, line=None, error=None, seen=[], dir=outdir)
    m = re.search(r'KNOWN-FINDINGS-SEEN", \{(.*?)\}', out)
    if m: r['seen'] = re.findall(r'"(\w+)"', m.group(1))
    m = re.search(r'Invariant (\w+) is violated', out)
    if m:
        r['violated'] = m.group(1)
        ls = re.findall(r'^/\\ l = (\d+)', out, re.M)
        r['line'] = int(ls[-1]) - 1 if ls else None
        cs = re.findall(r'^/\\ (?:chk|bad) = (.*?)(?:\n/\\|\n\n)', out, re.M | re.S)
        r['chk'] = cs[-1].replace('\n', ' ')[:800] if cs else ''
    elif 'No error has been found' not in out:
        r['error'] = (re.findall(r'^Error: .*', out, re.M) or ['unknown'])[0] + ' :: ' + out[-600:]
    return r

def run_procx(cmd, obs, env):
    """procx is machinery: when it fails (the build of the server binary, a lost race for ports under load) it is run once more"""
    p = None
    for attempt in (1, 2):
        try:
            p = subprocess.run(cmd, shell=True, capture_output=True, text=True, timeout=3000, env=env)
        except subprocess.TimeoutExpired:
            core.die('procx timed out')
        if p.returncode == 0 and os.path.exists(obs):
            return p
        sys.stderr.write(f'check: procx failed (attempt {attempt}): rc={p.returncode} {p.stderr[-600:]}\n')
        time.sleep(2)
    print(p.stdout[-1500:], p.stderr[-1500:]); core.die('procx failed (could the server binary be built?)')

def save_violation(pid, r, regenerate):
    d = f'{V}/run/violations/{pid}-{int(time.time())}-{os.getpid()}'
    os.makedirs(d, exist_ok=True)
    shutil.copy(r['trace'], f'{d}/trace.ndjson')
    txt = open(f'{r["dir"]}/T.cfg').read().replace(r['trace'], f'{d}/trace.ndjson')
    open(f'{d}/T.cfg', 'w').write(txt)
    ev = ''
    if r.get('line'):
        with open(r['trace']) as f:
            for i, line in enumerate(f, 1):
                if i == r['line']: ev = line[:4000]; break
    json.dump(dict(property=pid, invariant=r['violated'], event_line=r.get('line'), chk=r.get('chk'), event=ev,
                   module=r.get('module', ''), regenerate=regenerate), open(f'{d}/violation.json', 'w'), indent=1)
    return d

def split_lines(path, n, outdir, marker='"e":"reset"'):
    os.makedirs(outdir, exist_ok=True)
    files, cur, cnt = [], None, 0
    with open(path) as f:
        for line in f:
            if marker in line[:300] and (cur is None or cnt >= n):
                if cur: cur.close()
                p = f'{outdir}/part{len(files) + 1}.ndjson'
                cur = open(p, 'w'); files.append(p); cnt = 0
            if cur is None:
                p = f'{outdir}/part1.ndjson'; cur = open(p, 'w'); files.append(p)
            cur.write(line); cnt += 1
    if cur: cur.close()
    return files

# ---------------------------------------------------------------------------------------
# C16 / C17: store workers against Store.tla
# ---------------------------------------------------------------------------------------
def run_store(pid, tier, seed):
    t0 = time.time()
    rundir = f'{V}/run/{pid}-{tier}-{os.getpid()}'
    shutil.rmtree(rundir, ignore_errors=True); os.makedirs(rundir)
    core.build(['storex'])
    # exhaustive: structural invariants of the reference itself
    mc_cfg = f'{rundir}/mcstore.cfg'
    open(mc_cfg, 'w').write(f'SPECIFICATION Spec\nCONSTANTS\n  Depth = {5 if tier == "quick" else 6}\n  Exhaustive = TRUE\nINVARIANTS\n  TypeOK\n')
    rc, out = core.tlc('MC_Store.tla', mc_cfg, f'{rundir}/mc', workers=16, heap='8g', timeout=1200)
    gen, dist = core.stats(out)
    if 'No error has been found' not in out:
        print(out[-2000:]); core.die('MC_Store exhaustive configuration failed (machinery)')
    nseq, depth = (250, 8) if tier == 'quick' else (3000, 10)
    genfile = f'{rundir}/gen.txt'
    p = core.sh(f'{V}/bin/storegen.sh {nseq} {depth} {seed + 11} {genfile}')
    if p.returncode != 0 or not os.path.exists(genfile) or os.path.getsize(genfile) == 0:
        print(p.stdout, p.stderr); core.die('TLC could not generate store workloads')
    backends = ['sqlite'] if pid == 'C16' else ['postgres', 'sqlite']
    invs = ['C16_BatchEffect', 'C16_ErrorIffFails', 'C16_Results', 'Conclusive']
    total_exec, samples, kinds_seen, viol, inconc = 0, [], set(), None, 0
    for b in backends:
        trace = f'{rundir}/{b}.ndjson'
        cmd = f'{V}/build/storex -gen {genfile} -out {trace} -dir {rundir}/db -backend {b}'
        os.makedirs(f'{rundir}/db', exist_ok=True)
        p = core.sh(cmd)
        if p.returncode != 0:
            print(p.stdout[-2000:], p.stderr[-2000:]); core.die(f'storex failed: {cmd}')
        m = re.search(r'executes=(\d+) inconclusive=(\d+) kinds=(\d+)', p.stdout)
        total_exec += int(m.group(1)); inconc += int(m.group(2))
        parts = split_lines(trace, 4000, f'{rundir}/{b}.parts')
        with ThreadPoolExecutor(max_workers=8) as ex:
            rs = list(ex.map(lambda a: tlc_trace('StoreTrace.tla', a[1], invs, f'{rundir}/{b}.v{a[0]}'), enumerate(parts)))
        for r in rs:
            if r['error']:
                print(r['error']); core.die('TLC could not validate a store trace (machinery error)')
            if r['violated'] and viol is None:
                r['module'] = 'StoreTrace.tla'
                viol = (r, cmd, b)
        with open(trace) as f:
            for i, line in enumerate(f):
                e = json.loads(line)
                if e['e'] == 'exec':
                    for tx in e['txs']:
                        for c in tx: kinds_seen.add(c['k'])
                    if len(samples) < 3 and b == backends[0]:
                        samples.append({'backend': b, 'txs': e['txs'], 'results': e['results'], 'err': e['err']})
        shutil.rmtree(f'{rundir}/db', ignore_errors=True)
    wall = time.time() - t0
    cov = dict(states=dist or 1, transitions=gen or 1, traces_validated_against_impl=nseq * len(backends),
               evaluations=total_exec, distinct_nontrivial=len(kinds_seen),
               rule='one evaluation = one Execute of a TLC-generated batch (1..3 transactions of 1..3 commands) on a real store worker; distinct_nontrivial counts the distinct command kinds exercised (of 27)',
               backends=backends, sequences=nseq, depth=depth, inconclusive_statements=inconc,
               samples=samples or [{'note': 'none'}], exhaustive=False)
    assumptions = ['Store.tla is the reference; TLC generates the workloads and judges results and table contents',
                   'SQLite engine; for C17 the Postgres worker code runs over the pgemu dialect translation on SQLite (no Postgres server exists in the sandbox)']
    if viol:
        r, cmd, b = viol
        d = save_violation(pid, r, cmd)
        core.write_evidence(pid, tier, seed, 'model_checking', cov, wall, 1, assumptions)
        print(f'backend {b}: invariant {r["violated"]} violated at event {r["line"]}: {r.get("chk", "")}')
        print(f'VIOLATION property={pid} replay={d}')
        return 1
    core.write_evidence(pid, tier, seed, 'model_checking', cov, wall, 0, assumptions)
    print(f'{pid} {tier}: {total_exec} executes of {len(kinds_seen)} command kinds on {backends} conform to Store.tla; {wall:.0f}s')
    shutil.rmtree(rundir, ignore_errors=True)
    return 0

# ---------------------------------------------------------------------------------------
# C18: poll transport against Poll.tla
# ---------------------------------------------------------------------------------------
def run_poll(pid, tier, seed):
    t0 = time.time()
    rundir = f'{V}/run/{pid}-{tier}-{os.getpid()}'
    shutil.rmtree(rundir, ignore_errors=True); os.makedirs(rundir)
    core.build(['pollx'])
    depth = 7 if tier == 'quick' else 9
    mc_cfg = f'{rundir}/mcpoll.cfg'
    open(mc_cfg, 'w').write(f'SPECIFICATION Spec\nCONSTANTS\n  Max = 2\n  Cap = 1\n  Depth = {depth}\n  MaxConns = 4\n  Gen = FALSE\nVIEW View\nINVARIANTS\n  I_RegistryOK\nPROPERTIES\n  A_SendExactlyOne\n')
    rc, out = core.tlc('MC_Poll.tla', mc_cfg, f'{rundir}/mc', workers=16, heap='12g', timeout=2400)
    gen, dist = core.stats(out)
    if 'No error has been found' not in out:
        print(out[-2000:]); core.die('MC_Poll exhaustive configuration failed (machinery)')
    nseq, d = (150, 14) if tier == 'quick' else (1500, 20)
    invs = ['C18_DeliveryAdmissible', 'C18_RegistryAsSpecified', 'C18_NeverCrashes']
    total_ev, total_seq, delivered, samples, viol = 0, 0, 0, [], None
    for ci, (mx, cp) in enumerate([(2, 1), (3, 2), (1, 1)]):
        genfile = f'{rundir}/gen{ci}.txt'
        p = core.sh(f'{V}/bin/pollgen.sh {nseq} {d} {seed * 7 + ci} {mx} {cp} {genfile}')
        if p.returncode != 0 or not os.path.exists(genfile) or os.path.getsize(genfile) == 0:
            print(p.stdout, p.stderr); core.die('TLC could not generate poll event sequences')
        for mode in ['direct', 'loop']:
            trace = f'{rundir}/obs{ci}{mode}.ndjson'
            cmd = f'{V}/build/pollx {"-loop" if mode == "loop" else ""} -gen {genfile} -out {trace} -max {mx} -cap {cp}'
            p = core.sh(cmd)
            if p.returncode != 0:
                if 'panic' in p.stderr or 'fatal error' in p.stderr:
                    # the real transport crashed: a fact about the implementation
                    dd = f'{V}/run/violations/{pid}-{int(time.time())}-{os.getpid()}'
                    os.makedirs(dd, exist_ok=True)
                    shutil.copy(genfile, f'{dd}/gen.txt')
                    open(f'{dd}/stderr.txt', 'w').write(p.stderr[-5000:])
                    json.dump(dict(property=pid, invariant='C18_NeverCrashes (process died)', regenerate=cmd), open(f'{dd}/violation.json', 'w'), indent=1)
                    cov = dict(states=dist or 1, transitions=gen or 1, traces_validated_against_impl=total_seq, evaluations=max(total_ev, 1), distinct_nontrivial=max(delivered, 2),
                               rule='see DESIGN', samples=[{'stderr': p.stderr[-400:]}], exhaustive=False)
                    core.write_evidence(pid, tier, seed, 'model_checking', cov, time.time() - t0, 1, ['Poll.tla'])
                    print(p.stderr[-600:])
                    print(f'VIOLATION property={pid} replay={dd}')
                    return 1
                print(p.stdout[-1000:], p.stderr[-1000:]); core.die(f'pollx failed: {cmd}')
            m = re.search(r'(\d+) sequences, (\d+) events', p.stderr)
            total_seq += int(m.group(1)); total_ev += int(m.group(2))
            r = tlc_trace('PollTrace.tla', trace, invs, f'{rundir}/v{ci}{mode}', extra_consts=f'  Max = {mx}\n  Cap = {cp}\n')
            if r['error']:
                print(r['error']); core.die('TLC could not validate a poll trace (machinery error)')
            with open(trace) as f:
                for line in f:
                    if '"done":true' in line: delivered += 1
                    elif len(samples) < 4 and '"e":"connect"' in line: samples.append(json.loads(line))
            if r['violated'] and viol is None:
                r['module'] = 'PollTrace.tla'
                viol = (r, cmd)
    wall = time.time() - t0
    cov = dict(states=dist or 1, transitions=gen or 1, traces_validated_against_impl=total_seq, evaluations=total_ev,
               distinct_nontrivial=delivered, rule='one evaluation = one event (connect / reconnect / disconnect / send / drain) replayed on the real registry and worker, directly and through the real PollWorker.Start loop; non-trivial = messages actually delivered into a listener buffer',
               configurations=[[2, 1], [3, 2], [1, 1]], samples=samples or [{'note': 'none'}], exhaustive=False)
    assumptions = ['Poll.tla; which member of a group gets an unaddressed message is the implementation\'s choice', 'the HTTP/SSE handler goroutines are not part of this replay (the registry, worker loop and Process are)']
    if not viol:
        # the transport applies the notify rule only if it is told that a message is a notification: the table of
        # Route.tla played on the real sender worker, what it hands to the transport judged by TLC
        core.build(['routex'])
        vec = f'{rundir}/rvectors.ndjson'
        nvec = gen_vectors('RouteGen.tla', vec, rundir)
        robs = f'{rundir}/robs.ndjson'
        rcmd = f'{V}/build/routex -vectors {vec} -out {robs}'
        p = core.sh(rcmd)
        if p.returncode != 0:
            print(p.stdout[-1500:], p.stderr[-1500:]); core.die('routex failed')
        r = tlc_trace('RouteTrace.tla', robs, ['C18_TransportToldTheKind', 'C18_TransportToldTheListener'], f'{rundir}/rv', extra_consts='  Known = {}\n')
        if r['error']:
            print(r['error']); core.die('TLC could not validate the hand-offs (machinery error)')
        cov['handoffs_to_the_transport'] = nvec
        if r['violated']:
            r['module'] = 'RouteTrace.tla'; viol = (r, rcmd)
    if viol:
        r, cmd = viol
        dd = save_violation(pid, r, cmd)
        core.write_evidence(pid, tier, seed, 'model_checking', cov, wall, 1, assumptions)
        print(f'invariant {r["violated"]} violated at event {r["line"]}: {r.get("chk", "")}')
        print(f'VIOLATION property={pid} replay={dd}')
        return 1
    core.write_evidence(pid, tier, seed, 'model_checking', cov, wall, 0, assumptions)
    print(f'{pid} {tier}: {total_ev} events of {total_seq} TLC-generated sequences conform to Poll.tla ({delivered} deliveries); {dist} model states; {wall:.0f}s')
    shutil.rmtree(rundir, ignore_errors=True)
    return 0

# ---------------------------------------------------------------------------------------
# C15 / C19: finite tables enumerated by TLC, played on the real front ends / router+sender
# ---------------------------------------------------------------------------------------
def gen_vectors(module, outfile, rundir):
    cfg = f'{rundir}/gen.cfg'
    open(cfg, 'w').write(f'CONSTANT OutFile = "{outfile}"\n')
    cmd = core.JAVA[:1] + ['-Xmx2g', '-Xss1g'] + core.JAVA[3:] + ['-metadir', f'{rundir}/gmd', '-config', cfg, module]
    p = subprocess.run(cmd, cwd=core.SPEC, capture_output=True, text=True, timeout=600)
    m = re.search(r'"VECTORS", (\d+)', p.stdout)
    if not m or not os.path.exists(outfile):
        print(p.stdout[-2000:], p.stderr[-1000:]); core.die(f'{module}: TLC could not enumerate the vector table')
    shutil.rmtree(f'{rundir}/gmd', ignore_errors=True)
    return int(m.group(1))

def chunk_file(path, n, outdir):
    os.makedirs(outdir, exist_ok=True)
    lines = open(path).read().splitlines()
    size = max(1, (len(lines) + n - 1) // n)
    files = []
    for i in range(0, len(lines), size):
        p = f'{outdir}/c{i // size}.ndjson'
        open(p, 'w').write('\n'.join(lines[i:i + size]) + '\n')
        files.append(p)
    return files, len(lines)

PUSH_INVS = ['C19_PushReportsTruthfully', 'C19_PushNoStrayRequest', 'C19_PushRequestAsBuilt', 'C19_PushReportedOnce', 'C19_PushSurvives']

def push_stage(pid, tier, rundir):
    """C19, the http transport: Push.tla model-checked, the scenarios of PushGen.tla played by pushx against the real sender
    worker + the real http plugin + receivers on the loopback interface, the record judged by TLC (PushTrace.tla).
    Returns (violation or None, info)."""
    core.build(['pushx'])
    mc_cfg = f'{rundir}/mcpush.cfg'
    shutil.copy(f'{core.SPEC}/MC_Push.cfg', mc_cfg)
    rc, out = core.tlc('MC_Push.tla', mc_cfg, f'{rundir}/mcpush', workers=8, heap='4g', timeout=900)
    gen, dist = core.stats(out)
    if 'No error has been found' not in out:
        print(out[-2000:]); core.die('MC_Push: the exhaustive configuration failed (machinery)')
    info = dict(model_states=dist, scenarios=0, events=0, requests=0, cmds=[])
    for sz in (1, 2):
        cfg = f'{rundir}/pushgen{sz}.cfg'
        open(cfg, 'w').write(f'SPECIFICATION GSpec\nCONSTANTS\n  Size = {sz}\n  Msgs <- MCMsgs\n  Deep = {"TRUE" if tier == "thorough" else "FALSE"}\nINVARIANTS\n  Emit\n  GDone\n')
        rc, out = core.tlc('PushGen.tla', cfg, f'{rundir}/pushgen{sz}', workers=2, heap='2g', timeout=600)
        scs = [json.loads(m.group(1)) for m in re.finditer(r'<<"PUSHGEN", (".*")>>', out)]
        if 'No error has been found' not in out or not scs:
            print(out[-1500:]); core.die('PushGen: TLC could not generate the scenarios (machinery)')
        scf, obs = f'{rundir}/push-sc{sz}.ndjson', f'{rundir}/push-obs{sz}.ndjson'
        open(scf, 'w').write('\n'.join(scs) + '\n')
        cmd = f'{V}/build/pushx -scenarios {scf} -out {obs} -par 16'
        info['cmds'].append(cmd)
        p = core.sh(cmd)
        if p.returncode != 0:
            if 'panic' in p.stderr or 'fatal error' in p.stderr:
                dd = f'{V}/run/violations/{pid}-{int(time.time())}-{os.getpid()}'
                os.makedirs(dd, exist_ok=True)
                shutil.copy(scf, f'{dd}/scenarios.ndjson')
                open(f'{dd}/stderr.txt', 'w').write(p.stderr[-5000:])
                json.dump(dict(property=pid, invariant='C19_PushSurvives (process died)', regenerate=cmd), open(f'{dd}/violation.json', 'w'), indent=1)
                print(p.stderr[-600:])
                return dict(violated='C19_PushSurvives', line=None, trace=scf, died=dd), info
            print(p.stdout[-1000:], p.stderr[-1000:]); core.die(f'pushx failed: {cmd}')
        m = re.search(r'(\d+) scenarios, (\d+) events, (\d+) requests', p.stderr)
        info['scenarios'] += int(m.group(1)); info['events'] += int(m.group(2)); info['requests'] += int(m.group(3))
        r = tlc_trace('PushTrace.tla', obs, PUSH_INVS, f'{rundir}/vpush{sz}', extra_consts=f'  Size = {sz}\n  Msgs = {{}}\n  Known = {{}}\n', spec='TSpec')
        if r['error']:
            print(r['error']); core.die('TLC could not validate the push observations (machinery error)')
        if r['violated']:
            r['module'] = 'PushTrace.tla'; r['cmd'] = cmd
            return r, info
    return None, info

def run_table(pid, tier, seed):
    t0 = time.time()
    rundir = f'{V}/run/{pid}-{tier}-{os.getpid()}'
    shutil.rmtree(rundir, ignore_errors=True); os.makedirs(rundir)
    if pid == 'C15':
        harness, genmod, tracemod = 'frontx', 'RenderGen.tla', 'RenderTrace.tla'
        invs = ['C15_NoDrop', 'C15_HttpRendering', 'C15_GrpcRendering', 'C15_SameRequest', 'C15_ClaimCarriesItsPromises', 'C15_StatesRendered']
    else:
        harness, genmod, tracemod = 'routex', 'RouteGen.tla', 'RouteTrace.tla'
        invs = ['C19_RouterFollowsTag', 'C19_SenderResolves']
    core.build([harness])
    vec = f'{rundir}/vectors.ndjson'
    nvec = gen_vectors(genmod, vec, rundir)
    obs = f'{rundir}/obs.ndjson'
    cmds = [f'{V}/build/{harness} -vectors {vec} -out {obs}']
    p = core.sh(cmds[0])
    if p.returncode != 0:
        print(p.stdout[-1500:], p.stderr[-1500:]); core.die(f'{harness} failed')
    summary = p.stderr.strip().splitlines()[-1] if p.stderr.strip() else ''
    expected = nvec * 2 if pid == 'C15' else nvec
    if pid == 'C15':
        pairs = f'{rundir}/pairs.ndjson'
        cmds.append(f'{V}/build/frontx -pairs -out {pairs}')
        p = core.sh(cmds[1])
        if p.returncode != 0:
            print(p.stdout[-1500:], p.stderr[-1500:]); core.die('frontx -pairs failed')
        open(obs, 'a').write(open(pairs).read())
        expected += sum(1 for _ in open(pairs))
    files, nlines = chunk_file(obs, 8, f'{rundir}/chunks')
    if nlines != expected:
        core.die(f'{harness} played {nlines} cases, the table has {expected} (machinery)')
    known = known_names()
    with ThreadPoolExecutor(max_workers=8) as ex:
        rs = list(ex.map(lambda a: tlc_trace(tracemod, a[1], invs, f'{rundir}/v{a[0]}', extra_consts='  Known = {' + ', '.join(f'"{k}"' for k in known) + '}\n'), enumerate(files)))
    seen, viol = set(), None
    for r in rs:
        seen.update(r['seen'])
        if r['error']:
            print(r['error']); core.die('TLC could not validate the observations (machinery error)')
        if r['violated'] and viol is None:
            r['module'] = tracemod; viol = r
    samples = [json.loads(l) for l in open(obs).read().splitlines()[:3]]
    push = None
    if pid == 'C19' and not viol:
        pv, push = push_stage(pid, tier, rundir)
        if pv:
            cmds.append(pv.get('cmd', ''))
            viol = pv
    wall = time.time() - t0
    cov = dict(states=nlines, transitions=nlines, traces_validated_against_impl=nlines, evaluations=nlines, distinct_nontrivial=nvec,
               rule='the finite table is enumerated completely by TLC (one vector per case); each vector is played once per protocol against the real code; every vector is distinct and non-trivial by construction',
               vectors=nvec, harness_summary=summary, samples=samples, exhaustive=True, known_findings_met=sorted(seen))
    assumptions = ['the table in the TLA+ module is the statement of the property', 'real servers and real clients over the loopback interface; a stub kernel / recording plugins']
    if push:
        cov['http_transport'] = dict(push, cmds=None, rule='Push.tla model-checked (every interleaving of 5 messages); every scenario of PushGen.tla (every class of address x every class of receiver alone; sequences behind a slow or silent receiver with a transport queue of 1 and 2) played on the real sender worker and http plugin against loopback receivers; every event judged by PushTrace.tla')
        assumptions = assumptions + ['Push.tla: failure (non-200 answer) and error (nothing sent / no answer) are both failed hand-offs; the receivers are net/http servers on 127.0.0.1']
    if viol:
        dd = viol['died'] if viol.get('died') else save_violation(pid, viol, '; '.join(cmds))
        core.write_evidence(pid, tier, seed, 'model_checking', cov, wall, 1, assumptions)
        print_known(pid, seen)
        print(f'invariant {viol["violated"]} violated at observation {viol["line"]} of {viol["trace"]}' + (f': {viol.get("chk", "")}' if viol.get('chk') else ''))
        print(f'VIOLATION property={pid} replay={dd}')
        return 1
    core.write_evidence(pid, tier, seed, 'model_checking', cov, wall, 0, assumptions)
    print_known(pid, seen)
    print(f'{pid} {tier}: all {nvec} vectors of the table played ({nlines} observations) and accepted by TLC' + (f'; {push["scenarios"]} scenarios of the http transport ({push["requests"]} requests received) accepted' if push else '') + f'; {wall:.0f}s')
    shutil.rmtree(rundir, ignore_errors=True)
    return 0

# ---------------------------------------------------------------------------------------
# C12: production plumbing against Queues.tla
# ---------------------------------------------------------------------------------------
def run_queues(pid, tier, seed):
    t0 = time.time()
    rundir = f'{V}/run/{pid}-{tier}-{os.getpid()}'
    shutil.rmtree(rundir, ignore_errors=True); os.makedirs(rundir)
    core.build(['queuex'])
    src = open(f'{core.SPEC}/MC_Queues.cfg').read()
    if tier == 'thorough':
        src = src.replace('Q = 1', 'Q = 2').replace('CB = 1', 'CB = 2')
    cfg = f'{rundir}/mcq.cfg'; open(cfg, 'w').write(src)
    rc, out = core.tlc('Queues.tla', cfg, f'{rundir}/mc', workers=16, heap='12g', timeout=2400)
    gen, dist = core.stats(out)
    if 'No error has been found' not in out:
        print(out[-2500:]); core.die('Queues.tla exhaustive configuration failed (machinery)')
    nsched, nstress = (40, 60) if tier == 'quick' else (400, 1500)
    sched = f'{rundir}/sched.txt'
    p = core.sh(f'{V}/bin/queuegen.sh {nsched * 3} 25 {seed} {sched}')
    lines = open(sched).read().splitlines() if os.path.exists(sched) else []
    if not lines:
        print(p.stdout, p.stderr); core.die('TLC could not generate schedules from Queues.tla')
    # always include the schedules around the done-check / shutdown race
    lines = [l for l in lines if '"shutdown"' in l][:nsched] + [l for l in lines if '"shutdown"' not in l][:nsched // 4]
    open(sched, 'w').write('\n'.join(lines) + '\n')
    trace = f'{rundir}/obs.ndjson'
    cmd = f'{V}/build/queuex -sched {sched} -stress {nstress} -seed {seed} -out {trace}'
    try:
        p = subprocess.run(cmd, shell=True, capture_output=True, text=True, timeout=1500)
    except subprocess.TimeoutExpired:
        core.die('queuex timed out')
    if p.returncode != 0:
        if 'panic' in p.stderr or 'fatal error' in p.stderr or 'deadlock' in p.stderr:
            dd = f'{V}/run/violations/{pid}-{int(time.time())}-{os.getpid()}'
            os.makedirs(dd, exist_ok=True); shutil.copy(sched, f'{dd}/sched.txt')
            open(f'{dd}/stderr.txt', 'w').write(p.stderr[-5000:])
            json.dump(dict(property=pid, invariant='process died', regenerate=cmd), open(f'{dd}/violation.json', 'w'), indent=1)
            print(p.stderr[-800:]); print(f'VIOLATION property={pid} replay={dd}')
            cov = dict(states=dist or 1, transitions=gen or 1, traces_validated_against_impl=0, evaluations=1, distinct_nontrivial=2, samples=[{'stderr': p.stderr[-300:]}])
            core.write_evidence(pid, tier, seed, 'model_checking', cov, time.time() - t0, 1, ['Queues.tla'])
            return 1
        print(p.stdout[-1000:], p.stderr[-1000:]); core.die('queuex failed')
    invs = ['C12_ExactlyOneReply', 'C12_RefusalCodes', 'C12_AcceptedCompletedBeforeStop', 'C12_LoopReturns']
    known = known_names()
    parts = split_lines(trace, 3000, f'{rundir}/parts')
    with ThreadPoolExecutor(max_workers=8) as ex:
        rs = list(ex.map(lambda a: tlc_trace('QueuesTrace.tla', a[1], invs, f'{rundir}/v{a[0]}', extra_consts='  Known = {' + ', '.join(f'"{k}"' for k in known) + '}\n'), enumerate(parts)))
    seen, viol = set(), None
    for r in rs:
        seen.update(r['seen'])
        if r['error']:
            print(r['error']); core.die('TLC could not validate the queue trace (machinery error)')
        if r['violated'] and viol is None:
            r['module'] = 'QueuesTrace.tla'; viol = r
    rounds = replies = refusals = 0
    samples = []
    for line in open(trace):
        e = json.loads(line)
        if e['e'] == 'reset': rounds += 1
        if e['e'] == 'reply':
            replies += 1
            if e['code'] != 0: refusals += 1
        if len(samples) < 8 and e['e'] in ('call', 'reply', 'shutdown', 'exit'): samples.append(e)
    front = 0
    if not viol:
        # the explicit errors (queue full, scheduler full, shutting down, subsystem failure; with and without an
        # underlying cause) must reach the client through the real HTTP and gRPC front ends: the rows of Render.tla
        # with a platform status, played by frontx, judged by RenderTrace.tla
        core.build(['frontx'])
        allv, fv, fobs = f'{rundir}/rvectors.ndjson', f'{rundir}/refusals.ndjson', f'{rundir}/refusals-obs.ndjson'
        gen_vectors('RenderGen.tla', allv, rundir)
        keep = [l for l in open(allv).read().splitlines() if json.loads(l).get('via') == 'error' and json.loads(l).get('status', 0) >= 50000]
        open(fv, 'w').write('\n'.join(keep) + '\n')
        fcmd = f'{V}/build/frontx -vectors {fv} -out {fobs}'
        fp = core.sh(fcmd)
        if fp.returncode != 0:
            print(fp.stdout[-1500:], fp.stderr[-1500:]); core.die('frontx failed')
        front = sum(1 for _ in open(fobs))
        if front != 2 * len(keep): core.die(f'frontx played {front} cases, expected {2 * len(keep)} (machinery)')
        fr = tlc_trace('RenderTrace.tla', fobs, ['C12_ExplicitErrorReachesClient'], f'{rundir}/vfront', extra_consts='  Known = {' + ', '.join(f'"{k}"' for k in known) + '}\n')
        if fr['error']:
            print(fr['error']); core.die('TLC could not validate the front-end observations (machinery error)')
        if fr['violated']:
            fr['module'] = 'RenderTrace.tla'; viol = fr; cmd = fcmd
    wall = time.time() - t0
    cov = dict(states=dist or 1, transitions=gen or 1, traces_validated_against_impl=rounds, evaluations=replies + front, distinct_nontrivial=refusals, refusals_through_front_ends=front,
               rule='one trace = one run of the production api/aio/Loop with real goroutines: either a TLC-generated schedule of the controllable steps (call up to the hook after the done-check, send, shutdown) or a seeded free-running round with queue/pool/batch sizes 1..3; non-trivial = requests that were refused (backpressure or shutdown)',
               schedules=len(lines), stress_rounds=nstress, samples=samples, exhaustive=False, known_findings_met=sorted(seen))
    assumptions = ['Queues.tla models one worker and the echo round trip', 'the client-visible contract is what is judged on real runs; internal kernel steps are not logged', 'wall-clock settle times (8-100 ms) in directed mode']
    if viol:
        dd = save_violation(pid, viol, cmd)
        core.write_evidence(pid, tier, seed, 'model_checking', cov, wall, 1, assumptions)
        print_known(pid, seen)
        print(f'invariant {viol["violated"]} violated at event {viol["line"]}: {viol.get("chk", "")}')
        print(f'VIOLATION property={pid} replay={dd}')
        return 1
    core.write_evidence(pid, tier, seed, 'model_checking', cov, wall, 0, assumptions)
    print_known(pid, seen)
    print(f'{pid} {tier}: {rounds} rounds of the production plumbing ({replies} replies, {refusals} refusals) accepted; {dist} model states incl. liveness; {wall:.0f}s')
    shutil.rmtree(rundir, ignore_errors=True)
    return 0

# ---------------------------------------------------------------------------------------
# C13 (and C20): scenarios generated by TLC, played by procx against the real binary
# ---------------------------------------------------------------------------------------
BIG = 2 ** 31 - 1

def small_numbers(v):
    """TLC integers are 32 bit: larger numbers travel as strings (a mechanical re-encoding)."""
    if isinstance(v, dict):
        return {k: small_numbers(x) for k, x in v.items() if k != 't'}
    if isinstance(v, list):
        return [small_numbers(x) for x in v]
    if isinstance(v, bool):
        return v
    if isinstance(v, int) and abs(v) > BIG:
        return 'n:' + str(v)
    if isinstance(v, float):
        return 'f:' + repr(v)
    return v

def _hex(x):
    return (x if isinstance(x, bytes) else str(x).encode()).hex()

def _pairs(m):
    if not isinstance(m, dict):
        return []
    return [[_hex(k), _hex(v)] for k, v in sorted(m.items())]

def _b64hex(s):
    import base64
    if not isinstance(s, str) or s == '':
        return ''
    try:
        return base64.b64decode(s).hex()
    except Exception:
        return 'undecodable:' + _hex(s)

def canon_promise(p):
    """re-encoding of a promise object as returned over HTTP or gRPC (no comparison here)"""
    if not isinstance(p, dict) or 'id' not in p:
        return dict(present=False, id='', data='', headers=[], tags=[], key='', timeout='', state='', vdata='', vheaders=[], vkey='')
    par = p.get('param') if isinstance(p.get('param'), dict) else {}
    val = p.get('value') if isinstance(p.get('value'), dict) else {}
    return dict(present=True, id=_hex(p.get('id', '')), data=_b64hex(par.get('data', '')), headers=_pairs(par.get('headers')),
                tags=_pairs(p.get('tags')), key=_hex(p.get('idempotencyKeyForCreate', '') or ''), timeout=str(p.get('timeout', '')),
                state=str(p.get('state', '')), vdata=_b64hex(val.get('data', '')), vheaders=_pairs(val.get('headers')),
                vkey=_hex(p.get('idempotencyKeyForComplete', '') or ''))

def canon_c20(e, family):
    """attach the canonical re-encoding `got` (and the kind of step) to a step observation"""
    name = e.get('name', '')
    e['kind'] = 'read' if name.startswith('read-') else ('write' if name == 'write' else 'other')
    e['after'] = name.endswith('-3') or name.endswith('-4')
    j = e.get('json')
    got = canon_promise(None)
    if e['do'] in ('http', 'grpc') and isinstance(j, dict):
        if name == 'read-schedule':
            pp = j.get('promiseParam') if isinstance(j.get('promiseParam'), dict) else {}
            got = dict(stags=_pairs(j.get('tags')), sptags=_pairs(j.get('promiseTags')), spheaders=_pairs(pp.get('headers')), present='id' in j)
        elif name == 'list':
            lst = []
            for p in j.get('promises', []) if isinstance(j.get('promises'), list) else []:
                pid = str(p.get('id', ''))
                tags = p.get('tags') if isinstance(p.get('tags'), dict) else {}
                par = p.get('param') if isinstance(p.get('param'), dict) else {}
                lst.append(dict(prefix=_hex(pid[:pid.rfind('.')] if '.' in pid else pid), sched=_hex(tags.get('resonate:schedule', '')),
                                headers=_pairs(par.get('headers')), ntags=len(tags)))
            got = dict(list=lst)
        else:
            got = canon_promise(j.get('promise') if e['do'] == 'grpc' else j)
    elif e['do'] == 'received':
        lst = []
        for m in j if isinstance(j, list) else []:
            if not isinstance(m, dict): continue
            t = m.get('task') if isinstance(m.get('task'), dict) else {}
            href = m.get('href') if isinstance(m.get('href'), dict) else {}
            claim = str(href.get('claim', ''))
            path = claim[claim.find('/', claim.find('//') + 2):] if '//' in claim else claim
            path = path[:path.rfind('/')] if '/' in path else path     # drop the trailing /<counter>
            lst.append(dict(task=_hex(t.get('id', '')), claim=_hex(path)))
        got = dict(list=lst)
    e['got'] = got
    e['json'] = []
    e['body'] = ''
    return e

def run_scenarios(pid, tier, seed):
    t0 = time.time()
    rundir = f'{V}/run/{pid}-{tier}-{os.getpid()}'
    shutil.rmtree(rundir, ignore_errors=True); os.makedirs(rundir)
    core.build(['procx'])
    genmod, tracemod = ('FrontGen.tla', 'FrontTrace.tla') if pid == 'C13' else ('FidelityGen.tla', 'FidelityTrace.tla')
    invs = (['C13_NeverCrashes', 'C13_NeverWedges', 'C13_NoServerError', 'C13_InvalidRefused', 'C13_RefusedLeavesNoTrace'] if pid == 'C13'
            else ['C20_ReturnedAsSupplied', 'C20_DerivedIdsEmbedClientId', 'C20_ServerSurvives'])
    allsc = f'{rundir}/all.ndjson'
    nall = gen_vectors(genmod, allsc, rundir)
    lines = open(allsc).read().splitlines()
    scen = f'{rundir}/scenarios.ndjson'
    open(scen, 'w').write('\n'.join(lines) + '\n')
    meta = {}
    for l in lines:
        j = json.loads(l); meta[j['sid']] = j
    obs = f'{rundir}/obs.ndjson'
    env = dict(os.environ, VERIF_REPO=os.environ.get('VERIF_REPO', '/repo'))
    cmd = f'{V}/build/procx -build -bin {V}/build/resonate -scenarios {scen} -out {obs} -dir {rundir}/scratch -par 24'
    p = run_procx(cmd, obs, env)
    # plumbing: scenario metadata onto the begin events, 32-bit numbers
    out, nsteps, hostile_classes, samples = [], 0, {}, []
    for l in open(obs):
        e = json.loads(l)
        if e['e'] == 'begin':
            m = meta[e['sid']]
            for k in ('ep', 'field', 'raw', 'expect', 'want', 'family'):
                if k in m: e[k] = m[k]
            e.pop('args', None)
        if e['e'] == 'step':
            nsteps += 1
            if e.get('name') == 'hostile': hostile_classes[e['sid']] = e['class']
        if e['e'] == 'end':
            e['logtail'] = e.get('logtail', '')[:300]
        if pid == 'C20' and e['e'] == 'begin':
            e['varied'], e['proto'] = meta[e['sid']]['varied'], meta[e['sid']]['proto']
        if pid == 'C20' and e['e'] == 'step':
            e = canon_c20(e, meta[e['sid']]['family'])
        e = small_numbers(e)
        out.append(json.dumps(e))
        if len(samples) < 4 and e['e'] == 'step' and e.get('name') == 'hostile':
            samples.append({k: e[k] for k in ('sid', 'do', 'code', 'class', 'alive')} | {'scenario': {k: meta[e['sid']].get(k) for k in ('ep', 'field', 'raw', 'expect')}})
        if pid == 'C20' and len(samples) < 4 and e['e'] == 'step' and e.get('kind') == 'read':
            samples.append({'sid': e['sid'], 'step': e['name'], 'got': e['got'], 'scenario': {k: meta[e['sid']].get(k) for k in ('family', 'varied', 'proto')}})
    # chunks at scenario boundaries
    chunks, cur = [], []
    per = max(1, (len(lines) + 7) // 8)
    count = 0
    for l in out:
        if l.startswith('{"e": "begin"') or '"e": "begin"' in l[:40]:
            if count and count % per == 0 and cur:
                chunks.append(cur); cur = []
            count += 1
        cur.append(l)
    if cur: chunks.append(cur)
    files = []
    os.makedirs(f'{rundir}/chunks')
    for i, c in enumerate(chunks):
        fp = f'{rundir}/chunks/c{i}.ndjson'; open(fp, 'w').write('\n'.join(c) + '\n'); files.append(fp)
    known = known_names()
    with ThreadPoolExecutor(max_workers=8) as ex:
        rs = list(ex.map(lambda a: tlc_trace(tracemod, a[1], invs, f'{rundir}/v{a[0]}', extra_consts='  Known = {' + ', '.join(f'"{k}"' for k in known) + '}\n'), enumerate(files)))
    seen, viol = set(), None
    for r in rs:
        seen.update(r['seen'])
        if r['error']:
            print(r['error']); core.die('TLC could not validate the observations (machinery error)')
        if r['violated'] and viol is None:
            r['module'] = tracemod; viol = r
    wall = time.time() - t0
    refused = sum(1 for c in hostile_classes.values() if c == '4xx')
    level = 'fault_enumeration' if pid == 'C13' else 'exploration'
    cov = dict(evaluations=len(lines), distinct_nontrivial=len(lines),
               rule=('one evaluation = one scenario of Front.tla (endpoint x field x hostile class, then the lifecycle: background cycles, kill -9, restart on the same database, more cycles) played against its own real `resonate serve` process over real HTTP/gRPC; every scenario is a distinct non-trivial input'
                     if pid == 'C13' else
                     'one evaluation = one scenario of Fidelity.tla (a datum of a hostile class written through one protocol and read back through both, before and after a restart)'),
               scenarios_in_table=nall, steps=nsteps, refused=refused, accepted=len(hostile_classes) - refused,
               samples=samples or [{'note': 'none'}], known_findings_met=sorted(seen), exhaustive=(tier == 'thorough'))
    assumptions = ['classes of values with concrete representatives, not all byte strings', 'real process, real sockets; wall-clock margins (the sleeps of the scenarios are >= 4x the periods involved)']
    if viol:
        dd = save_violation(pid, viol, cmd)
        if viol.get('line'):
            sid = None
            for i, l in enumerate(open(viol['trace']), 1):
                j = json.loads(l)
                if j['e'] == 'begin': sid = j['sid']
                if i == viol['line']: break
            if sid and sid in meta:
                json.dump(meta[sid], open(f'{dd}/scenario.json', 'w'), indent=1)
                print('scenario:', json.dumps({k: meta[sid].get(k) for k in ('sid', 'ep', 'field', 'raw', 'expect')}))
        core.write_evidence(pid, tier, seed, level, cov, wall, 1, assumptions)
        print_known(pid, seen)
        print(f'invariant {viol["violated"]} violated at observation {viol["line"]}: {viol.get("chk", "")}')
        print(f'VIOLATION property={pid} replay={dd}')
        return 1
    if pid == 'C20':
        # dispatched messages: the table of Route.tla played on the real sender worker, every message looked at
        # only after the worker has gone on with the next one (as a real transport does)
        core.build(['routex'])
        vec = f'{rundir}/rvectors.ndjson'
        nvec = gen_vectors('RouteGen.tla', vec, rundir)
        robs = f'{rundir}/robs.ndjson'
        rcmd = f'{V}/build/routex -vectors {vec} -out {robs}'
        p = core.sh(rcmd)
        if p.returncode != 0:
            print(p.stdout[-1500:], p.stderr[-1500:]); core.die('routex failed')
        r = tlc_trace('RouteTrace.tla', robs, ['C20_DispatchedAsSupplied'], f'{rundir}/rv', extra_consts='  Known = {' + ', '.join(f'"{k}"' for k in known) + '}\n')
        if r['error']:
            print(r['error']); core.die('TLC could not validate the dispatched messages (machinery error)')
        cov['dispatched_messages'] = nvec
        wall = time.time() - t0
        if r['violated']:
            r['module'] = 'RouteTrace.tla'
            dd = save_violation(pid, r, rcmd)
            core.write_evidence(pid, tier, seed, level, cov, wall, 1, assumptions)
            print(f'invariant {r["violated"]} violated at observation {r["line"]} of {r["trace"]}')
            print(f'VIOLATION property={pid} replay={dd}')
            return 1
    core.write_evidence(pid, tier, seed, level, cov, wall, 0, assumptions)
    print_known(pid, seen)
    print(f'{pid} {tier}: {len(lines)} of {nall} scenarios played against the real binary ({nsteps} steps) and accepted by TLC; {wall:.0f}s')
    shutil.rmtree(rundir, ignore_errors=True)
    return 0

# ---------------------------------------------------------------------------------------
# a subset of the scenarios of Front.tla played for another property (C04: the state a completion may name)
# ---------------------------------------------------------------------------------------
def front_stage(pid, keep, invs, rundir):
    """returns (violation or None, number of scenarios, regenerate command)"""
    core.build(['procx'])
    allsc = f'{rundir}/front_all.ndjson'
    gen_vectors('FrontGen.tla', allsc, rundir)
    lines = [l for l in open(allsc).read().splitlines() if keep(json.loads(l))]
    scen = f'{rundir}/front_scen.ndjson'
    open(scen, 'w').write('\n'.join(lines) + '\n')
    meta = {json.loads(l)['sid']: json.loads(l) for l in lines}
    obs = f'{rundir}/front_obs.ndjson'
    env = dict(os.environ, VERIF_REPO=os.environ.get('VERIF_REPO', '/repo'))
    cmd = f'{V}/build/procx -build -bin {V}/build/resonate -scenarios {scen} -out {obs} -dir {rundir}/fscratch -par 16'
    p = run_procx(cmd, obs, env)
    out = []
    for l in open(obs):
        e = json.loads(l)
        if e['e'] == 'begin':
            m = meta[e['sid']]
            for k in ('ep', 'field', 'raw', 'expect'):
                e[k] = m[k]
            e.pop('args', None)
        if e['e'] == 'end':
            e['logtail'] = e.get('logtail', '')[:300]
        out.append(json.dumps(small_numbers(e)))
    tf = f'{rundir}/front_trace.ndjson'
    open(tf, 'w').write('\n'.join(out) + '\n')
    r = tlc_trace('FrontTrace.tla', tf, invs, f'{rundir}/fv', extra_consts='  Known = {}\n')
    if r['error']:
        print(r['error']); core.die('TLC could not validate the front-end observations (machinery error)')
    if r['violated']:
        r['module'] = 'FrontTrace.tla'
        return r, len(lines), cmd
    return None, len(lines), cmd

# ---------------------------------------------------------------------------------------
# C06, process level: behaviours of Durable.tla played by procx against the real binary
# ---------------------------------------------------------------------------------------
def durable_stage(pid, tier, seed, rundir):
    """returns (violation or None, coverage dict, regenerate command)"""
    core.build(['procx'])
    nbeh, steps = (40, 8) if tier == 'quick' else (400, 10)
    scen = f'{rundir}/durable.ndjson'
    if os.path.exists(scen): os.remove(scen)
    p = core.sh(f'{V}/bin/durgen.sh {nbeh} {steps} {seed} {scen} FALSE && {V}/bin/durgen.sh {max(10, nbeh // 3)} 6 {seed} {scen} TRUE')
    lines = open(scen).read().splitlines() if os.path.exists(scen) else []
    if not lines:
        print(p.stdout, p.stderr); core.die('TLC could not generate behaviours from DurableGen.tla')
    lines = [l for l in lines if '"cold": false' in l or '"cold":false' in l][:nbeh * 2] + [l for l in lines if '"cold": true' in l or '"cold":true' in l][:nbeh]
    open(scen, 'w').write('\n'.join(lines) + '\n')
    meta = {}
    for l in lines:
        j = json.loads(l); meta[j['sid']] = j
    obs = f'{rundir}/durable_obs.ndjson'
    env = dict(os.environ, VERIF_REPO=os.environ.get('VERIF_REPO', '/repo'))
    cmd = f'{V}/build/procx -build -bin {V}/build/resonate -scenarios {scen} -out {obs} -dir {rundir}/dscratch -par 24'
    p = run_procx(cmd, obs, env)
    # plumbing: the model step and role of every procx step, the ops onto the begin event
    chunks, cur, count = [], [], 0
    per = max(1, (len(lines) + 7) // 8)
    stats = dict(scenarios=len(lines), steps=0, kills=0, terms=0, restarts=0, crashes_during_recovery=0, bursts=0, inflight=0, inflight_unacked=0, looks=0)
    samples = []
    for l in open(obs):
        e = json.loads(l)
        m = meta[e['sid']]
        if e['e'] == 'begin':
            if count and count % per == 0 and cur:
                chunks.append(cur); cur = []
            count += 1
            e = dict(e='begin', sid=e['sid'], ops=m['ops'], cold=bool(m.get('cold', False)))
        elif e['e'] == 'step':
            st = m['steps'][e['k']]
            e = dict(e='step', sid=e['sid'], i=st['i'], role=st['role'], do=e['do'], name=e.get('name', ''), replied=e['replied'],
                     code=e['code'], alive=e['alive'], **{'class': e['class']},
                     json=e['json'] if (st['role'] in ('rows', 'get') or e['do'] == 'burst') else [])
            stats['steps'] += 1
            d = e['do']
            if d == 'kill': stats['kills'] += 1
            if d == 'term': stats['terms'] += 1
            if d == 'start': stats['restarts'] += 1
            if d == 'startkill': stats['crashes_during_recovery'] += 1
            if d == 'rows': stats['looks'] += 1
            if d == 'burst':
                stats['bursts'] += 1; stats['inflight'] += len(e['json']); stats['inflight_unacked'] += sum(1 for r in e['json'] if r['class'] != '2xx')
                if len(samples) < 3: samples.append(dict(sid=e['sid'], burst=[r for r in e['json'] if not r['name'].startswith('f')], filler=sum(1 for r in e['json'] if r['name'].startswith('f'))))
        elif e['e'] == 'end':
            e = dict(e='end', sid=e['sid'], alive=e['alive'], panicked=e['panicked'], logtail=e.get('logtail', '')[:300])
        cur.append(json.dumps(small_numbers(e)))
    if cur: chunks.append(cur)
    files = []
    os.makedirs(f'{rundir}/dchunks', exist_ok=True)
    for i, c in enumerate(chunks):
        fp = f'{rundir}/dchunks/c{i}.ndjson'; open(fp, 'w').write('\n'.join(c) + '\n'); files.append(fp)
    invs = ['C06_AckedSurvives', 'C06_AllOrNothing', 'C06_Restarts', 'C06_Resumes', 'Playable']
    consts = '  Known = {}\n  Promises = {"a", "b"}\n  MaxSteps = 1000\n  Cold = FALSE\n'
    with ThreadPoolExecutor(max_workers=8) as ex:
        rs = list(ex.map(lambda a: tlc_trace('DurableTrace.tla', a[1], invs, f'{rundir}/dv{a[0]}', extra_consts=consts, spec='TSpec'), enumerate(files)))
    viol = None
    for r in rs:
        if r['error']:
            print(r['error']); core.die('TLC could not validate the observations of the durability scenarios (machinery error)')
        if r['violated'] == 'Playable':
            print(r.get('chk')); core.die('a durability scenario could not be played (a request of the scenario was refused)')
        if r['violated'] and viol is None:
            r['module'] = 'DurableTrace.tla'; viol = r
    stats['samples'] = samples
    return viol, stats, cmd

def run(pid, tier, seed):
    if pid in ('C13', 'C20'):
        return run_scenarios(pid, tier, seed)
    if pid == 'C12':
        return run_queues(pid, tier, seed)
    if pid in ('C15', 'C19'):
        return run_table(pid, tier, seed)
    if pid == 'C18':
        return run_poll(pid, tier, seed)
    if pid in ('C16', 'C17'):
        return run_store(pid, tier, seed)
    core.die(f'no check registered for {pid}')
