#!/bin/bash
# run an exhaustive TLC configuration: mc.sh <module> <cfg> [extra tlc args]
M=$1; C=$2; shift 2
D=$(mktemp -d ${VERIF_HOME:-/verif}/run/mc.XXXX)
cd ${VERIF_HOME:-/verif}/spec && timeout ${MC_TIMEOUT:-3000} java -Xmx${MC_HEAP:-20g} -Xss512m -Djava.io.tmpdir=$D -XX:+UseParallelGC -cp /opt/veriftools/tla/tla2tools.jar:/opt/veriftools/tla/CommunityModules-deps.jar tlc2.TLC -noGenerateSpecTE -deadlock -workers ${MC_WORKERS:-16} -metadir $D/md -config $C "$@" $M > $D/out.txt 2>&1
rc=$?
grep -E "^Error|is violated|states generated|depth of the complete|Finished in|No error" $D/out.txt | head -20
echo "(rc=$rc output in $D/out.txt)"
rm -rf $D/md
