#!/bin/bash
# durgen.sh <num> <steps> <seed> <outfile> [cold]: TLC simulation of DurableGen.tla -> one scenario (JSON) per line
# (cold = TRUE: the behaviours begin before the server has ever been started)
V=${VERIF_HOME:-/verif}
OUT=$(cd "$(dirname "$4")" && pwd)/$(basename "$4")
D=$(mktemp -d $V/run/dgen.XXXX)
printf 'SPECIFICATION GenSpec\nCONSTANTS\n  Promises = {"a", "b"}\n  MaxSteps = %s\n  Cold = %s\nINVARIANTS\n  Emit\n  TypeOK\n' "$2" "${5:-FALSE}" > $D/gen.cfg
cd $V/spec && timeout 900 java -Xmx4g -Xss512m -Djava.io.tmpdir=$D -cp /opt/veriftools/tla/tla2tools.jar:/opt/veriftools/tla/CommunityModules-deps.jar tlc2.TLC -noGenerateSpecTE -deadlock -workers 1 -simulate num=$1 -depth $(( $2 + 1 )) -seed $3 -metadir $D/md -config $D/gen.cfg DurableGen.tla > $D/out.txt 2>&1
if grep -q "^Error" $D/out.txt; then grep -A5 "^Error" $D/out.txt | head -20 >&2; exit 2; fi
grep DURGEN $D/out.txt | SEED=$3 PFX=$([ "${5:-FALSE}" = TRUE ] && echo c || echo d) python3 -c "
import sys,re,json,os,random
rnd=random.Random(int(os.environ['SEED']))
groups={}
for l in sys.stdin:
    m=re.match(r'<<\"DURGEN\", (\".*\")>>',l.strip())
    if not m: continue
    doc=json.loads(json.loads(m.group(1)))
    # TLC prints every successor of the last state of a behaviour: keep one per behaviour prefix
    key=json.dumps([o for o in doc['ops'] if o['op']!='look'][:-5])
    groups.setdefault(key,[]).append(doc)
k=0
for key,docs in groups.items():
    k+=1
    d=rnd.choice(docs); d['sid']=os.environ.get('PFX','d')+'%d'%k; d['args']=[]
    print(json.dumps(d))
" >> "$OUT"
rm -rf $D
