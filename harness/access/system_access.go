//go:build verif

package system

import "reflect"

// VerifDropBackground forgets the registered background coroutines: instances that are
// running go on, no new one is started (scripted schedules start every sweep themselves).
func (s *System) VerifDropBackground() { s.background = nil }

// VerifBg is what can be seen of one registered background coroutine.
type VerifBg struct {
	Name    string
	Last    int64   // the instant of its last start (0: never)
	Running bool    // an instance is started and not finished
	Inst    uintptr // identity of that instance (0: none yet)
}

// VerifBackground reports the registered background coroutines in registration order.
func (s *System) VerifBackground() []VerifBg {
	out := []VerifBg{}
	for _, bg := range s.background {
		b := VerifBg{Name: bg.name, Last: bg.last}
		if bg.promise != nil {
			b.Running = !bg.promise.Completed()
			b.Inst = reflect.ValueOf(bg.promise).Pointer()
		}
		out = append(out, b)
	}
	return out
}
