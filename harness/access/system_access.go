//go:build verif

package system

// VerifDropBackground forgets the registered background coroutines: instances that are
// running go on, no new one is started (scripted schedules start every sweep themselves).
func (s *System) VerifDropBackground() { s.background = nil }
