//go:build verif

package sender

// VerifWorker exposes the sender worker so that the verification harness can run
// Process / AddPlugin under its own scheduler. Overlaid at build time; not part of the repo.
func (s *Sender) VerifWorker() *SenderWorker { return s.worker }
