//go:build verif

package sqlite

import "database/sql"

// VerifDB exposes the connection handle (the harness closes it to simulate process death).
func (s *SqliteStore) VerifDB() *sql.DB { return s.db }

// VerifWorker exposes the store worker (Execute is the unit storex drives).
func (s *SqliteStore) VerifWorker() *SqliteStoreWorker { return s.worker }
