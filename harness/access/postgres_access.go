//go:build verif

package postgres

import (
	"database/sql"
	"time"
)

// VerifNewWorker builds a Postgres store worker over an injected connection pool (the
// verification harness passes a pool of the dialect-emulating driver).
func VerifNewWorker(db *sql.DB, txTimeout time.Duration) *PostgresStoreWorker {
	return &PostgresStoreWorker{config: &Config{TxTimeout: txTimeout, Workers: 1}, db: db}
}
