//go:build verif

package poll

import (
	"github.com/prometheus/client_golang/prometheus"
	"github.com/resonatehq/resonate/internal/aio"
	"github.com/resonatehq/resonate/internal/metrics"
)

// Accessors for the verification harness (overlaid at build time, not part of the repo):
// the registry and the worker's Process are driven event by event.

type VerifConn struct{ c *connection }

func VerifNewConn(group, id string, buf int) *VerifConn {
	return &VerifConn{c: &connection{group: group, id: id, ch: make(chan []byte, buf)}}
}
func (v *VerifConn) Len() int { return len(v.c.ch) }

// TryRecv: non-blocking receive: (data, got, closed)
func (v *VerifConn) TryRecv() ([]byte, bool, bool) {
	select {
	case d, ok := <-v.c.ch:
		if !ok {
			return nil, false, true
		}
		return d, true, false
	default:
		return nil, false, false
	}
}

type VerifReg struct{ w *PollWorker }

func VerifNewWorker(max int) *VerifReg {
	m := metrics.New(prometheus.NewRegistry())
	counter := m.AioConnection.WithLabelValues("verif")
	return &VerifReg{w: &PollWorker{metrics: m, counter: counter, connections: connections{max: max, cnt: counter, conns: map[string][]*connection{}}}}
}
func (r *VerifReg) Add(c *VerifConn)         { r.w.connections.add(c.c) }
func (r *VerifReg) Rmv(c *VerifConn)         { r.w.connections.rmv(c.c, true) }
func (r *VerifReg) Process(m *aio.Message)   { r.w.Process(m) }
func (r *VerifReg) Len() int                 { return r.w.connections.len }

// Snapshot: per group, the registered connections in order, as indices into all
func (r *VerifReg) Snapshot(all []*VerifConn) map[string][][2]any {
	out := map[string][][2]any{}
	for g, cs := range r.w.connections.conns {
		for _, c := range cs {
			idx := 0
			for i, v := range all {
				if v.c == c {
					idx = i + 1
				}
			}
			out[g] = append(out[g], [2]any{c.id, idx})
		}
	}
	return out
}

// ---- loop mode: the REAL PollWorker.Start loop over channels the harness owns

type VerifLoop struct {
	*VerifReg
	sq         chan *aio.Message
	connect    chan *connection
	disconnect chan *connection
	done       chan struct{}
}

func VerifNewLoop(max int) *VerifLoop {
	r := VerifNewWorker(max)
	l := &VerifLoop{VerifReg: r, sq: make(chan *aio.Message, 100), connect: make(chan *connection, 100), disconnect: make(chan *connection, 100), done: make(chan struct{})}
	r.w.sq, r.w.connect, r.w.disconnect = l.sq, l.connect, l.disconnect
	go func() { r.w.Start(); close(l.done) }()
	return l
}
func (l *VerifLoop) Connect(c *VerifConn)    { l.connect <- c.c }
func (l *VerifLoop) Disconnect(c *VerifConn) { l.disconnect <- c.c }
func (l *VerifLoop) Enqueue(m *aio.Message)  { l.sq <- m }
func (l *VerifLoop) ControlIdle() bool       { return len(l.connect) == 0 && len(l.disconnect) == 0 }
func (l *VerifLoop) StopSq()                 { close(l.sq) }
func (l *VerifLoop) Shutdown()               { close(l.connect); close(l.disconnect); <-l.done }
