//go:build verif

// pushx plays the scenarios TLC generated from spec/PushGen.tla against the REAL sender worker
// (SenderWorker.Process) and the REAL http transport plugin (internal/app/plugins/http), with
// real receivers on the loopback interface whose behaviour the scenario prescribes, and records
// what happened - every call and return of Process, every request a receiver got, every
// report (completion) the kernel would get - in the order in which it happened.  TLC judges
// the record against spec/PushTrace.tla.
//
//	pushx -scenarios <file> -out <obs.ndjson> [-par n]
package main

import (
	"bufio"
	"encoding/json"
	"flag"
	"fmt"
	"io"
	"log/slog"
	"net"
	nethttp "net/http"
	"os"
	"strings"
	"sync"
	"time"

	"github.com/prometheus/client_golang/prometheus"
	"github.com/resonatehq/resonate/internal/aio"
	"github.com/resonatehq/resonate/internal/app/plugins/http"
	"github.com/resonatehq/resonate/internal/app/subsystems/aio/sender"
	"github.com/resonatehq/resonate/internal/kernel/bus"
	"github.com/resonatehq/resonate/internal/kernel/t_aio"
	"github.com/resonatehq/resonate/internal/metrics"
	"github.com/resonatehq/resonate/pkg/message"
	"github.com/resonatehq/resonate/pkg/task"
)

type M = map[string]any
type sqeT = bus.SQE[t_aio.Submission, t_aio.Completion]
type cqeT = bus.CQE[t_aio.Submission, t_aio.Completion]

type msg struct {
	Id   string `json:"id"`
	Addr string `json:"addr"`
	Beh  string `json:"beh"`
}

type step struct {
	E string `json:"e"`
	M string `json:"m"`
}

type scenario struct {
	Size  int    `json:"size"`
	Msgs  []msg  `json:"msgs"`
	Steps []step `json:"steps"`
}

const clientTimeout = 2500 * time.Millisecond
const base = "http://resonate.test"

// the record of one scenario: events in the order in which they happened
type record struct {
	mu      sync.Mutex
	evs     []M
	rcvd    map[string]int
	reports map[string]int
	cond    *sync.Cond
}

func newRecord() *record {
	r := &record{rcvd: map[string]int{}, reports: map[string]int{}}
	r.cond = sync.NewCond(&r.mu)
	return r
}

func (r *record) add(ev M) {
	r.mu.Lock()
	r.evs = append(r.evs, ev)
	switch ev["e"] {
	case "rcv":
		r.rcvd[ev["m"].(string)]++
	case "report":
		r.reports[ev["m"].(string)]++
	}
	r.cond.Broadcast()
	r.mu.Unlock()
}

// await waits until f holds (at most d); the steps of a scenario only pace the harness
func (r *record) await(d time.Duration, f func() bool) bool {
	deadline := time.Now().Add(d)
	stop := time.AfterFunc(d, func() { r.mu.Lock(); r.cond.Broadcast(); r.mu.Unlock() })
	defer stop.Stop()
	r.mu.Lock()
	defer r.mu.Unlock()
	for !f() {
		if time.Now().After(deadline) {
			return false
		}
		r.cond.Wait()
	}
	return true
}

// the kernel side of the sender: collects the completions
type recAIO struct{ rec *record }

func (a *recAIO) String() string                               { return "AIO(pushx)" }
func (a *recAIO) Start() error                                 { return nil }
func (a *recAIO) Stop() error                                  { return nil }
func (a *recAIO) Shutdown()                                    {}
func (a *recAIO) Errors() <-chan error                         { return nil }
func (a *recAIO) Signal(<-chan interface{}) <-chan interface{} { panic("pushx: Signal not used") }
func (a *recAIO) Flush(int64)                                  {}
func (a *recAIO) Dispatch(*t_aio.Submission, func(*t_aio.Completion, error)) {
	panic("pushx: Dispatch not used")
}
func (a *recAIO) EnqueueSQE(*sqeT)       { panic("pushx: EnqueueSQE not used") }
func (a *recAIO) DequeueCQE(int) []*cqeT { return nil }
func (a *recAIO) EnqueueCQE(c *cqeT) {
	r := "failure"
	switch {
	case c.Error != nil:
		r = "error"
	case c.Completion != nil && c.Completion.Sender != nil && c.Completion.Sender.Success:
		r = "success"
	}
	a.rec.add(M{"e": "report", "m": c.Id, "r": r})
}

var _ aio.AIO = (*recAIO)(nil)

// receivers: /<endpoint>/<message id>
func receiver(rec *record) nethttp.Handler {
	return nethttp.HandlerFunc(func(w nethttp.ResponseWriter, r *nethttp.Request) {
		parts := strings.SplitN(strings.TrimPrefix(r.URL.Path, "/"), "/", 2)
		ep, mid := parts[0], ""
		if len(parts) > 1 {
			mid = parts[1]
		}
		raw, _ := io.ReadAll(r.Body)
		var body struct {
			Type string `json:"type"`
			Task struct {
				Id      string `json:"id"`
				Counter int    `json:"counter"`
			} `json:"task"`
			Href struct {
				Claim string `json:"claim"`
			} `json:"href"`
		}
		_ = json.Unmarshal(raw, &body)
		rec.add(M{"e": "rcv", "m": mid, "ep": ep, "method": r.Method, "ct": r.Header.Get("Content-Type"), "xv": r.Header.Get("X-Verif"),
			"type": body.Type, "task": body.Task.Id, "counter": body.Task.Counter, "claim": body.Href.Claim})
		switch ep {
		case "200", "final":
			w.WriteHeader(200)
		case "201", "204", "400", "404", "500", "503":
			var code int
			fmt.Sscanf(ep, "%d", &code)
			w.WriteHeader(code)
		case "slow-200":
			time.Sleep(50 * time.Millisecond)
			w.WriteHeader(200)
		case "hang":
			select {
			case <-r.Context().Done():
			case <-time.After(4 * clientTimeout):
			}
		case "cut":
			if hj, ok := w.(nethttp.Hijacker); ok {
				if c, _, err := hj.Hijack(); err == nil {
					c.Close()
				}
			}
		case "redirect":
			w.Header().Set("Location", "/final/"+mid)
			w.WriteHeader(307)
		default:
			w.WriteHeader(418)
		}
	})
}

func address(m msg, port, closed int) string {
	u := func(scheme string, p int, ep string) string {
		return fmt.Sprintf("%s://127.0.0.1:%d/%s/%s", scheme, p, ep, m.Id)
	}
	q := func(s string) string { b, _ := json.Marshal(s); return string(b) }
	switch m.Addr {
	case "url":
		return q(u("http", port, m.Beh))
	case "physical":
		return `{"type":"http","data":{"url":` + q(u("http", port, m.Beh)) + `}}`
	case "physical-headers":
		return `{"type":"http","data":{"url":` + q(u("http", port, m.Beh)) + `,"headers":{"X-Verif":"v-` + m.Id + `","Content-Type":"text/plain"}}}`
	case "data-not-object":
		return `{"type":"http","data":` + q(u("http", port, "200")) + `}`
	case "data-null":
		return `{"type":"http","data":null}`
	case "url-absent":
		return `{"type":"http","data":{"headers":{"X-Other":"1"}}}`
	case "url-empty":
		return `{"type":"http","data":{"url":""}}`
	case "url-invalid":
		return `{"type":"http","data":{"url":"http://127.0.0.1:` + fmt.Sprint(port) + `/200/` + m.Id + `\u007f"}}`
	case "scheme-ftp":
		return `{"type":"http","data":{"url":` + q(u("ftp", port, "200")) + `}}`
	case "refused":
		return q(u("http", closed, "200"))
	case "recv-null":
		return `null`
	case "recv-number":
		return `42`
	case "scheme-unknown":
		return q(u("ftp", port, "200"))
	case "plugin-unknown":
		return `{"type":"smtp","data":{"url":` + q(u("http", port, "200")) + `}}`
	}
	panic("pushx: unknown address class " + m.Addr)
}

func ptr[T any](v T) *T { return &v }

func play(sc *scenario) []M {
	rec := newRecord()
	ln, err := net.Listen("tcp", "127.0.0.1:0")
	if err != nil {
		panic(err)
	}
	srv := &nethttp.Server{Handler: receiver(rec)}
	go srv.Serve(ln)
	defer srv.Close()
	port := ln.Addr().(*net.TCPAddr).Port
	// nothing listens on port 1 of the loopback interface: connection refused.  (A port that was free a moment ago
	// is taken by the receiver of another scenario played at the same time.)
	closed := 1

	a := &recAIO{rec: rec}
	cfg := &sender.Config{Size: 10}
	cfg.Plugins.Http.Enabled = true
	cfg.Plugins.Http.Config = http.Config{Size: sc.Size, Workers: 1, Timeout: clientTimeout}
	cfg.Plugins.Poll.Enabled = false
	s, err := sender.New(a, metrics.New(prometheus.NewRegistry()), cfg)
	if err != nil {
		panic(fmt.Sprintf("pushx: sender.New: %v", err))
	}
	errs := make(chan error, 10)
	if err := s.Start(errs); err != nil {
		panic(fmt.Sprintf("pushx: sender.Start: %v", err))
	}

	byId := map[string]msg{}
	for _, m := range sc.Msgs {
		byId[m.Id] = m
	}
	rec.add(M{"e": "begin", "size": sc.Size, "msgs": sc.Msgs})
	for _, st := range sc.Steps {
		m := byId[st.M]
		switch st.E {
		case "send":
			t := &task.Task{Id: "t-" + m.Id, Counter: 7, Timeout: 100, State: task.Enqueued, RootPromiseId: "p-" + m.Id,
				Recv: []byte(address(m, port, closed)), Mesg: &message.Mesg{Type: message.Invoke, Root: "p-" + m.Id, Leaf: "p-" + m.Id}, CreatedOn: ptr(int64(5))}
			sqe := &sqeT{Id: m.Id, Callback: func(*t_aio.Completion, error) {},
				Submission: &t_aio.Submission{Kind: t_aio.Sender, Tags: map[string]string{"id": m.Id, "name": "EnqueueTasks"},
					Sender: &t_aio.SenderSubmission{Task: t,
						ClaimHref:     fmt.Sprintf("%s/tasks/claim/%s/%d", base, t.Id, t.Counter),
						CompleteHref:  fmt.Sprintf("%s/tasks/complete/%s/%d", base, t.Id, t.Counter),
						HeartbeatHref: fmt.Sprintf("%s/tasks/heartbeat/%s/%d", base, t.Id, t.Counter)}}}
			rec.add(M{"e": "send", "m": m.Id})
			s.VerifWorker().Process(sqe)
			rec.add(M{"e": "sent", "m": m.Id})
		case "arrive":
			rec.await(5*time.Second, func() bool { return rec.rcvd[m.Id] > 0 })
		case "report":
			rec.await(clientTimeout+5*time.Second, func() bool { return rec.reports[m.Id] > 0 })
		}
	}
	// whatever is still on its way
	rec.await(2*clientTimeout+5*time.Second, func() bool {
		for _, m := range sc.Msgs {
			if rec.reports[m.Id] == 0 {
				return false
			}
		}
		return true
	})
	time.Sleep(20 * time.Millisecond) // a second report or a stray request would come now
	rec.add(M{"e": "end", "panicked": false})
	_ = s.Stop()
	rec.mu.Lock()
	defer rec.mu.Unlock()
	return append([]M{}, rec.evs...)
}

func main() {
	in := flag.String("scenarios", "", "one scenario (JSON) per line")
	out := flag.String("out", "push.ndjson", "observations")
	par := flag.Int("par", 8, "scenarios played at the same time")
	flag.Parse()
	slog.SetDefault(slog.New(slog.NewTextHandler(io.Discard, nil)))
	f, err := os.Open(*in)
	if err != nil {
		fmt.Fprintln(os.Stderr, "pushx:", err)
		os.Exit(2)
	}
	var scs []*scenario
	rd := bufio.NewScanner(f)
	rd.Buffer(make([]byte, 1<<20), 1<<26)
	for rd.Scan() {
		if strings.TrimSpace(rd.Text()) == "" {
			continue
		}
		sc := &scenario{}
		if err := json.Unmarshal(rd.Bytes(), sc); err != nil {
			fmt.Fprintln(os.Stderr, "pushx:", err)
			os.Exit(2)
		}
		scs = append(scs, sc)
	}
	results := make([][]M, len(scs))
	sem := make(chan struct{}, *par)
	var wg sync.WaitGroup
	for i, sc := range scs {
		wg.Add(1)
		sem <- struct{}{}
		go func(i int, sc *scenario) {
			defer wg.Done()
			defer func() { <-sem }()
			results[i] = play(sc)
		}(i, sc)
	}
	wg.Wait()
	of, _ := os.Create(*out)
	w := bufio.NewWriter(of)
	nev, nreq := 0, 0
	for _, evs := range results {
		for _, ev := range evs {
			b, _ := json.Marshal(ev)
			w.Write(b)
			w.WriteByte('\n')
			nev++
			if ev["e"] == "rcv" {
				nreq++
			}
		}
	}
	w.Flush()
	of.Close()
	fmt.Fprintf(os.Stderr, "pushx: %d scenarios, %d events, %d requests received\n", len(scs), nev, nreq)
}
