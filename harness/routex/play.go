//go:build verif

package main

import (
	"bytes"
	"encoding/json"
	"fmt"

	"github.com/prometheus/client_golang/prometheus"

	"github.com/resonatehq/resonate/internal/aio"
	"github.com/resonatehq/resonate/internal/app/subsystems/aio/router"
	"github.com/resonatehq/resonate/internal/app/subsystems/aio/sender"
	"github.com/resonatehq/resonate/internal/kernel/bus"
	"github.com/resonatehq/resonate/internal/kernel/t_aio"
	"github.com/resonatehq/resonate/internal/metrics"
	"github.com/resonatehq/resonate/pkg/message"
	"github.com/resonatehq/resonate/pkg/promise"
	"github.com/resonatehq/resonate/pkg/task"
)

type (
	sqeT = bus.SQE[t_aio.Submission, t_aio.Completion]
	cqeT = bus.CQE[t_aio.Submission, t_aio.Completion]
)

// ---------------------------------------------------------------------------------------
// an aio.AIO that only collects completions
// ---------------------------------------------------------------------------------------

type collectAIO struct {
	cqes []*cqeT
}

func (a *collectAIO) String() string                               { return "AIO(routex)" }
func (a *collectAIO) Start() error                                 { return nil }
func (a *collectAIO) Stop() error                                  { return nil }
func (a *collectAIO) Shutdown()                                    {}
func (a *collectAIO) Errors() <-chan error                         { return nil }
func (a *collectAIO) Signal(<-chan interface{}) <-chan interface{} { panic("routex: Signal not used") }
func (a *collectAIO) Flush(int64)                                  {}
func (a *collectAIO) Dispatch(*t_aio.Submission, func(*t_aio.Completion, error)) {
	panic("routex: Dispatch not used")
}
func (a *collectAIO) EnqueueSQE(*sqeT)   { panic("routex: EnqueueSQE not used") }
func (a *collectAIO) EnqueueCQE(c *cqeT) { a.cqes = append(a.cqes, c) }
func (a *collectAIO) DequeueCQE(n int) []*cqeT {
	if n > len(a.cqes) {
		n = len(a.cqes)
	}
	out := a.cqes[:n]
	a.cqes = a.cqes[n:]
	return out
}

var _ aio.AIO = (*collectAIO)(nil)

// ---------------------------------------------------------------------------------------
// recording transport plugin: accepts every message and completes it successfully at once
// ---------------------------------------------------------------------------------------

type recPlugin struct {
	typ  string
	msgs []*aio.Message
}

func (p *recPlugin) String() string           { return "routex:" + p.typ }
func (p *recPlugin) Type() string             { return p.typ }
func (p *recPlugin) Start(chan<- error) error { return nil }
func (p *recPlugin) Stop() error              { return nil }
func (p *recPlugin) Enqueue(m *aio.Message) bool {
	p.msgs = append(p.msgs, m)
	m.Done(true, nil)
	return true
}

var _ aio.Plugin = (*recPlugin)(nil)

func newMetrics() *metrics.Metrics { return metrics.New(prometheus.NewRegistry()) }

func ptr[T any](v T) *T { return &v }

// compactOr returns json.Compact(b) or, when b is not JSON, b itself.
func compactOr(b []byte) string {
	var buf bytes.Buffer
	if err := json.Compact(&buf, b); err != nil {
		return string(b)
	}
	return buf.String()
}

// ---------------------------------------------------------------------------------------
// part 1: the router
// ---------------------------------------------------------------------------------------

func playRoute(v *vector) *routeObs {
	a := &collectAIO{}
	rcfg := &router.Config{Size: 10, Workers: 1}
	for _, src := range v.Sources {
		data, _ := json.Marshal(map[string]string{"key": src.Key})
		rcfg.Sources = append(rcfg.Sources, router.SourceConfig{Name: src.Name, Type: "tag", Data: data})
	}
	r, err := router.New(a, newMetrics(), rcfg)
	if err != nil {
		panic(fmt.Sprintf("routex: router.New: %v", err))
	}

	tags := map[string]string{"resonate:invoke": v.Tag}
	if v.Tag == "<absent>" {
		tags = map[string]string{"other": "x"}
	}
	if len(v.PTags) > 0 {
		tags = map[string]string{}
		for _, kv := range v.PTags {
			tags[kv[0]] = kv[1]
		}
	}
	p := &promise.Promise{Id: promiseId, State: promise.Pending, Timeout: 100, Tags: tags}

	sqe := &sqeT{
		Id: "r1",
		Submission: &t_aio.Submission{
			Kind:   t_aio.Router,
			Tags:   map[string]string{"id": "r1", "name": "x"},
			Router: &t_aio.RouterSubmission{Promise: p},
		},
		Callback: func(*t_aio.Completion, error) {},
	}

	cqes := r.Process([]*sqeT{sqe})

	o := &routeObs{E: "route", I: v.I, Tag: v.Tag, Class: v.Class, Table: v.Table, Tagset: tagsetOf(v)}
	if len(cqes) != 1 || cqes[0] == nil {
		o.Err = true // no answer at all: cannot be told apart from an error by the kernel
		return o
	}
	c := cqes[0]
	switch {
	case c.Error != nil:
		o.Err = true
	case c.Completion == nil || c.Completion.Router == nil:
		o.Err = true
	default:
		o.Matched = c.Completion.Router.Matched
		o.Recv = string(c.Completion.Router.Recv)
		o.RecvNorm = compactOr(c.Completion.Router.Recv)
	}
	return o
}

// ---------------------------------------------------------------------------------------
// part 2: the sender
// ---------------------------------------------------------------------------------------

func playSend(v *vector) *sendObs {
	a := &collectAIO{}

	cfg := &sender.Config{Size: 10}
	cfg.Plugins.Http.Enabled = false
	cfg.Plugins.Poll.Enabled = false
	for _, t := range v.Targets {
		cfg.Targets = append(cfg.Targets, sender.TargetConfig{Name: t.Name, Type: t.Type, Data: json.RawMessage(t.Data)})
	}
	s, err := sender.New(a, newMetrics(), cfg)
	if err != nil {
		panic(fmt.Sprintf("routex: sender.New: %v", err))
	}
	plugins := []*recPlugin{{typ: "http"}, {typ: "poll"}}
	for _, p := range plugins {
		s.VerifWorker().AddPlugin(p)
	}

	// the submission, built the way coroutines/enqueueTasks.go builds it
	id := taskIdOf(v.Kind)
	leaf := "p2"
	switch v.Kind {
	case "invoke":
		leaf = promiseId
	case "notify":
		leaf = ""
	}
	t := &task.Task{
		Id:            id,
		Counter:       taskCounter,
		Timeout:       100,
		State:         task.Enqueued,
		RootPromiseId: promiseId,
		Recv:          []byte(v.Recv),
		Mesg:          &message.Mesg{Type: message.Type(v.Kind), Root: promiseId, Leaf: leaf},
		CreatedOn:     ptr(int64(5)),
	}
	var p *promise.Promise
	if v.Kind == "notify" {
		p = &promise.Promise{Id: promiseId, State: promise.Resolved, Timeout: 100,
			Tags: map[string]string{"other": "x"}, CreatedOn: ptr(int64(1)), CompletedOn: ptr(int64(4))}
	}
	sqe := &sqeT{
		Id: "e1",
		Submission: &t_aio.Submission{
			Kind: t_aio.Sender,
			Tags: map[string]string{"id": "e1", "name": "EnqueueTasks"},
			Sender: &t_aio.SenderSubmission{
				Task:          t,
				Promise:       p,
				ClaimHref:     fmt.Sprintf("%s/tasks/claim/%s/%d", baseUrl, t.Id, t.Counter),
				CompleteHref:  fmt.Sprintf("%s/tasks/complete/%s/%d", baseUrl, t.Id, t.Counter),
				HeartbeatHref: fmt.Sprintf("%s/tasks/heartbeat/%s/%d", baseUrl, t.Id, t.Counter),
			},
		},
		Callback: func(*t_aio.Completion, error) {},
	}

	s.VerifWorker().Process(sqe)

	// a real plugin puts the message on the wire LATER, from its own goroutine, while the sender goes on
	// with the next submission: a second, different message goes through the same worker before the
	// first one is looked at
	decoy := &sqeT{
		Id: "e2",
		Submission: &t_aio.Submission{
			Kind: t_aio.Sender,
			Tags: map[string]string{"id": "e2", "name": "EnqueueTasks"},
			Sender: &t_aio.SenderSubmission{
				Task: &task.Task{Id: "__notify:zz:zz", Counter: 9, Timeout: 100, State: task.Enqueued, RootPromiseId: "zz",
					Recv: []byte(v.Recv), Mesg: &message.Mesg{Type: message.Notify, Root: "zz", Leaf: ""}, CreatedOn: ptr(int64(5))},
				Promise: &promise.Promise{Id: "zz", State: promise.Rejected, Timeout: 100, Tags: map[string]string{"zz": "zz"}, CreatedOn: ptr(int64(1)), CompletedOn: ptr(int64(4))},
				ClaimHref:     baseUrl + "/tasks/claim/zz/9",
				CompleteHref:  baseUrl + "/tasks/complete/zz/9",
				HeartbeatHref: baseUrl + "/tasks/heartbeat/zz/9",
			},
		},
		Callback: func(*t_aio.Completion, error) {},
	}
	s.VerifWorker().Process(decoy)

	o := &sendObs{E: "send", I: v.I, Table: v.Table, Recv: v.Recv, Kind: v.Kind,
		TaskId: id, TaskCounter: taskCounter, PromiseId: promiseId, Base: baseUrl}

	// what was handed to a plugin
	var msg *aio.Message
	for _, pl := range plugins {
		if len(pl.msgs) > 0 && msg == nil {
			msg = pl.msgs[0]
			o.Handed = true
			o.Plugin = pl.typ
		}
	}
	if msg != nil {
		o.MsgType = string(msg.Type)
		if len(msg.Data) > 0 {
			o.DataNorm = compactOr(msg.Data)
		}
		var body struct {
			Type *string `json:"type"`
			Task *struct {
				Id      string `json:"id"`
				Counter int    `json:"counter"`
			} `json:"task"`
			Promise *struct {
				Id string `json:"id"`
			} `json:"promise"`
			Href *struct {
				Claim     string `json:"claim"`
				Complete  string `json:"complete"`
				Heartbeat string `json:"heartbeat"`
			} `json:"href"`
		}
		if err := json.Unmarshal(msg.Body, &body); err == nil {
			if body.Type != nil {
				o.BodyType = *body.Type
			}
			if body.Task != nil {
				o.BodyHasTask = true
				o.BodyTaskId = body.Task.Id
				o.BodyTaskCounter = body.Task.Counter
			}
			if body.Promise != nil {
				o.BodyPromiseId = body.Promise.Id
			}
			if body.Href != nil {
				o.HrefClaim = body.Href.Claim
				o.HrefComplete = body.Href.Complete
				o.HrefHeartbeat = body.Href.Heartbeat
			}
		}
	}

	// the completion the worker reported to the kernel
	switch {
	case len(a.cqes) == 0:
		o.Outcome = "lost"
	case a.cqes[0].Error != nil:
		o.Outcome = "err"
	case a.cqes[0].Completion == nil || a.cqes[0].Completion.Sender == nil:
		o.Outcome = "lost"
	case a.cqes[0].Completion.Sender.Success:
		o.Outcome = "ok"
	default:
		o.Outcome = "fail"
	}
	return o
}
