//go:build verif

// routex plays the vectors TLC enumerated from Route.tla against the REAL router worker and
// the REAL sender worker (with recording plugins) and writes one observation per vector.
//
//	routex -vectors <vectors.ndjson> -out <obs.ndjson>
//
// The work runs in a child process (re-exec with -worker -from k) so that a vector that
// kills the process (fatal error, unrecovered panic in a foreign goroutine) still yields an
// observation ("dead":true) and the remaining vectors are still played.
package main

import (
	"bufio"
	"bytes"
	"encoding/json"
	"flag"
	"fmt"
	"io"
	"log/slog"
	"os"
	"os/exec"
	"strings"
)

// vector is one line of the vectors file.
type vector struct {
	I     int    `json:"i"`
	Part  string `json:"part"`
	Tag   string `json:"tag"`
	Class string `json:"class"`

	Table   string     `json:"table"`
	Sources []source   `json:"sources"` // route vectors: the router's source table
	PTags   [][]string `json:"ptags"`   // route vectors: the promise's tags (empty: the tag of the vector under resonate:invoke)
	Targets []target   `json:"targets"`
	Recv    string   `json:"recv"`
	Kind    string   `json:"kind"`
}

type source struct {
	Name string `json:"name"`
	Key  string `json:"key"`
}

type target struct {
	Name string `json:"name"`
	Type string `json:"type"`
	Data string `json:"data"`
}

// Observation records. No omitempty anywhere: every record of the same "e" carries exactly
// the same keys; no field can serialise to null or {}.
type routeObs struct {
	E        string `json:"e"`
	I        int    `json:"i"`
	Tag      string `json:"tag"`
	Class    string `json:"class"`
	Table    string `json:"table"`
	Tagset   string `json:"tagset"`
	Matched  bool   `json:"matched"`
	Recv     string `json:"recv"`
	RecvNorm string `json:"recvNorm"`
	Err      bool   `json:"err"`
	Dead     bool   `json:"dead"`
}

type sendObs struct {
	E               string `json:"e"`
	I               int    `json:"i"`
	Table           string `json:"table"`
	Recv            string `json:"recv"`
	Kind            string `json:"kind"`
	Handed          bool   `json:"handed"`
	Plugin          string `json:"plugin"`
	DataNorm        string `json:"dataNorm"`
	Outcome         string `json:"outcome"`
	MsgType         string `json:"msgType"` // aio.Message.Type: what the transport plugin sees as the kind of message
	BodyType        string `json:"bodyType"`
	BodyHasTask     bool   `json:"bodyHasTask"`
	BodyTaskId      string `json:"bodyTaskId"`
	BodyTaskCounter int    `json:"bodyTaskCounter"`
	BodyPromiseId   string `json:"bodyPromiseId"`
	HrefClaim       string `json:"hrefClaim"`
	HrefComplete    string `json:"hrefComplete"`
	HrefHeartbeat   string `json:"hrefHeartbeat"`
	TaskId          string `json:"taskId"`
	TaskCounter     int    `json:"taskCounter"`
	PromiseId       string `json:"promiseId"`
	Base            string `json:"base"`
	Dead            bool   `json:"dead"`
}

// beginRec is the child's "I am about to play vector k" marker (never reaches the output file).
type beginRec struct {
	E string `json:"e"`
	I int    `json:"i"`
	K int    `json:"k"`
}

const (
	baseUrl     = "http://resonate.test"
	promiseId   = "p1"
	taskCounter = 3
)

func taskIdOf(kind string) string { return "__" + kind + ":t1" }

// deadRoute / deadSend: the observation for a vector that killed the code under test. The
// fields that merely echo the vector (and the constants of the experiment) are kept so that
// the consumer can tell which vector it was; everything observed is zero.
func deadRoute(v *vector) *routeObs {
	return &routeObs{E: "route", I: v.I, Tag: v.Tag, Class: v.Class, Table: v.Table, Tagset: tagsetOf(v), Dead: true}
}

func tagsetOf(v *vector) string {
	if i := strings.Index(v.Tag, "/"); v.Class == "sources" && i >= 0 {
		return v.Tag[i+1:]
	}
	return ""
}

func deadSend(v *vector) *sendObs {
	return &sendObs{E: "send", I: v.I, Table: v.Table, Recv: v.Recv, Kind: v.Kind,
		TaskId: taskIdOf(v.Kind), TaskCounter: taskCounter, PromiseId: promiseId, Base: baseUrl, Dead: true}
}

func deadObs(v *vector) any {
	if v.Part == "route" {
		return deadRoute(v)
	}
	return deadSend(v)
}

func readVectors(path string) ([]*vector, error) {
	f, err := os.Open(path)
	if err != nil {
		return nil, err
	}
	defer f.Close()
	var out []*vector
	sc := bufio.NewScanner(f)
	sc.Buffer(make([]byte, 0, 1<<20), 1<<26)
	ln := 0
	for sc.Scan() {
		ln++
		line := bytes.TrimSpace(sc.Bytes())
		if len(line) == 0 {
			continue
		}
		v := &vector{}
		if err := json.Unmarshal(line, v); err != nil {
			return nil, fmt.Errorf("%s:%d: %v", path, ln, err)
		}
		if v.Part != "route" && v.Part != "send" {
			return nil, fmt.Errorf("%s:%d: unknown part %q", path, ln, v.Part)
		}
		if v.Part == "send" && v.Kind != "invoke" && v.Kind != "resume" && v.Kind != "notify" {
			return nil, fmt.Errorf("%s:%d: unknown kind %q", path, ln, v.Kind)
		}
		out = append(out, v)
	}
	return out, sc.Err()
}

func marshalLine(v any) []byte {
	var buf bytes.Buffer
	enc := json.NewEncoder(&buf)
	enc.SetEscapeHTML(false)
	if err := enc.Encode(v); err != nil { // cannot happen: plain structs of strings/bools/ints
		panic(err)
	}
	return buf.Bytes() // ends with \n
}

func fatal(format string, a ...any) {
	fmt.Fprintf(os.Stderr, "routex: "+format+"\n", a...)
	os.Exit(2)
}

func main() {
	vectors := flag.String("vectors", "", "vectors file (ndjson, from TLC)")
	out := flag.String("out", "", "observations file (ndjson)")
	worker := flag.Bool("worker", false, "internal: play vectors and print observations on stdout")
	from := flag.Int("from", 0, "internal: index (line order, 0-based) of the first vector to play")
	verbose := flag.Bool("v", false, "report why vectors died (stderr)")
	flag.Parse()

	if *vectors == "" || (!*worker && *out == "") {
		fmt.Fprintln(os.Stderr, "usage: routex -vectors <file> -out <obs.ndjson>")
		os.Exit(2)
	}
	vs, err := readVectors(*vectors)
	if err != nil {
		fatal("%v", err)
	}

	if *worker {
		// the code under test logs through slog; keep the child's stderr for real crashes
		slog.SetDefault(slog.New(slog.NewTextHandler(io.Discard, nil)))
		runWorker(vs, *from)
		return
	}
	os.Exit(runParent(vs, *vectors, *out, *verbose))
}

// ---------------------------------------------------------------------------------------
// worker (child)
// ---------------------------------------------------------------------------------------

func runWorker(vs []*vector, from int) {
	w := bufio.NewWriter(os.Stdout)
	emit := func(v any) {
		if _, err := w.Write(marshalLine(v)); err != nil {
			os.Exit(3)
		}
		if err := w.Flush(); err != nil {
			os.Exit(3)
		}
	}
	for k := from; k < len(vs); k++ {
		v := vs[k]
		emit(&beginRec{E: "begin", I: v.I, K: k})
		if os.Getenv("ROUTEX_SELFTEST_CRASH_AT") == fmt.Sprint(v.I) {
			// self-test of the restart path: die the way a fatal runtime error would
			fmt.Fprintln(os.Stderr, "fatal error: routex self-test crash")
			os.Exit(2)
		}
		obs, why := play(v)
		if why != "" {
			fmt.Fprintf(os.Stderr, "DIED i=%d part=%s: recovered panic: %s\n", v.I, v.Part, why)
		}
		emit(obs)
	}
}

// play runs one vector; a Go panic in the code under test is caught here (dead:true).
func play(v *vector) (obs any, why string) {
	defer func() {
		if r := recover(); r != nil {
			obs = deadObs(v)
			why = strings.SplitN(fmt.Sprint(r), "\n", 2)[0]
		}
	}()
	if v.Part == "route" {
		return playRoute(v), ""
	}
	return playSend(v), ""
}

// ---------------------------------------------------------------------------------------
// parent
// ---------------------------------------------------------------------------------------

func runParent(vs []*vector, vectorsPath, outPath string, verbose bool) int {
	self, err := os.Executable()
	if err != nil {
		fatal("cannot find own executable: %v", err)
	}
	of, err := os.Create(outPath)
	if err != nil {
		fatal("%v", err)
	}
	ow := bufio.NewWriter(of)
	write := func(line []byte) {
		if _, err := ow.Write(line); err != nil {
			fatal("write %s: %v", outPath, err)
		}
	}

	var nRoute, nSend, restarts int
	var dead []string
	count := func(v *vector) {
		if v.Part == "route" {
			nRoute++
		} else {
			nSend++
		}
	}

	next := 0
	for next < len(vs) {
		cmd := exec.Command(self, "-worker", "-from", fmt.Sprint(next), "-vectors", vectorsPath)
		var cerr bytes.Buffer
		cmd.Stderr = &cerr
		stdout, err := cmd.StdoutPipe()
		if err != nil {
			fatal("pipe: %v", err)
		}
		if err := cmd.Start(); err != nil {
			fatal("cannot start worker: %v", err)
		}

		begun := -1 // index of the vector that was begun and not yet finished
		progressed := false
		sc := bufio.NewScanner(stdout)
		sc.Buffer(make([]byte, 0, 1<<20), 1<<26)
		for sc.Scan() {
			line := sc.Bytes()
			var head struct {
				E    string `json:"e"`
				K    int    `json:"k"`
				Dead bool   `json:"dead"`
			}
			if json.Unmarshal(line, &head) != nil {
				continue // stray output of the code under test on stdout
			}
			switch head.E {
			case "begin":
				if head.K == next {
					begun = head.K
					progressed = true
				}
			case "route", "send":
				if begun < 0 {
					continue
				}
				write(append(append([]byte{}, line...), '\n'))
				count(vs[begun])
				if head.Dead {
					dead = append(dead, fmt.Sprintf("%d(%s,panic)", vs[begun].I, vs[begun].Part))
				}
				next = begun + 1
				begun = -1
			}
		}
		werr := cmd.Wait()

		if verbose {
			for _, l := range strings.Split(cerr.String(), "\n") {
				if strings.HasPrefix(l, "DIED ") {
					fmt.Fprintln(os.Stderr, "routex: "+l)
				}
			}
		}
		if begun >= 0 {
			// the child died while playing vs[begun]
			v := vs[begun]
			write(marshalLine(deadObs(v)))
			count(v)
			dead = append(dead, fmt.Sprintf("%d(%s,crash)", v.I, v.Part))
			if verbose {
				first := ""
				for _, l := range strings.Split(cerr.String(), "\n") {
					if l = strings.TrimSpace(l); l != "" && !strings.HasPrefix(l, "DIED ") {
						first = l
						break
					}
				}
				fmt.Fprintf(os.Stderr, "routex: DIED i=%d part=%s: worker %v: %s\n", v.I, v.Part, werr, first)
			}
			next = begun + 1
		}
		if next < len(vs) {
			if !progressed {
				_ = ow.Flush()
				fatal("worker made no progress at vector index %d (%v): %s", next, werr, strings.TrimSpace(cerr.String()))
			}
			restarts++
		}
	}

	if err := ow.Flush(); err != nil {
		fatal("write %s: %v", outPath, err)
	}
	if err := of.Close(); err != nil {
		fatal("close %s: %v", outPath, err)
	}
	fmt.Fprintf(os.Stderr, "routex: %d vectors played (%d route, %d send), %d dead %v, %d worker restarts -> %s\n",
		nRoute+nSend, nRoute, nSend, len(dead), dead, restarts, outPath)
	return 0
}
