package main

// Programmed kernel answers: for an operation, a status and a shape ("full" | "min" |
// "absent") build the *t_api.Response the stub kernel hands to the front end.  Nothing here
// is adapted to what the front ends can digest (apart from what the vector format itself
// prescribes for ClaimTask/20100/min): whether a front end survives an answer is exactly
// what the harness observes.

import (
	"encoding/json"
	"errors"

	"github.com/resonatehq/resonate/internal/kernel/t_api"
	"github.com/resonatehq/resonate/pkg/callback"
	"github.com/resonatehq/resonate/pkg/idempotency"
	"github.com/resonatehq/resonate/pkg/lock"
	"github.com/resonatehq/resonate/pkg/message"
	"github.com/resonatehq/resonate/pkg/promise"
	"github.com/resonatehq/resonate/pkg/schedule"
	"github.com/resonatehq/resonate/pkg/task"
)

var ops = []string{
	"ReadPromise", "SearchPromises", "CreatePromise", "CreatePromiseAndTask", "CompletePromise",
	"CreateCallback", "CreateSubscription",
	"ReadSchedule", "SearchSchedules", "CreateSchedule", "DeleteSchedule",
	"AcquireLock", "ReleaseLock", "HeartbeatLocks",
	"ClaimTask", "CompleteTask", "HeartbeatTasks",
}

func knownOp(op string) bool {
	for _, o := range ops {
		if o == op {
			return true
		}
	}
	return false
}

func ptr[T any](v T) *T { return &v }

func fullPromise(id string, sortId int64) *promise.Promise {
	return &promise.Promise{
		Id:                        id,
		State:                     promise.Resolved,
		Param:                     promise.Value{Headers: map[string]string{"ph": "pv"}, Data: []byte("param-data")},
		Value:                     promise.Value{Headers: map[string]string{"vh": "vv"}, Data: []byte("value-data")},
		Timeout:                   1700000000000,
		IdempotencyKeyForCreate:   ptr(idempotency.Key("ikc")),
		IdempotencyKeyForComplete: ptr(idempotency.Key("iku")),
		Tags:                      map[string]string{"k": "v", "resonate:invoke": "default"},
		CreatedOn:                 ptr(int64(1000)),
		CompletedOn:               ptr(int64(2000)),
		SortId:                    sortId,
	}
}

// statedPromise is a full promise in the given state.
func statedPromise(id string, sortId int64, st promise.State) *promise.Promise {
	p := fullPromise(id, sortId)
	p.State = st
	if st == promise.Pending {
		p.CompletedOn, p.IdempotencyKeyForComplete, p.Value = nil, nil, promise.Value{}
	}
	return p
}

// kernelStates lists the states of the promises of a programmed kernel answer, as the numbers of
// pkg/promise (1 pending, 2 resolved, 4 rejected, 8 canceled, 16 timed out), in the order in which
// the front ends render them: arrays in order, the promises of a claim by key (leaf before root).
func kernelStates(res *t_api.Response) []int {
	ps := []*promise.Promise{}
	switch res.Kind {
	case t_api.ReadPromise:
		ps = append(ps, res.ReadPromise.Promise)
	case t_api.SearchPromises:
		ps = append(ps, res.SearchPromises.Promises...)
	case t_api.CreatePromise:
		ps = append(ps, res.CreatePromise.Promise)
	case t_api.CreatePromiseAndTask:
		ps = append(ps, res.CreatePromiseAndTask.Promise)
	case t_api.CompletePromise:
		ps = append(ps, res.CompletePromise.Promise)
	case t_api.CreateCallback:
		ps = append(ps, res.CreateCallback.Promise)
	case t_api.CreateSubscription:
		ps = append(ps, res.CreateSubscription.Promise)
	case t_api.ClaimTask:
		ps = append(ps, res.ClaimTask.LeafPromise, res.ClaimTask.RootPromise)
	}
	out := []int{}
	for _, p := range ps {
		if p != nil {
			out = append(out, int(p.State))
		}
	}
	return out
}

func minPromise(id string) *promise.Promise {
	// the state is not optional (its zero value is not a state at all)
	return &promise.Promise{Id: id, State: promise.Pending}
}

func fullTask() *task.Task {
	return &task.Task{
		Id:            "t1",
		Counter:       1,
		Timeout:       1700000000000,
		ProcessId:     ptr("pid1"),
		State:         task.Claimed,
		RootPromiseId: "p1",
		Recv:          json.RawMessage(`"default"`),
		Mesg:          &message.Mesg{Type: message.Resume, Root: "p1", Leaf: "p2"},
		Attempt:       1,
		Ttl:           60000,
		ExpiresAt:     61000,
		CreatedOn:     ptr(int64(1000)),
		CompletedOn:   ptr(int64(2000)),
	}
}

func minTask() *task.Task {
	return &task.Task{Id: "t1"}
}

func fullCallback() *callback.Callback {
	return &callback.Callback{
		Id:            "cb1",
		PromiseId:     "p1",
		RootPromiseId: "p0",
		Recv:          json.RawMessage(`"default"`),
		Mesg:          &message.Mesg{Type: message.Resume, Root: "p0", Leaf: "p1"},
		Timeout:       1700000000000,
		CreatedOn:     1000,
	}
}

func minCallback() *callback.Callback {
	return &callback.Callback{Id: "cb1", PromiseId: "p1", RootPromiseId: "p0"}
}

func fullSchedule(id string, sortId int64) *schedule.Schedule {
	return &schedule.Schedule{
		Id:             id,
		Description:    "a schedule",
		Cron:           "* * * * *",
		Tags:           map[string]string{"k": "v"},
		PromiseId:      id + ".{{.timestamp}}",
		PromiseTimeout: 60000,
		PromiseParam:   promise.Value{Headers: map[string]string{"ph": "pv"}, Data: []byte("param-data")},
		PromiseTags:    map[string]string{"pk": "pv"},
		LastRunTime:    ptr(int64(500)),
		NextRunTime:    60000,
		IdempotencyKey: ptr(idempotency.Key("iks")),
		CreatedOn:      1000,
		SortId:         sortId,
	}
}

func minSchedule(id string) *schedule.Schedule {
	return &schedule.Schedule{Id: id, Cron: "* * * * *", PromiseId: id + ".{{.timestamp}}"}
}

func fullLock() *lock.Lock {
	return &lock.Lock{ResourceId: "r1", ExecutionId: "e1", ProcessId: "pid1", Ttl: 60000, ExpiresAt: 61000}
}

func minLock() *lock.Lock {
	return &lock.Lock{ResourceId: "r1", ExecutionId: "e1", ProcessId: "pid1"}
}

func shapedPromise(shape string) *promise.Promise {
	switch shape {
	case "full":
		return fullPromise("p1", 1)
	case "min":
		return minPromise("p1")
	}
	return nil
}

func shapedTask(shape string) *task.Task {
	switch shape {
	case "full":
		return fullTask()
	case "min":
		return minTask()
	}
	return nil
}

func shapedCallback(shape string) *callback.Callback {
	switch shape {
	case "full":
		return fullCallback()
	case "min":
		return minCallback()
	}
	return nil
}

func shapedSchedule(shape string) *schedule.Schedule {
	switch shape {
	case "full":
		return fullSchedule("s1", 1)
	case "min":
		return minSchedule("s1")
	}
	return nil
}

// buildResponse returns nil for an unknown operation.
func buildResponse(op string, status int, shape string) *t_api.Response {
	st := t_api.StatusCode(status)
	switch op {
	case "ReadPromise":
		return &t_api.Response{Kind: t_api.ReadPromise, ReadPromise: &t_api.ReadPromiseResponse{Status: st, Promise: shapedPromise(shape)}}
	case "SearchPromises":
		r := &t_api.SearchPromisesResponse{Status: st, Promises: []*promise.Promise{}}
		switch shape {
		case "full":
			// one promise of every state
			r.Promises = []*promise.Promise{fullPromise("p1", 1), fullPromise("p2", 2),
				statedPromise("p3", 3, promise.Rejected), statedPromise("p4", 4, promise.Canceled),
				statedPromise("p5", 5, promise.Timedout), statedPromise("p6", 6, promise.Pending)}
			r.Cursor = &t_api.Cursor[t_api.SearchPromisesRequest]{Next: &t_api.SearchPromisesRequest{
				Id: "*", States: []promise.State{promise.Pending, promise.Resolved}, Tags: map[string]string{"k": "v"}, Limit: 2, SortId: ptr(int64(2)),
			}}
		case "min":
			r.Promises = []*promise.Promise{minPromise("p1")}
		}
		return &t_api.Response{Kind: t_api.SearchPromises, SearchPromises: r}
	case "CreatePromise":
		return &t_api.Response{Kind: t_api.CreatePromise, CreatePromise: &t_api.CreatePromiseResponse{Status: st, Promise: shapedPromise(shape)}}
	case "CreatePromiseAndTask":
		return &t_api.Response{Kind: t_api.CreatePromiseAndTask, CreatePromiseAndTask: &t_api.CreatePromiseAndTaskResponse{
			Status: st, Promise: shapedPromise(shape), Task: shapedTask(shape)}}
	case "CompletePromise":
		return &t_api.Response{Kind: t_api.CompletePromise, CompletePromise: &t_api.CompletePromiseResponse{Status: st, Promise: shapedPromise(shape)}}
	case "CreateCallback":
		return &t_api.Response{Kind: t_api.CreateCallback, CreateCallback: &t_api.CreateCallbackResponse{
			Status: st, Promise: shapedPromise(shape), Callback: shapedCallback(shape)}}
	case "CreateSubscription":
		return &t_api.Response{Kind: t_api.CreateSubscription, CreateSubscription: &t_api.CreateSubscriptionResponse{
			Status: st, Promise: shapedPromise(shape), Callback: shapedCallback(shape)}}
	case "ReadSchedule":
		return &t_api.Response{Kind: t_api.ReadSchedule, ReadSchedule: &t_api.ReadScheduleResponse{Status: st, Schedule: shapedSchedule(shape)}}
	case "SearchSchedules":
		r := &t_api.SearchSchedulesResponse{Status: st, Schedules: []*schedule.Schedule{}}
		switch shape {
		case "full":
			r.Schedules = []*schedule.Schedule{fullSchedule("s1", 1), fullSchedule("s2", 2)}
			r.Cursor = &t_api.Cursor[t_api.SearchSchedulesRequest]{Next: &t_api.SearchSchedulesRequest{
				Id: "*", Tags: map[string]string{"k": "v"}, Limit: 2, SortId: ptr(int64(2)),
			}}
		case "min":
			r.Schedules = []*schedule.Schedule{minSchedule("s1")}
		}
		return &t_api.Response{Kind: t_api.SearchSchedules, SearchSchedules: r}
	case "CreateSchedule":
		return &t_api.Response{Kind: t_api.CreateSchedule, CreateSchedule: &t_api.CreateScheduleResponse{Status: st, Schedule: shapedSchedule(shape)}}
	case "DeleteSchedule":
		return &t_api.Response{Kind: t_api.DeleteSchedule, DeleteSchedule: &t_api.DeleteScheduleResponse{Status: st}}
	case "AcquireLock":
		r := &t_api.AcquireLockResponse{Status: st}
		switch shape {
		case "full":
			r.Lock = fullLock()
		case "min":
			r.Lock = minLock()
		}
		return &t_api.Response{Kind: t_api.AcquireLock, AcquireLock: r}
	case "ReleaseLock":
		return &t_api.Response{Kind: t_api.ReleaseLock, ReleaseLock: &t_api.ReleaseLockResponse{Status: st}}
	case "HeartbeatLocks":
		r := &t_api.HeartbeatLocksResponse{Status: st}
		if shape == "full" {
			r.LocksAffected = 2
		}
		return &t_api.Response{Kind: t_api.HeartbeatLocks, HeartbeatLocks: r}
	case "ClaimTask":
		r := &t_api.ClaimTaskResponse{Status: st}
		switch shape {
		case "full":
			r.Task = fullTask()
			r.RootPromise = fullPromise("p1", 1)
			r.LeafPromise = fullPromise("p2", 2)
			r.RootPromiseHref = "http://127.0.0.1:8001/promises/p1"
			r.LeafPromiseHref = "http://127.0.0.1:8001/promises/p2"
		case "min":
			r.Task = minTask()
			if st == t_api.StatusCreated {
				// both front ends assert task and mesg when the status is 20100
				r.Task.Mesg = &message.Mesg{Type: message.Invoke, Root: "p1"}
			}
		case "notify", "resume", "invoke":
			// a claimed task of each kind: a notification and an invocation carry the root promise only
			r.Task = fullTask()
			r.Task.Mesg = &message.Mesg{Type: message.Type(shape), Root: "p1"}
			r.RootPromise = fullPromise("p1", 1)
			r.RootPromiseHref = "http://127.0.0.1:8001/promises/p1"
			if shape == "resume" {
				r.Task.Mesg.Leaf = "p2"
				r.LeafPromise = statedPromise("p2", 2, promise.Timedout)
				r.LeafPromiseHref = "http://127.0.0.1:8001/promises/p2"
			}
		}
		return &t_api.Response{Kind: t_api.ClaimTask, ClaimTask: r}
	case "CompleteTask":
		return &t_api.Response{Kind: t_api.CompleteTask, CompleteTask: &t_api.CompleteTaskResponse{Status: st, Task: shapedTask(shape)}}
	case "HeartbeatTasks":
		r := &t_api.HeartbeatTasksResponse{Status: st}
		if shape == "full" {
			r.TasksAffected = 2
		}
		return &t_api.Response{Kind: t_api.HeartbeatTasks, HeartbeatTasks: r}
	}
	return nil
}

// vector is one line of the -vectors file.
type vector struct {
	I      int    `json:"i"`
	Op     string `json:"op"`
	Status int    `json:"status"`
	Via    string `json:"via"`
	Shape  string `json:"shape"`
	Cause  bool   `json:"cause"`
}

// answer is what the stub kernel is programmed with for a vector.
func (v *vector) answer() (*t_api.Response, error) {
	if v.Via == "error" {
		var cause error
		if v.Cause {
			cause = errors.New("boom")
		}
		return nil, t_api.NewError(t_api.StatusCode(v.Status), cause)
	}
	return buildResponse(v.Op, v.Status, v.Shape), nil
}
