package main

// The worker is the process that serves: real HTTP and gRPC front ends over a stub kernel,
// real clients against them.  It prints one line per step to stdout and flushes it; the
// supervisor (main.go) copes with the worker dying in the middle of a step.

import (
	"sort"
	"bufio"
	"bytes"
	"context"
	"encoding/json"
	"fmt"
	"io"
	"net"
	nethttp "net/http"
	"os"
	"strings"
	"sync"
	"time"

	"github.com/resonatehq/resonate/internal/app/subsystems/api/grpc"
	"github.com/resonatehq/resonate/internal/app/subsystems/api/grpc/pb"
	"github.com/resonatehq/resonate/internal/app/subsystems/api/http"
	"github.com/resonatehq/resonate/internal/kernel/bus"
	"github.com/resonatehq/resonate/internal/kernel/t_api"
	"github.com/resonatehq/resonate/internal/verif/project"
	ggrpc "google.golang.org/grpc"
	"google.golang.org/grpc/credentials/insecure"
	"google.golang.org/grpc/status"
)

const clientTimeout = 3 * time.Second

var protos = []string{"http", "grpc"}

func protoIndex(p string) int {
	for i, q := range protos {
		if p == q {
			return i
		}
	}
	return -1
}

// ---------------------------------------------------------------------------------------
// the stub kernel
// ---------------------------------------------------------------------------------------

type stubAPI struct {
	mu  sync.Mutex
	got []*t_api.Request
	res *t_api.Response
	err error
}

// program sets the answer to the next request(s) and forgets what was received so far.
func (s *stubAPI) program(res *t_api.Response, err error) {
	s.mu.Lock()
	defer s.mu.Unlock()
	s.got, s.res, s.err = nil, res, err
}

func (s *stubAPI) received() []*t_api.Request {
	s.mu.Lock()
	defer s.mu.Unlock()
	return append([]*t_api.Request{}, s.got...)
}

func (s *stubAPI) String() string                               { return "api:frontx-stub" }
func (s *stubAPI) Start() error                                 { return nil }
func (s *stubAPI) Stop() error                                  { return nil }
func (s *stubAPI) Shutdown()                                    {}
func (s *stubAPI) Done() bool                                   { return false }
func (s *stubAPI) Errors() <-chan error                         { return nil }
func (s *stubAPI) Signal(<-chan interface{}) <-chan interface{} { panic("not implemented") }

func (s *stubAPI) EnqueueSQE(sqe *bus.SQE[t_api.Request, t_api.Response]) {
	s.mu.Lock()
	s.got = append(s.got, sqe.Submission)
	res, err := s.res, s.err
	s.mu.Unlock()

	// immediately call the callback, like the repository's own test stub
	go sqe.Callback(res, err)
}

func (s *stubAPI) DequeueSQE(int) []*bus.SQE[t_api.Request, t_api.Response] {
	panic("not implemented")
}

func (s *stubAPI) EnqueueCQE(*bus.CQE[t_api.Request, t_api.Response]) {
	panic("not implemented")
}

func (s *stubAPI) DequeueCQE(cq <-chan *bus.CQE[t_api.Request, t_api.Response]) *bus.CQE[t_api.Request, t_api.Response] {
	return <-cq
}

// ---------------------------------------------------------------------------------------
// servers and clients
// ---------------------------------------------------------------------------------------

type worker struct {
	stub     *stubAPI
	httpAddr string
	grpcAddr string
	hc       *nethttp.Client
	gc       *clients
	out      *bufio.Writer
}

func waitListening(addr string) error {
	deadline := time.Now().Add(5 * time.Second)
	for {
		c, err := net.DialTimeout("tcp", addr, 200*time.Millisecond)
		if err == nil {
			_ = c.Close()
			return nil
		}
		if time.Now().After(deadline) {
			return fmt.Errorf("listener %s does not accept connections: %v", addr, err)
		}
		time.Sleep(2 * time.Millisecond)
	}
}

func startWorker() (*worker, error) {
	w := &worker{stub: &stubAPI{}, out: bufio.NewWriter(os.Stdout)}

	hs, err := http.New(w.stub, &http.Config{Addr: "127.0.0.1:0", Timeout: time.Second, TaskFrequency: time.Minute})
	if err != nil {
		return nil, err
	}
	gs, err := grpc.New(w.stub, &grpc.Config{Addr: "127.0.0.1:0"})
	if err != nil {
		return nil, err
	}

	errs := make(chan error, 2)
	go hs.Start(errs)
	go gs.Start(errs)
	go func() {
		err := <-errs
		fmt.Fprintf(os.Stderr, "frontx worker: a front end stopped serving: %v\n", err)
		os.Exit(3)
	}()

	w.httpAddr, w.grpcAddr = hs.Addr(), gs.Addr()
	if err := waitListening(w.httpAddr); err != nil {
		return nil, err
	}
	if err := waitListening(w.grpcAddr); err != nil {
		return nil, err
	}

	// one connection per request: a connection dropped by a panicking handler must never be
	// retried on, or mistaken for, another request's connection
	w.hc = &nethttp.Client{Timeout: clientTimeout, Transport: &nethttp.Transport{DisableKeepAlives: true}}

	conn, err := ggrpc.Dial(w.grpcAddr, ggrpc.WithTransportCredentials(insecure.NewCredentials())) //nolint:staticcheck
	if err != nil {
		return nil, err
	}
	w.gc = &clients{
		promises:      pb.NewPromisesClient(conn),
		callbacks:     pb.NewCallbacksClient(conn),
		subscriptions: pb.NewSubscriptionsClient(conn),
		schedules:     pb.NewSchedulesClient(conn),
		locks:         pb.NewLocksClient(conn),
		tasks:         pb.NewTasksClient(conn),
	}
	return w, nil
}

func (w *worker) emit(v any) {
	b, err := json.Marshal(v)
	if err != nil {
		panic(err)
	}
	_, _ = w.out.Write(b)
	_ = w.out.WriteByte('\n')
	if err := w.out.Flush(); err != nil {
		os.Exit(4) // nobody is listening any more
	}
}

// ---------------------------------------------------------------------------------------
// observations
// ---------------------------------------------------------------------------------------

type httpObs struct {
	Code       int      `json:"code"`
	BodyKind   string   `json:"bodyKind"`
	ErrCode    int      `json:"errCode"`
	ErrMessage string   `json:"errMessage"`
	MesgType   string   `json:"mesgType"`  // claim replies: the type of the message and the promises it carries
	Promises   []string `json:"promises"`  // (sorted keys of the "promises" object)
	States     []string `json:"states"`    // the states of the promises of the body, in rendering order
}

type grpcObs struct {
	Code     int      `json:"code"`
	Message  string   `json:"message"`
	Flags    flags    `json:"flags"`
	MesgType string   `json:"mesgType"`
	Promises []string `json:"promises"`
	States   []string `json:"states"`
}

type obs struct {
	E       string  `json:"e"`
	I       int     `json:"i"`
	Op      string  `json:"op"`
	Status  int     `json:"status"`
	Via     string  `json:"via"`
	Shape   string  `json:"shape"`
	Cause   bool    `json:"cause"`
	Proto   string  `json:"proto"`
	Reached bool    `json:"reached"`
	Replied bool    `json:"replied"`
	Dead    bool    `json:"dead"`
	Kstates []int   `json:"kstates"` // the states of the promises of the kernel answer (numbers of pkg/promise)
	HTTP    httpObs `json:"http"`
	GRPC    grpcObs `json:"grpc"`
}

func newObs(v *vector, proto string) *obs {
	return &obs{E: "obs", I: v.I, Op: v.Op, Status: v.Status, Via: v.Via, Shape: v.Shape, Cause: v.Cause, Proto: proto,
		Kstates: []int{},
		HTTP:    httpObs{Promises: []string{}, States: []string{}}, GRPC: grpcObs{Promises: []string{}, States: []string{}}}
}

func classifyBody(body []byte) (kind string, code int, message string) {
	t := bytes.TrimSpace(body)
	if len(t) == 0 || string(t) == "null" {
		return "empty", 0, ""
	}
	var v any
	if err := json.Unmarshal(t, &v); err == nil {
		if m, ok := v.(map[string]any); ok {
			if e, ok := m["error"]; ok {
				if em, ok := e.(map[string]any); ok {
					if c, ok := em["code"].(float64); ok {
						code = int(c)
					}
					if s, ok := em["message"].(string); ok {
						message = s
					}
				}
				return "error", code, message
			}
		}
	}
	return "resource", 0, ""
}

// jsonStates collects the "state" of every promise object (it has id, state and timeout) of a
// decoded body: arrays in order, objects by key.
func jsonStates(v any, out *[]string) {
	switch x := v.(type) {
	case []any:
		for _, e := range x {
			jsonStates(e, out)
		}
	case map[string]any:
		_, hasId := x["id"]
		_, hasTimeout := x["timeout"]
		if st, ok := x["state"].(string); ok && hasId && hasTimeout {
			*out = append(*out, st)
			return
		}
		keys := make([]string, 0, len(x))
		for k := range x {
			keys = append(keys, k)
		}
		sort.Strings(keys)
		for _, k := range keys {
			jsonStates(x[k], out)
		}
	}
}

func (w *worker) sendHTTP(r *lreq) (o httpObs, replied bool) {
	o.Promises = []string{}
	o.States = []string{}
	hr := r.http()
	if hr == nil {
		return o, false
	}
	var body io.Reader
	if hr.body != nil {
		body = bytes.NewReader(hr.body)
	}
	req, err := nethttp.NewRequest(hr.method, "http://"+w.httpAddr+hr.path, body)
	if err != nil {
		fmt.Fprintf(os.Stderr, "frontx worker: cannot build request %s %s: %v\n", hr.method, hr.path, err)
		return o, false
	}
	if hr.body != nil {
		req.Header.Set("Content-Type", "application/json")
	}
	for k, v := range hr.hdr {
		req.Header.Set(k, v)
	}
	resp, err := w.hc.Do(req)
	if err != nil {
		return o, false
	}
	defer resp.Body.Close()
	b, _ := io.ReadAll(resp.Body)
	o.Code = resp.StatusCode
	o.BodyKind, o.ErrCode, o.ErrMessage = classifyBody(b)
	o.Promises = []string{}
	var anyDoc any
	if json.Unmarshal(b, &anyDoc) == nil {
		jsonStates(anyDoc, &o.States)
	}
	var doc map[string]any
	if json.Unmarshal(b, &doc) == nil {
		if t, ok := doc["type"].(string); ok {
			o.MesgType = t
		}
		if ps, ok := doc["promises"].(map[string]any); ok {
			for k := range ps {
				o.Promises = append(o.Promises, k)
			}
			sort.Strings(o.Promises)
		}
	}
	return o, true
}

func (w *worker) sendGRPC(r *lreq) (o grpcObs, replied bool) {
	o.Promises = []string{}
	o.States = []string{}
	ctx, cancel := context.WithTimeout(context.Background(), clientTimeout)
	defer cancel()
	f, err := r.grpc(ctx, w.gc)
	o.Promises = []string{}
	if err != nil {
		st := status.Convert(err)
		o.Code, o.Message = int(st.Code()), st.Message()
		return o, true
	}
	o.Flags = f
	o.MesgType, o.Promises = f.MesgType, f.Promises
	if f.States != nil {
		o.States = f.States
	}
	if o.Promises == nil {
		o.Promises = []string{}
	}
	return o, true
}

// ---------------------------------------------------------------------------------------
// mode -vectors
// ---------------------------------------------------------------------------------------

type beginLine struct {
	E     string `json:"e"`
	I     int    `json:"i"`
	Proto string `json:"proto"`
	Pos   int    `json:"pos"`
}

func readVectors(path string) ([]*vector, error) {
	b, err := os.ReadFile(path)
	if err != nil {
		return nil, err
	}
	var vs []*vector
	for n, line := range strings.Split(string(b), "\n") {
		line = strings.TrimSpace(line)
		if line == "" {
			continue
		}
		v := &vector{}
		if err := json.Unmarshal([]byte(line), v); err != nil {
			return nil, fmt.Errorf("%s:%d: %v", path, n+1, err)
		}
		if !knownOp(v.Op) {
			return nil, fmt.Errorf("%s:%d: unknown op %q", path, n+1, v.Op)
		}
		if v.Via != "response" && v.Via != "error" {
			return nil, fmt.Errorf("%s:%d: unknown via %q", path, n+1, v.Via)
		}
		if v.Via == "response" && v.Shape != "full" && v.Shape != "min" && v.Shape != "absent" && v.Shape != "invoke" && v.Shape != "resume" && v.Shape != "notify" {
			return nil, fmt.Errorf("%s:%d: unknown shape %q", path, n+1, v.Shape)
		}
		vs = append(vs, v)
	}
	return vs, nil
}

func (w *worker) runVectors(vs []*vector, from int) {
	for pos := from; pos < 2*len(vs); pos++ {
		v, proto := vs[pos/2], protos[pos%2]
		w.emit(&beginLine{E: "begin", I: v.I, Proto: proto, Pos: pos})

		ans, aerr := v.answer()
		w.stub.program(ans, aerr)
		o := newObs(v, proto)
		if ans != nil {
			o.Kstates = kernelStates(ans)
		}
		r := canonical(v.Op)
		if proto == "http" {
			o.HTTP, o.Replied = w.sendHTTP(r)
		} else {
			o.GRPC, o.Replied = w.sendGRPC(r)
		}
		o.Reached = len(w.stub.received()) > 0
		w.emit(o)
	}
}

// ---------------------------------------------------------------------------------------
// mode -pairs
// ---------------------------------------------------------------------------------------

type halfLine struct {
	E     string         `json:"e"`
	I     int            `json:"i"`
	Proto string         `json:"proto"`
	Kind  string         `json:"kind"`
	Args  map[string]any `json:"args"`
}

func noCursor(string, int64) string { return "" }

func (w *worker) runPairs(rs []*lreq, from int) {
	for pos := from; pos < 2*len(rs); pos++ {
		r, proto := rs[pos/2], protos[pos%2]
		w.emit(&beginLine{E: "begin", I: pos / 2, Proto: proto, Pos: pos})

		// any successful answer will do: the subject here is the request
		w.stub.program(buildResponse(r.op, int(t_api.StatusOK), "full"), nil)
		var replied bool
		var note string
		if proto == "http" {
			var o httpObs
			o, replied = w.sendHTTP(r)
			note = fmt.Sprintf("http %d %s %d %s", o.Code, o.BodyKind, o.ErrCode, o.ErrMessage)
		} else {
			var o grpcObs
			o, replied = w.sendGRPC(r)
			note = fmt.Sprintf("grpc %d %s", o.Code, o.Message)
		}

		h := &halfLine{E: "half", I: pos / 2, Proto: proto, Kind: "UNREACHED", Args: map[string]any{}}
		if got := w.stub.received(); len(got) > 0 {
			h.Kind, h.Args = project.Request(got[0], noCursor)
			if len(got) > 1 {
				fmt.Fprintf(os.Stderr, "frontx worker: %s/%s over %s reached the kernel %d times\n", r.op, r.variant, proto, len(got))
			}
		} else {
			fmt.Fprintf(os.Stderr, "frontx worker: %s/%s over %s did not reach the kernel (replied=%v, %s)\n", r.op, r.variant, proto, replied, note)
		}
		w.emit(h)
	}
}
