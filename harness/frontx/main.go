// frontx observes the two real front ends (HTTP/gin and gRPC) of the server over a stub
// kernel.  It never judges; it writes down what real clients saw.
//
//	frontx -vectors <file> -out <obs.ndjson>   how is a kernel answer (status, shape, error) translated?
//	frontx -pairs -out <pairs.ndjson>          how is the same logical request translated by either front end?
//
// A panic in a gRPC handler kills the serving process and a panic in a gin handler drops the
// connection, so the process that supervises does not serve: it re-executes itself as a
// worker (-worker ... -from <k> -fromproto <p>), copies the worker's observations, and when
// the worker dies it records that for the step the worker had begun and starts another
// worker at the next step.
package main

import (
	"bufio"
	"bytes"
	"encoding/json"
	"flag"
	"fmt"
	"io"
	"os"
	"os/exec"
	"strconv"
	"time"

	"github.com/resonatehq/resonate/internal/verif/project"
)

func fatal(format string, a ...any) {
	fmt.Fprintf(os.Stderr, "frontx: "+format+"\n", a...)
	os.Exit(2)
}

func main() {
	vectorsPath := flag.String("vectors", "", "vectors file (ndjson): mode 1")
	pairs := flag.Bool("pairs", false, "request translation pairs: mode 2")
	outPath := flag.String("out", "", "output file (ndjson)")
	isWorker := flag.Bool("worker", false, "internal: serve and observe, print to stdout")
	from := flag.Int("from", 0, "internal: first vector / pair index of the worker")
	fromProto := flag.String("fromproto", "http", "internal: first protocol of the worker at index -from")
	childLog := flag.String("childlog", "", "append the workers' stderr (panic traces, server logs) to this file; default: discard")
	flag.Parse()

	if (*vectorsPath == "") == !*pairs {
		fatal("exactly one of -vectors <file> and -pairs is required")
	}

	var vs []*vector
	var rs []*lreq
	if *pairs {
		rs = variants()
	} else {
		var err error
		if vs, err = readVectors(*vectorsPath); err != nil {
			fatal("%v", err)
		}
	}

	if *isWorker {
		pi := protoIndex(*fromProto)
		if pi < 0 || *from < 0 {
			fatal("bad -from/-fromproto")
		}
		w, err := startWorker()
		if err != nil {
			fmt.Fprintf(os.Stderr, "frontx worker: cannot start: %v\n", err)
			os.Exit(3)
		}
		w.emit(map[string]any{"e": "ready", "http": w.httpAddr, "grpc": w.grpcAddr})
		if *pairs {
			w.runPairs(rs, 2**from+pi)
		} else {
			w.runVectors(vs, 2**from+pi)
		}
		os.Exit(0)
	}

	if *outPath == "" {
		fatal("-out is required")
	}
	outFile, err := os.Create(*outPath)
	if err != nil {
		fatal("%v", err)
	}
	out := bufio.NewWriter(outFile)

	var logW io.Writer = io.Discard
	if *childLog != "" {
		f, err := os.OpenFile(*childLog, os.O_CREATE|os.O_APPEND|os.O_WRONLY, 0o644)
		if err != nil {
			fatal("%v", err)
		}
		defer f.Close()
		logW = f
	}

	writeLine := func(v any) {
		b, err := json.Marshal(v)
		if err != nil {
			fatal("%v", err)
		}
		_, _ = out.Write(b)
		_ = out.WriteByte('\n')
	}

	sup := &supervisor{log: logW}
	n := 0
	if *pairs {
		sup.total = 2 * len(rs)
		sup.args = func(pos int) []string {
			return []string{"-worker", "-pairs", "-from", strconv.Itoa(pos / 2), "-fromproto", protos[pos%2]}
		}
		halves := make([]any, sup.total)
		sup.result = func(pos int, line []byte) {
			var h struct {
				Kind string `json:"kind"`
				Args any    `json:"args"`
			}
			dec := json.NewDecoder(bytes.NewReader(line))
			dec.UseNumber()
			if err := dec.Decode(&h); err != nil {
				fatal("unreadable worker line %q: %v", line, err)
			}
			halves[pos] = map[string]any{"kind": h.Kind, "args": h.Args}
		}
		sup.dead = func(pos int) {
			halves[pos] = map[string]any{"kind": "DEAD", "args": []any{}}
		}
		sup.run()
		for k, r := range rs {
			writeLine(project.NoEmptyMaps(map[string]any{
				"e": "pair", "op": r.op, "variant": r.variant, "http": halves[2*k], "grpc": halves[2*k+1],
			}))
			n++
		}
	} else {
		sup.total = 2 * len(vs)
		sup.args = func(pos int) []string {
			return []string{"-worker", "-vectors", *vectorsPath, "-from", strconv.Itoa(pos / 2), "-fromproto", protos[pos%2]}
		}
		sup.result = func(pos int, line []byte) {
			_, _ = out.Write(line)
			_ = out.WriteByte('\n')
			n++
		}
		sup.dead = func(pos int) {
			o := newObs(vs[pos/2], protos[pos%2])
			o.Dead = true
			writeLine(o)
			n++
		}
		sup.run()
	}

	if err := out.Flush(); err != nil {
		fatal("%v", err)
	}
	if err := outFile.Close(); err != nil {
		fatal("%v", err)
	}
	fmt.Fprintf(os.Stderr, "frontx: %d observations, %d child deaths\n", n, sup.deaths)
}

// ---------------------------------------------------------------------------------------
// the supervisor
// ---------------------------------------------------------------------------------------

// Steps are numbered pos = 2*index + protocol (0 http, 1 grpc).  A worker started at pos
// prints, for each step, a "begin" line and then one result line.
type supervisor struct {
	total  int
	args   func(pos int) []string
	result func(pos int, line []byte) // the worker's result line for step pos
	dead   func(pos int)              // the worker died during step pos
	log    io.Writer
	deaths int
}

const (
	maxStartFailures = 3
	silenceLimit     = 20 * time.Second // a step takes at most the client timeout (3 s)
)

func (s *supervisor) run() {
	pos, startFailures := 0, 0
	for pos < s.total {
		begun, next := s.runWorker(pos)
		if next >= s.total {
			return
		}
		// the worker is gone although there are steps left
		if begun {
			s.deaths++
			s.dead(next)
			pos, startFailures = next+1, 0
			continue
		}
		if next > pos {
			// it died between two steps: nothing to attribute, go on from there
			s.deaths++
			pos, startFailures = next, 0
			continue
		}
		startFailures++
		if startFailures >= maxStartFailures {
			fatal("the worker cannot be started (%d attempts at step %d); use -childlog to see why", startFailures, pos)
		}
	}
}

// runWorker runs one worker from step pos until it ends.  It returns the first step without
// a result and whether the worker had begun that step.
func (s *supervisor) runWorker(pos int) (begun bool, next int) {
	cmd := exec.Command(os.Args[0], s.args(pos)...)
	cmd.Stderr = s.log
	stdout, err := cmd.StdoutPipe()
	if err != nil {
		fatal("%v", err)
	}
	if err := cmd.Start(); err != nil {
		fatal("cannot execute %s: %v", os.Args[0], err)
	}

	lines := make(chan []byte)
	go func() {
		defer close(lines)
		rd := bufio.NewReaderSize(stdout, 1<<20)
		for {
			line, err := rd.ReadBytes('\n')
			if err != nil {
				return // a last line without newline is a line the worker did not finish
			}
			lines <- bytes.TrimRight(line, "\n")
		}
	}()

	next = pos
	timer := time.NewTimer(silenceLimit)
	defer timer.Stop()
loop:
	for {
		select {
		case line, ok := <-lines:
			if !ok {
				break loop
			}
			timer.Reset(silenceLimit) // go >= 1.23 timers: no stale tick after Reset

			var head struct {
				E   string `json:"e"`
				Pos int    `json:"pos"`
			}
			if err := json.Unmarshal(line, &head); err != nil {
				fatal("unreadable worker line %q: %v", line, err)
			}
			switch head.E {
			case "ready":
			case "begin":
				if head.Pos != next {
					fatal("worker began step %d, expected %d", head.Pos, next)
				}
				begun = true
			default:
				if !begun {
					fatal("worker result without begin at step %d: %s", next, line)
				}
				s.result(next, line)
				next++
				begun = false
			}
		case <-timer.C:
			fmt.Fprintf(os.Stderr, "frontx: worker silent for %v at step %d, killing it\n", silenceLimit, next)
			_ = cmd.Process.Kill()
			for range lines {
			}
			break loop
		}
	}
	_ = cmd.Wait()
	return begun, next
}
