package main

// Logical requests and their two renderings: an HTTP request for the gin front end and a
// call on the generated pb clients for the gRPC front end.  A logical request says what a
// client means; each rendering says it the way that protocol's clients say it.

import (
	"context"
	"encoding/base64"
	"encoding/json"
	"fmt"
	"net/url"
	"sort"

	"github.com/resonatehq/resonate/internal/app/subsystems/api/grpc/pb"
	"google.golang.org/protobuf/proto"
	"google.golang.org/protobuf/reflect/protoreflect"
)

// pbStates walks a gRPC reply (fields in declaration order, lists in order, maps by key) and
// returns the name of every promise state it carries.
func pbStates(m proto.Message) []string {
	out := []string{}
	if m == nil {
		return out
	}
	want := pb.State_PENDING.Descriptor().FullName()
	var walk func(protoreflect.Message)
	walk = func(r protoreflect.Message) {
		fds := r.Descriptor().Fields()
		for i := 0; i < fds.Len(); i++ {
			fd := fds.Get(i)
			switch {
			case fd.IsMap():
				if fd.MapValue().Kind() != protoreflect.MessageKind {
					continue
				}
				mp := r.Get(fd).Map()
				keys := []string{}
				mp.Range(func(k protoreflect.MapKey, _ protoreflect.Value) bool { keys = append(keys, k.String()); return true })
				sort.Strings(keys)
				for _, k := range keys {
					walk(mp.Get(protoreflect.ValueOfString(k).MapKey()).Message())
				}
			case fd.IsList():
				if fd.Kind() != protoreflect.MessageKind {
					continue
				}
				l := r.Get(fd).List()
				for j := 0; j < l.Len(); j++ {
					walk(l.Get(j).Message())
				}
			case fd.Kind() == protoreflect.MessageKind:
				if r.Has(fd) {
					walk(r.Get(fd).Message())
				}
			case fd.Kind() == protoreflect.EnumKind && fd.Enum().FullName() == want:
				out = append(out, string(fd.Enum().Values().ByNumber(r.Get(fd).Enum()).Name()))
			}
		}
	}
	walk(m.ProtoReflect())
	return out
}

type recvSpec struct {
	physical bool
	logical  string // logical receiver name
	ptype    string // physical: type
	pdata    string // physical: data, compact JSON text
}

type lreq struct {
	op      string
	variant string
	get     bool // HTTP: the GET form of the task endpoints

	id      string // promise / schedule / task / callback id
	ikey    string
	strict  bool
	hasVal  bool // param / value / promiseParam present
	headers map[string]string
	data    []byte
	timeout int64
	tags    map[string]string
	state   string // CompletePromise: RESOLVED | REJECTED | REJECTED_CANCELED; SearchPromises: "" | pending | resolved | rejected

	pid     string
	ttl     int64
	counter int

	promiseId     string
	rootPromiseId string
	recv          recvSpec

	desc           string
	cron           string
	promiseTimeout int64
	promiseTags    map[string]string

	q     string
	limit int

	rid string
	eid string
}

// ---------------------------------------------------------------------------------------
// the request catalogue
// ---------------------------------------------------------------------------------------

var (
	fullHeaders = map[string]string{"content-type": "text/plain", "x": "y"}
	fullData    = []byte("hello world")
	fullTags    = map[string]string{"k1": "v1", "resonate:invoke": "poll://default/w1"}
	physRecv    = recvSpec{physical: true, ptype: "poll", pdata: `{"group":"g1","id":"w1"}`}
	logRecv     = recvSpec{logical: "default"}
)

// variants lists, per operation, the well-formed requests of mode -pairs.  The first
// variant of an operation is the canonical request of mode -vectors.
func variants() []*lreq {
	return []*lreq{
		// promises
		{op: "ReadPromise", variant: "min", id: "p1"},
		{op: "ReadPromise", variant: "full", id: "a/b.c/p1"},

		{op: "SearchPromises", variant: "min", q: "*"},
		{op: "SearchPromises", variant: "full", q: "p*.x", state: "pending", tags: map[string]string{"k1": "v1", "k2": "v2"}, limit: 10},
		{op: "SearchPromises", variant: "rejected", q: "*", state: "rejected", limit: 100},
		{op: "SearchPromises", variant: "resolved", q: "p1", state: "resolved", limit: 1},

		{op: "CreatePromise", variant: "min", id: "p1"},
		{op: "CreatePromise", variant: "full", id: "p1", ikey: "ik1", strict: true, hasVal: true, headers: fullHeaders, data: fullData, timeout: 1700000000000, tags: fullTags},
		{op: "CreatePromise", variant: "ikey", id: "p1", ikey: "ik1", timeout: 60000},

		{op: "CreatePromiseAndTask", variant: "min", id: "p1", pid: "pid1"},
		{op: "CreatePromiseAndTask", variant: "full", id: "p1", ikey: "ik1", strict: true, hasVal: true, headers: fullHeaders, data: fullData, timeout: 1700000000000, tags: fullTags, pid: "pid1", ttl: 60000},

		{op: "CompletePromise", variant: "min", id: "p1", state: "RESOLVED"},
		{op: "CompletePromise", variant: "full", id: "p1", state: "RESOLVED", ikey: "ik2", strict: true, hasVal: true, headers: fullHeaders, data: fullData},
		{op: "CompletePromise", variant: "reject", id: "p1", state: "REJECTED", ikey: "ik2", strict: true, hasVal: true, headers: fullHeaders, data: fullData},
		{op: "CompletePromise", variant: "cancel", id: "p1", state: "REJECTED_CANCELED", ikey: "ik2", strict: true, hasVal: true, headers: fullHeaders, data: fullData},
		{op: "CompletePromise", variant: "reject-min", id: "p1", state: "REJECTED"},
		{op: "CompletePromise", variant: "cancel-min", id: "p1", state: "REJECTED_CANCELED"},

		// callbacks, subscriptions
		{op: "CreateCallback", variant: "min", id: "cb1", promiseId: "p1", rootPromiseId: "p0", recv: logRecv},
		{op: "CreateCallback", variant: "full", id: "cb1", promiseId: "p1", rootPromiseId: "p0", timeout: 1700000000000, recv: physRecv},

		{op: "CreateSubscription", variant: "min", id: "sub1", promiseId: "p1", recv: logRecv},
		{op: "CreateSubscription", variant: "full", id: "sub1", promiseId: "p1", timeout: 1700000000000, recv: physRecv},

		// schedules
		{op: "ReadSchedule", variant: "min", id: "s1"},
		{op: "ReadSchedule", variant: "full", id: "a/b.c/s1"},

		{op: "SearchSchedules", variant: "min", q: "*"},
		{op: "SearchSchedules", variant: "full", q: "s*.x", tags: map[string]string{"k1": "v1", "k2": "v2"}, limit: 10},

		{op: "CreateSchedule", variant: "min", id: "s1", cron: "* * * * *", promiseId: "s1.{{.timestamp}}"},
		{op: "CreateSchedule", variant: "full", id: "s1", desc: "every five minutes", cron: "*/5 * * * *", tags: map[string]string{"k1": "v1"},
			promiseId: "s1.{{.timestamp}}", promiseTimeout: 60000, hasVal: true, headers: fullHeaders, data: fullData,
			promiseTags: map[string]string{"pk1": "pv1"}, ikey: "ik3"},

		{op: "DeleteSchedule", variant: "min", id: "s1"},
		{op: "DeleteSchedule", variant: "full", id: "a/b.c/s1"},

		// locks
		{op: "AcquireLock", variant: "min", rid: "r1", eid: "e1", pid: "pid1"},
		{op: "AcquireLock", variant: "full", rid: "r1", eid: "e1", pid: "pid1", ttl: 60000},

		{op: "ReleaseLock", variant: "min", rid: "r1", eid: "e1"},
		{op: "ReleaseLock", variant: "full", rid: "res/1.x", eid: "exec/1.x"},

		{op: "HeartbeatLocks", variant: "min", pid: "pid1"},
		{op: "HeartbeatLocks", variant: "full", pid: "proc/1.x"},

		// tasks
		{op: "ClaimTask", variant: "min", id: "t1", counter: 1, pid: "pid1"},
		{op: "ClaimTask", variant: "full", id: "t1", counter: 3, pid: "pid1", ttl: 60000},
		// the GET form has no body: the front end derives process id and ttl (task frequency = 1m);
		// the gRPC side sends those derived values explicitly
		{op: "ClaimTask", variant: "get", get: true, id: "t1", counter: 2, pid: "t1/2", ttl: 60000},

		{op: "CompleteTask", variant: "min", id: "t1", counter: 1},
		{op: "CompleteTask", variant: "full", id: "t1", counter: 3},
		{op: "CompleteTask", variant: "get", get: true, id: "t1", counter: 2},

		{op: "HeartbeatTasks", variant: "min", pid: "pid1"},
		{op: "HeartbeatTasks", variant: "full", pid: "proc/1.x"},
		{op: "HeartbeatTasks", variant: "get", get: true, id: "t1", counter: 2, pid: "t1/2"},
	}
}

func canonical(op string) *lreq {
	for _, r := range variants() {
		if r.op == op {
			return r
		}
	}
	return nil
}

// ---------------------------------------------------------------------------------------
// HTTP rendering
// ---------------------------------------------------------------------------------------

type httpReq struct {
	method string
	path   string // path and query
	hdr    map[string]string
	body   []byte // nil: no body
}

type jm = map[string]any

func jbody(m jm) []byte {
	b, err := json.Marshal(m)
	if err != nil {
		panic(err)
	}
	return b
}

func (r *lreq) valueJSON() jm {
	v := jm{}
	if len(r.headers) > 0 {
		v["headers"] = r.headers
	}
	if len(r.data) > 0 {
		v["data"] = base64.StdEncoding.EncodeToString(r.data)
	}
	return v
}

func (r *lreq) recvJSON() json.RawMessage {
	if r.recv.physical {
		return json.RawMessage(fmt.Sprintf(`{"type":%s,"data":%s}`, mustJSON(r.recv.ptype), r.recv.pdata))
	}
	return json.RawMessage(mustJSON(r.recv.logical))
}

func mustJSON(v any) string {
	b, err := json.Marshal(v)
	if err != nil {
		panic(err)
	}
	return string(b)
}

func (r *lreq) createPromiseJSON() jm {
	p := jm{"id": r.id}
	if r.hasVal {
		p["param"] = r.valueJSON()
	}
	if r.timeout != 0 {
		p["timeout"] = r.timeout
	}
	if r.tags != nil {
		p["tags"] = r.tags
	}
	return p
}

func (r *lreq) createHeaders() map[string]string {
	h := map[string]string{}
	if r.ikey != "" {
		h["idempotency-key"] = r.ikey
	}
	if r.strict {
		h["strict"] = "true"
	}
	return h
}

func searchQuery(r *lreq, withState bool) string {
	q := url.Values{}
	q.Set("id", r.q)
	if withState && r.state != "" {
		q.Set("state", r.state)
	}
	keys := []string{}
	for k := range r.tags {
		keys = append(keys, k)
	}
	sort.Strings(keys)
	for _, k := range keys {
		q.Set("tags["+k+"]", r.tags[k])
	}
	if r.limit != 0 {
		q.Set("limit", fmt.Sprint(r.limit))
	}
	return q.Encode()
}

func (r *lreq) http() *httpReq {
	switch r.op {
	case "ReadPromise":
		return &httpReq{method: "GET", path: "/promises/" + r.id}
	case "SearchPromises":
		return &httpReq{method: "GET", path: "/promises?" + searchQuery(r, true)}
	case "CreatePromise":
		return &httpReq{method: "POST", path: "/promises", hdr: r.createHeaders(), body: jbody(r.createPromiseJSON())}
	case "CreatePromiseAndTask":
		t := jm{"processId": r.pid}
		if r.ttl != 0 {
			t["ttl"] = r.ttl
		}
		return &httpReq{method: "POST", path: "/promises/task", hdr: r.createHeaders(), body: jbody(jm{"promise": r.createPromiseJSON(), "task": t})}
	case "CompletePromise":
		b := jm{"state": r.state}
		if r.hasVal {
			b["value"] = r.valueJSON()
		}
		return &httpReq{method: "PATCH", path: "/promises/" + r.id, hdr: r.createHeaders(), body: jbody(b)}
	case "CreateCallback":
		b := jm{"Id": r.id, "promiseId": r.promiseId, "rootPromiseId": r.rootPromiseId, "recv": r.recvJSON()}
		if r.timeout != 0 {
			b["timeout"] = r.timeout
		}
		return &httpReq{method: "POST", path: "/callbacks", body: jbody(b)}
	case "CreateSubscription":
		b := jm{"Id": r.id, "promiseId": r.promiseId, "recv": r.recvJSON()}
		if r.timeout != 0 {
			b["timeout"] = r.timeout
		}
		return &httpReq{method: "POST", path: "/subscriptions", body: jbody(b)}
	case "ReadSchedule":
		return &httpReq{method: "GET", path: "/schedules/" + r.id}
	case "SearchSchedules":
		return &httpReq{method: "GET", path: "/schedules?" + searchQuery(r, false)}
	case "CreateSchedule":
		b := jm{"id": r.id, "cron": r.cron, "promiseId": r.promiseId}
		if r.desc != "" {
			b["desc"] = r.desc
		}
		if r.tags != nil {
			b["tags"] = r.tags
		}
		if r.promiseTimeout != 0 {
			b["promiseTimeout"] = r.promiseTimeout
		}
		if r.hasVal {
			b["promiseParam"] = r.valueJSON()
		}
		if r.promiseTags != nil {
			b["promiseTags"] = r.promiseTags
		}
		h := map[string]string{}
		if r.ikey != "" {
			h["idempotency-key"] = r.ikey
		}
		return &httpReq{method: "POST", path: "/schedules", hdr: h, body: jbody(b)}
	case "DeleteSchedule":
		return &httpReq{method: "DELETE", path: "/schedules/" + r.id}
	case "AcquireLock":
		b := jm{"resourceId": r.rid, "executionId": r.eid, "processId": r.pid}
		if r.ttl != 0 {
			b["ttl"] = r.ttl
		}
		return &httpReq{method: "POST", path: "/locks/acquire", body: jbody(b)}
	case "ReleaseLock":
		return &httpReq{method: "POST", path: "/locks/release", body: jbody(jm{"resourceId": r.rid, "executionId": r.eid})}
	case "HeartbeatLocks":
		return &httpReq{method: "POST", path: "/locks/heartbeat", body: jbody(jm{"processId": r.pid})}
	case "ClaimTask":
		if r.get {
			return &httpReq{method: "GET", path: fmt.Sprintf("/tasks/claim/%s/%d", r.id, r.counter)}
		}
		b := jm{"id": r.id, "counter": r.counter, "processId": r.pid}
		if r.ttl != 0 {
			b["ttl"] = r.ttl
		}
		return &httpReq{method: "POST", path: "/tasks/claim", body: jbody(b)}
	case "CompleteTask":
		if r.get {
			return &httpReq{method: "GET", path: fmt.Sprintf("/tasks/complete/%s/%d", r.id, r.counter)}
		}
		return &httpReq{method: "POST", path: "/tasks/complete", body: jbody(jm{"id": r.id, "counter": r.counter})}
	case "HeartbeatTasks":
		if r.get {
			return &httpReq{method: "GET", path: fmt.Sprintf("/tasks/heartbeat/%s/%d", r.id, r.counter)}
		}
		return &httpReq{method: "POST", path: "/tasks/heartbeat", body: jbody(jm{"processId": r.pid})}
	}
	return nil
}

// ---------------------------------------------------------------------------------------
// gRPC rendering
// ---------------------------------------------------------------------------------------

type clients struct {
	promises      pb.PromisesClient
	callbacks     pb.CallbacksClient
	subscriptions pb.SubscriptionsClient
	schedules     pb.SchedulesClient
	locks         pb.LocksClient
	tasks         pb.TasksClient
}

// flags are the outcome fields of the gRPC reply messages.
type flags struct {
	Noop          bool  `json:"noop"`
	Acquired      bool  `json:"acquired"`
	Released      bool  `json:"released"`
	Claimed       bool  `json:"claimed"`
	MesgType      string   `json:"-"`
	Promises      []string `json:"-"`
	States        []string `json:"-"` // the states of the promises of the reply, in rendering order
	Completed     bool  `json:"completed"`
	LocksAffected int64 `json:"locksAffected"`
	TasksAffected int64 `json:"tasksAffected"`
}

func (r *lreq) pbValue() *pb.Value {
	if !r.hasVal {
		return nil
	}
	return &pb.Value{Headers: r.headers, Data: r.data}
}

func (r *lreq) pbRecv() *pb.Recv {
	if r.recv.physical {
		return &pb.Recv{Recv: &pb.Recv_Physical{Physical: &pb.PhysicalRecv{Type: r.recv.ptype, Data: []byte(r.recv.pdata)}}}
	}
	return &pb.Recv{Recv: &pb.Recv_Logical{Logical: r.recv.logical}}
}

func (r *lreq) pbCreatePromise() *pb.CreatePromiseRequest {
	return &pb.CreatePromiseRequest{Id: r.id, IdempotencyKey: r.ikey, Strict: r.strict, Param: r.pbValue(), Timeout: r.timeout, Tags: r.tags}
}

func pbSearchState(s string) pb.SearchState {
	switch s {
	case "pending":
		return pb.SearchState_SEARCH_PENDING
	case "resolved":
		return pb.SearchState_SEARCH_RESOLVED
	case "rejected":
		return pb.SearchState_SEARCH_REJECTED
	}
	return pb.SearchState_SEARCH_ALL
}

// grpc performs the call; the flags are meaningful only when err is nil.
func (r *lreq) grpc(ctx context.Context, c *clients) (flags, error) {
	var f flags
	switch r.op {
	case "ReadPromise":
		res, err := c.promises.ReadPromise(ctx, &pb.ReadPromiseRequest{Id: r.id})
		if err == nil {
			f.States = pbStates(res)
		}
		return f, err
	case "SearchPromises":
		res, err := c.promises.SearchPromises(ctx, &pb.SearchPromisesRequest{Id: r.q, State: pbSearchState(r.state), Tags: r.tags, Limit: int32(r.limit)})
		if err == nil {
			f.States = pbStates(res)
		}
		return f, err
	case "CreatePromise":
		res, err := c.promises.CreatePromise(ctx, r.pbCreatePromise())
		if err == nil {
			f.Noop = res.GetNoop()
				f.States = pbStates(res)
		}
		return f, err
	case "CreatePromiseAndTask":
		res, err := c.promises.CreatePromiseAndTask(ctx, &pb.CreatePromiseAndTaskRequest{
			Promise: r.pbCreatePromise(),
			Task:    &pb.CreatePromiseTaskRequest{ProcessId: r.pid, Ttl: int32(r.ttl)},
		})
		if err == nil {
			f.Noop = res.GetNoop()
				f.States = pbStates(res)
		}
		return f, err
	case "CompletePromise":
		switch r.state {
		case "REJECTED":
			res, err := c.promises.RejectPromise(ctx, &pb.RejectPromiseRequest{Id: r.id, IdempotencyKey: r.ikey, Strict: r.strict, Value: r.pbValue()})
			if err == nil {
				f.Noop = res.GetNoop()
				f.States = pbStates(res)
			}
			return f, err
		case "REJECTED_CANCELED":
			res, err := c.promises.CancelPromise(ctx, &pb.CancelPromiseRequest{Id: r.id, IdempotencyKey: r.ikey, Strict: r.strict, Value: r.pbValue()})
			if err == nil {
				f.Noop = res.GetNoop()
				f.States = pbStates(res)
			}
			return f, err
		default:
			res, err := c.promises.ResolvePromise(ctx, &pb.ResolvePromiseRequest{Id: r.id, IdempotencyKey: r.ikey, Strict: r.strict, Value: r.pbValue()})
			if err == nil {
				f.Noop = res.GetNoop()
				f.States = pbStates(res)
			}
			return f, err
		}
	case "CreateCallback":
		res, err := c.callbacks.CreateCallback(ctx, &pb.CreateCallbackRequest{
			Id: r.id, PromiseId: r.promiseId, RootPromiseId: r.rootPromiseId, Timeout: r.timeout, Recv: r.pbRecv()})
		if err == nil {
			f.Noop = res.GetNoop()
				f.States = pbStates(res)
		}
		return f, err
	case "CreateSubscription":
		res, err := c.subscriptions.CreateSubscription(ctx, &pb.CreateSubscriptionRequest{
			Id: r.id, PromiseId: r.promiseId, Timeout: r.timeout, Recv: r.pbRecv()})
		if err == nil {
			f.Noop = res.GetNoop()
				f.States = pbStates(res)
		}
		return f, err
	case "ReadSchedule":
		_, err := c.schedules.ReadSchedule(ctx, &pb.ReadScheduleRequest{Id: r.id})
		return f, err
	case "SearchSchedules":
		_, err := c.schedules.SearchSchedules(ctx, &pb.SearchSchedulesRequest{Id: r.q, Tags: r.tags, Limit: int32(r.limit)})
		return f, err
	case "CreateSchedule":
		_, err := c.schedules.CreateSchedule(ctx, &pb.CreateScheduleRequest{
			Id: r.id, Description: r.desc, Cron: r.cron, Tags: r.tags, PromiseId: r.promiseId, PromiseTimeout: r.promiseTimeout,
			PromiseParam: r.pbValue(), PromiseTags: r.promiseTags, IdempotencyKey: r.ikey})
		return f, err
	case "DeleteSchedule":
		_, err := c.schedules.DeleteSchedule(ctx, &pb.DeleteScheduleRequest{Id: r.id})
		return f, err
	case "AcquireLock":
		res, err := c.locks.AcquireLock(ctx, &pb.AcquireLockRequest{ResourceId: r.rid, ExecutionId: r.eid, ProcessId: r.pid, Ttl: r.ttl})
		if err == nil {
			f.Acquired = res.GetAcquired()
		}
		return f, err
	case "ReleaseLock":
		res, err := c.locks.ReleaseLock(ctx, &pb.ReleaseLockRequest{ResourceId: r.rid, ExecutionId: r.eid})
		if err == nil {
			f.Released = res.GetReleased()
		}
		return f, err
	case "HeartbeatLocks":
		res, err := c.locks.HeartbeatLocks(ctx, &pb.HeartbeatLocksRequest{ProcessId: r.pid})
		if err == nil {
			f.LocksAffected = int64(res.GetLocksAffected())
		}
		return f, err
	case "ClaimTask":
		res, err := c.tasks.ClaimTask(ctx, &pb.ClaimTaskRequest{Id: r.id, Counter: int32(r.counter), ProcessId: r.pid, Ttl: int32(r.ttl)})
		if err == nil {
			f.Claimed = res.GetClaimed()
			f.States = pbStates(res)
			f.MesgType = res.GetMesg().GetType()
			for k := range res.GetMesg().GetPromises() {
				f.Promises = append(f.Promises, k)
			}
			sort.Strings(f.Promises)
		}
		return f, err
	case "CompleteTask":
		res, err := c.tasks.CompleteTask(ctx, &pb.CompleteTaskRequest{Id: r.id, Counter: int32(r.counter)})
		if err == nil {
			f.Completed = res.GetCompleted()
		}
		return f, err
	case "HeartbeatTasks":
		res, err := c.tasks.HeartbeatTasks(ctx, &pb.HeartbeatTasksRequest{ProcessId: r.pid})
		if err == nil {
			f.TasksAffected = res.GetTasksAffected()
		}
		return f, err
	}
	return f, fmt.Errorf("frontx: unknown operation %q", r.op)
}
