//go:build verif

// procx is a generic scenario executor: every scenario gets its own real `resonate serve`
// process (own ports, own database file), is driven over real HTTP / real gRPC, may kill
// and restart the server, and everything that was seen is written down.  procx never judges.
//
//	procx -scenarios <file> -out <obs.ndjson> [-build] [-bin path] [-dir scratch] [-par N]
package main

import (
	"bufio"
	"bytes"
	"encoding/json"
	"flag"
	"fmt"
	"io"
	"os"
	"os/exec"
	"os/signal"
	"path/filepath"
	"regexp"
	"sync"
	"syscall"
	"time"
)

type scenario struct {
	Cold  bool     `json:"cold"` // the server is not started before the first step (the steps start it)
	Sid   string   `json:"sid"`
	Args  []string `json:"args"`
	Steps []step   `json:"steps"`
}

type step struct {
	Do      string            `json:"do"`
	Name    string            `json:"name"`
	Method  string            `json:"method"`
	Path    string            `json:"path"`
	Headers map[string]string `json:"headers"`
	Body    string            `json:"body"`
	BodyB64 *string           `json:"bodyb64"`
	Rpc     string            `json:"rpc"`
	Msg     json.RawMessage   `json:"msg"`
	Ms      int               `json:"ms"`
	Group   string            `json:"group"`
	ID      string            `json:"id"`
	Reqs    []step            `json:"reqs"`  // burst: requests sent at once, not awaited before the kill
	Until   map[string]any    `json:"until"` // rows / received: repeat until this is there (or ms have passed); what is then seen is reported
	Grow    int64             `json:"grow"`  // burst: kill as soon as the database file has grown by this many bytes (0: after ms)
}

// stepObs is the envelope of every step observation; all keys are always present.
type stepObs struct {
	E       string `json:"e"`
	Sid     string `json:"sid"`
	K       int    `json:"k"`
	Do      string `json:"do"`
	Name    string `json:"name"`
	T       int64  `json:"t"`
	Replied bool   `json:"replied"`
	Code    int    `json:"code"`
	Class   string `json:"class"`
	Body    string `json:"body"`
	JSON    any    `json:"json"`
	Alive   bool   `json:"alive"`
}

type beginObs struct {
	E    string   `json:"e"`
	Sid  string   `json:"sid"`
	Args []string `json:"args"`
}

type endObs struct {
	E        string `json:"e"`
	Sid      string `json:"sid"`
	Alive    bool   `json:"alive"`
	Exit     int    `json:"exit"`
	Panicked bool   `json:"panicked"`
	Log      string `json:"log"`
	Logtail  string `json:"logtail"`
}

func encodeLine(buf *bytes.Buffer, v any) {
	enc := json.NewEncoder(buf)
	enc.SetEscapeHTML(false)
	if err := enc.Encode(v); err != nil {
		panic(err)
	}
}

var (
	serversMu sync.Mutex
	servers   = map[*server]bool{}
)

func track(s *server, on bool) {
	serversMu.Lock()
	defer serversMu.Unlock()
	if on {
		servers[s] = true
	} else {
		delete(servers, s)
	}
}

func killAll() {
	serversMu.Lock()
	defer serversMu.Unlock()
	for s := range servers {
		s.forceKill()
	}
}

func buildServer(bin string) error {
	repo := os.Getenv("VERIF_REPO")
	if repo == "" {
		repo = "/repo"
	}
	cmd := exec.Command("go", "build", "-o", bin, ".")
	cmd.Dir = repo
	env := []string{}
	for _, kv := range os.Environ() {
		skip := false
		for _, p := range []string{"GOFLAGS=", "GOPROXY=", "GOSUMDB=", "GOTOOLCHAIN=", "GOCACHE="} {
			if len(kv) >= len(p) && kv[:len(p)] == p {
				skip = true
			}
		}
		if !skip {
			env = append(env, kv)
		}
	}
	env = append(env, "GOFLAGS=-mod=mod", "GOPROXY=off", "GOSUMDB=off", "GOTOOLCHAIN=local", "GOCACHE="+gocache())
	cmd.Env = env
	out, err := cmd.CombinedOutput()
	if err != nil {
		return fmt.Errorf("go build in %s: %v\n%s", repo, err, out)
	}
	return nil
}

var unsafeName = regexp.MustCompile(`[^A-Za-z0-9_.-]+`)

func readScenarios(path string) ([]*scenario, error) {
	f, err := os.Open(path)
	if err != nil {
		return nil, err
	}
	defer f.Close()
	var out []*scenario
	r := bufio.NewReaderSize(f, 1<<20)
	ln := 0
	for {
		line, err := r.ReadBytes('\n')
		if len(bytes.TrimSpace(line)) > 0 {
			ln++
			sc := &scenario{}
			if e := json.Unmarshal(line, sc); e != nil {
				return nil, fmt.Errorf("%s: scenario %d: %v", path, ln, e)
			}
			if sc.Args == nil {
				sc.Args = []string{}
			}
			out = append(out, sc)
		}
		if err == io.EOF {
			break
		}
		if err != nil {
			return nil, err
		}
	}
	return out, nil
}

func gocache() string {
	if v := os.Getenv("VERIF_HOME"); v != "" {
		return v + "/build/gocache"
	}
	return "/verif/build/gocache"
}

func main() {
	scenFile := flag.String("scenarios", "", "ndjson file, one scenario per line")
	outFile := flag.String("out", "", "observation file (ndjson)")
	build := flag.Bool("build", false, "build the server binary from $VERIF_REPO first")
	bin := flag.String("bin", "/verif/build/resonate", "server binary")
	dir := flag.String("dir", "", "scratch directory (default: a fresh directory under the system temp dir)")
	par := flag.Int("par", 4, "scenarios run in parallel")
	flag.Parse()
	if *scenFile == "" || *outFile == "" {
		fmt.Fprintln(os.Stderr, "usage: procx -scenarios <file> -out <obs.ndjson> [-build] [-bin path] [-dir scratch] [-par N]")
		os.Exit(2)
	}
	t0 := time.Now()
	if *build {
		if err := os.MkdirAll(filepath.Dir(*bin), 0o755); err != nil {
			fmt.Fprintln(os.Stderr, "procx:", err)
			os.Exit(1)
		}
		if err := buildServer(*bin); err != nil {
			fmt.Fprintln(os.Stderr, "procx:", err)
			os.Exit(1)
		}
		fmt.Fprintf(os.Stderr, "procx: built %s in %v\n", *bin, time.Since(t0).Round(time.Millisecond))
	}
	if _, err := os.Stat(*bin); err != nil {
		fmt.Fprintln(os.Stderr, "procx: server binary:", err)
		os.Exit(1)
	}
	scs, err := readScenarios(*scenFile)
	if err != nil {
		fmt.Fprintln(os.Stderr, "procx:", err)
		os.Exit(1)
	}
	if *dir == "" {
		d, err := os.MkdirTemp("", "procx-")
		if err != nil {
			fmt.Fprintln(os.Stderr, "procx:", err)
			os.Exit(1)
		}
		*dir = d
	}
	absDir, err := filepath.Abs(*dir)
	if err != nil {
		fmt.Fprintln(os.Stderr, "procx:", err)
		os.Exit(1)
	}
	if err := os.MkdirAll(filepath.Join(absDir, "logs"), 0o755); err != nil {
		fmt.Fprintln(os.Stderr, "procx:", err)
		os.Exit(1)
	}
	out, err := os.Create(*outFile)
	if err != nil {
		fmt.Fprintln(os.Stderr, "procx:", err)
		os.Exit(1)
	}

	sig := make(chan os.Signal, 1)
	signal.Notify(sig, syscall.SIGINT, syscall.SIGTERM)
	go func() {
		<-sig
		killAll()
		os.Exit(130)
	}()

	if *par < 1 {
		*par = 1
	}
	t1 := time.Now()
	results := make([]*bytes.Buffer, len(scs))
	done := make([]chan struct{}, len(scs))
	for i := range done {
		done[i] = make(chan struct{})
	}
	next := make(chan int)
	var wg sync.WaitGroup
	for w := 0; w < *par; w++ {
		wg.Add(1)
		go func() {
			defer wg.Done()
			for i := range next {
				results[i] = runScenario(i, scs[i], *bin, absDir)
				close(done[i])
			}
		}()
	}
	go func() {
		for i := range scs {
			next <- i
		}
		close(next)
	}()
	// scenarios appear in the output in input order, each one contiguous
	for i := range scs {
		<-done[i]
		if _, err := out.Write(results[i].Bytes()); err != nil {
			fmt.Fprintln(os.Stderr, "procx:", err)
			killAll()
			os.Exit(1)
		}
		results[i] = nil
	}
	wg.Wait()
	if err := out.Close(); err != nil {
		fmt.Fprintln(os.Stderr, "procx:", err)
		os.Exit(1)
	}
	fmt.Fprintf(os.Stderr, "procx: %d scenarios in %v (par %d), logs in %s\n", len(scs), time.Since(t1).Round(time.Millisecond), *par, filepath.Join(absDir, "logs"))
}

func runScenario(idx int, sc *scenario, bin, dir string) *bytes.Buffer {
	buf := &bytes.Buffer{}
	tag := fmt.Sprintf("%04d-%s", idx, unsafeName.ReplaceAllString(sc.Sid, "_"))
	if len(tag) > 120 {
		tag = tag[:120]
	}
	scratch := filepath.Join(dir, "s-"+tag)
	logPath := filepath.Join(dir, "logs", tag+".log")
	_ = os.RemoveAll(scratch)
	_ = os.MkdirAll(scratch, 0o755)
	_ = os.WriteFile(logPath, nil, 0o644)

	srv := &server{bin: bin, extra: sc.Args, db: filepath.Join(scratch, "resonate.db"), logPath: logPath}
	track(srv, true)
	defer track(srv, false)

	encodeLine(buf, beginObs{E: "begin", Sid: sc.Sid, Args: sc.Args})

	// first start: fresh ports; a lost race for a port shows as an early exit, so try again
	if sc.Cold {
		_ = srv.pickPorts()
	}
	for attempt := 0; attempt < 3 && !sc.Cold; attempt++ {
		if err := srv.pickPorts(); err != nil {
			fmt.Fprintf(os.Stderr, "procx: %s: ports: %v\n", sc.Sid, err)
			continue
		}
		if err := srv.startChecked(); err != nil {
			fmt.Fprintf(os.Stderr, "procx: %s: start: %v\n", sc.Sid, err)
			continue
		}
		if srv.waitReady(20*time.Second) && srv.allListening(10*time.Second) {
			break
		}
		if srv.running() {
			break // running but mute: the steps will show it
		}
		if !srv.bindFailed(0) {
			break // it ended for a reason of its own
		}
		_ = os.WriteFile(logPath, nil, 0o644) // (the lost race for a port is machinery: not part of the record)
	}
	srv.ownExit, srv.ownDied = 0, false
	if !srv.running() && !sc.Cold {
		// it never came up (bad args?): that is a death of its own
		srv.noteOwnDeath()
	}

	x := &exec_{sc: sc, srv: srv, listeners: map[string]*listener{}}
	for k := range sc.Steps {
		o := x.run(k, &sc.Steps[k])
		encodeLine(buf, o)
	}

	alive := srv.running()
	if !alive {
		srv.noteOwnDeath()
	}
	x.closeListeners()
	srv.forceKill()
	logBytes, _ := os.ReadFile(logPath)
	panicked, tail := diagnose(logBytes)
	encodeLine(buf, endObs{E: "end", Sid: sc.Sid, Alive: alive, Exit: srv.ownExit, Panicked: panicked, Log: logPath, Logtail: tail})
	_ = os.RemoveAll(scratch)
	return buf
}

var panicMarks = [][]byte{[]byte("panic:"), []byte("fatal error:"), []byte("assertion failed"), []byte("Assert")}

// diagnose: did the log record a panic, and if so the 600 bytes that matter.  A Go crash
// report is the message followed by every goroutine's stack, so the very end of the log is
// some idle goroutine; the excerpt therefore starts at the line of the first marker when
// that is earlier than the last 600 bytes.
func diagnose(log []byte) (bool, string) {
	first := -1
	for _, m := range panicMarks {
		if i := bytes.Index(log, m); i >= 0 && (first < 0 || i < first) {
			first = i
		}
	}
	if first < 0 {
		return false, ""
	}
	start := first
	for start > 0 && log[start-1] != '\n' {
		start--
	}
	if first-start > 200 {
		start = first
	}
	if len(log)-start <= 600 {
		start = len(log) - 600
		if start < 0 {
			start = 0
		}
	}
	end := start + 600
	if end > len(log) {
		end = len(log)
	}
	return true, string(bytes.ToValidUTF8(log[start:end], []byte("?")))
}
