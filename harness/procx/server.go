//go:build verif

package main

import (
	"errors"
	"fmt"
	"io"
	"net"
	"net/http"
	"os"
	"os/exec"
	"strings"
	"sync"
	"syscall"
	"time"
)

// server is the real `resonate serve` process of one scenario, over its incarnations.
type server struct {
	bin     string
	extra   []string
	db      string
	logPath string
	ports   [4]int // http, grpc, poll, metrics

	mu      sync.Mutex
	cmd     *exec.Cmd
	done    chan struct{} // closed when the current incarnation has been waited for
	exit    int           // exit code of the last finished incarnation
	byUs    bool          // the last incarnation was signalled by procx
	ownDied bool          // some incarnation died without procx's doing
	ownExit int
}

var (
	portMu    sync.Mutex
	portsUsed = map[int]bool{}
)

// pickPorts: listen on :0 four times, close, reuse.  Ports handed out before are skipped so
// that parallel scenarios never share one.
func (s *server) pickPorts() error {
	portMu.Lock()
	defer portMu.Unlock()
	var ls []net.Listener
	defer func() {
		for _, l := range ls {
			_ = l.Close()
		}
	}()
	n := 0
	for tries := 0; n < 4 && tries < 200; tries++ {
		l, err := net.Listen("tcp", "127.0.0.1:0")
		if err != nil {
			return err
		}
		ls = append(ls, l)
		p := l.Addr().(*net.TCPAddr).Port
		if portsUsed[p] {
			continue
		}
		portsUsed[p] = true
		s.ports[n] = p
		n++
	}
	if n < 4 {
		return errors.New("no free ports")
	}
	return nil
}

func (s *server) httpAddr() string { return fmt.Sprintf("127.0.0.1:%d", s.ports[0]) }
func (s *server) grpcAddr() string { return fmt.Sprintf("127.0.0.1:%d", s.ports[1]) }
func (s *server) pollAddr() string { return fmt.Sprintf("127.0.0.1:%d", s.ports[2]) }

// startChecked starts the server and, when it ends at once because a port that was free when it was picked has been
// taken by another process meanwhile (machinery: three runs share this machine), picks new ports and starts it again.
func (s *server) startChecked() error {
	for attempt := 0; ; attempt++ {
		var off int64
		if fi, err := os.Stat(s.logPath); err == nil {
			off = fi.Size()
		}
		if err := s.start(); err != nil {
			return err
		}
		_, done := s.current()
		select {
		case <-done:
			if attempt < 3 && s.bindFailed(off) {
				if err := s.pickPorts(); err != nil {
					return err
				}
				continue
			}
			return nil
		case <-time.After(250 * time.Millisecond):
			return nil
		}
	}
}

// allListening: the gRPC and poll listeners are up too (they are bound after the HTTP one; a port lost to another
// process ends the server only then)
func (s *server) allListening(d time.Duration) bool {
	deadline := time.Now().Add(d)
	for _, addr := range []string{s.grpcAddr(), s.pollAddr()} {
		for {
			if !s.running() {
				return false
			}
			c, err := net.DialTimeout("tcp", addr, time.Second)
			if err == nil {
				c.Close()
				break
			}
			if time.Now().After(deadline) {
				return true // mute, not dead: the steps will show it
			}
			time.Sleep(20 * time.Millisecond)
		}
	}
	return true
}

func (s *server) bindFailed(off int64) bool {
	f, err := os.Open(s.logPath)
	if err != nil {
		return false
	}
	defer f.Close()
	if _, err := f.Seek(off, 0); err != nil {
		return false
	}
	b, _ := io.ReadAll(f)
	return strings.Contains(string(b), "address already in use")
}

func (s *server) start() error {
	s.mu.Lock()
	defer s.mu.Unlock()
	if s.cmd != nil && s.done != nil {
		select {
		case <-s.done:
		default:
			return errors.New("already running")
		}
	}
	logf, err := os.OpenFile(s.logPath, os.O_CREATE|os.O_WRONLY|os.O_APPEND, 0o644)
	if err != nil {
		return err
	}
	defer logf.Close() // the child holds its own descriptor
	fmt.Fprintf(logf, "=== procx: start %s http=%d grpc=%d poll=%d metrics=%d\n", time.Now().Format(time.RFC3339Nano), s.ports[0], s.ports[1], s.ports[2], s.ports[3])
	args := []string{"serve",
		"--api-http-addr", s.httpAddr(),
		"--api-grpc-addr", s.grpcAddr(),
		"--aio-sender-plugin-poll-addr", s.pollAddr(),
		"--metrics-addr", fmt.Sprintf("127.0.0.1:%d", s.ports[3]),
		"--aio-store-sqlite-path", s.db,
		"--system-signal-timeout", "50ms",
		"--system-task-enqueue-delay", "200ms",
	}
	args = append(args, s.extra...)
	cmd := exec.Command(s.bin, args...)
	cmd.Stdout = logf
	cmd.Stderr = logf
	cmd.Stdin = nil
	cmd.SysProcAttr = &syscall.SysProcAttr{Setpgid: true}
	if err := cmd.Start(); err != nil {
		return err
	}
	done := make(chan struct{})
	s.cmd, s.done, s.byUs = cmd, done, false
	go func() {
		err := cmd.Wait()
		code := 0
		if err != nil {
			code = -1
			var ee *exec.ExitError
			if errors.As(err, &ee) {
				if ws, ok := ee.Sys().(syscall.WaitStatus); ok {
					switch {
					case ws.Signaled():
						code = 128 + int(ws.Signal())
					case ws.Exited():
						code = ws.ExitStatus()
					}
				} else {
					code = ee.ExitCode()
				}
			}
		}
		s.mu.Lock()
		s.exit = code
		s.mu.Unlock()
		close(done)
	}()
	return nil
}

func (s *server) current() (*exec.Cmd, chan struct{}) {
	s.mu.Lock()
	defer s.mu.Unlock()
	return s.cmd, s.done
}

func (s *server) running() bool {
	_, done := s.current()
	if done == nil {
		return false
	}
	select {
	case <-done:
		return false
	default:
		return true
	}
}

// aliveAfter: is the process still running once d has passed?
func (s *server) aliveAfter(d time.Duration) bool {
	_, done := s.current()
	if done == nil {
		return false
	}
	if d <= 0 {
		select {
		case <-done:
			s.noteOwnDeath()
			return false
		default:
			return true
		}
	}
	select {
	case <-done:
		s.noteOwnDeath()
		return false
	case <-time.After(d):
		return true
	}
}

// noteOwnDeath records the exit code of an incarnation that ended without procx's doing.
func (s *server) noteOwnDeath() {
	s.mu.Lock()
	defer s.mu.Unlock()
	if s.cmd == nil || s.byUs || s.ownDied {
		return
	}
	select {
	case <-s.done:
		s.ownDied, s.ownExit = true, s.exit
	default:
	}
}

func (s *server) exitCode() int {
	s.mu.Lock()
	defer s.mu.Unlock()
	return s.exit
}

// signal sends sig and waits up to d; reports whether the process was gone in time.
func (s *server) signal(sig syscall.Signal, d time.Duration) bool {
	cmd, done := s.current()
	if cmd == nil {
		return false
	}
	select {
	case <-done:
		s.noteOwnDeath() // it was dead already, and not by this signal
		return true
	default:
	}
	s.mu.Lock()
	s.byUs = true
	s.mu.Unlock()
	_ = cmd.Process.Signal(sig)
	select {
	case <-done:
		return true
	case <-time.After(d):
		return false
	}
}

func (s *server) forceKill() {
	cmd, done := s.current()
	if cmd == nil {
		return
	}
	select {
	case <-done:
		return
	default:
	}
	s.mu.Lock()
	s.byUs = true
	s.mu.Unlock()
	_ = cmd.Process.Kill()
	select {
	case <-done:
	case <-time.After(5 * time.Second):
	}
}

var probeClient = &http.Client{Transport: &http.Transport{DisableKeepAlives: true}, Timeout: 10 * time.Second}

func (s *server) probe(timeout time.Duration) (bool, int) {
	c := *probeClient
	c.Timeout = timeout
	res, err := c.Get("http://" + s.httpAddr() + "/promises/__probe__")
	if err != nil {
		return false, 0
	}
	_ = res.Body.Close()
	return true, res.StatusCode
}

// waitReady polls the probe until any HTTP response arrives; gives up early when the
// process is gone.
func (s *server) waitReady(max time.Duration) bool {
	deadline := time.Now().Add(max)
	for time.Now().Before(deadline) {
		if !s.running() {
			return false
		}
		if ok, _ := s.probe(500 * time.Millisecond); ok {
			return true
		}
		time.Sleep(10 * time.Millisecond)
	}
	return false
}
