//go:build verif

package main

import (
	"context"
	"encoding/json"
	"strings"
	"time"

	"github.com/resonatehq/resonate/internal/app/subsystems/api/grpc/pb"
	"google.golang.org/grpc"
	"google.golang.org/grpc/codes"
	"google.golang.org/grpc/credentials/insecure"
	"google.golang.org/grpc/status"
	"google.golang.org/protobuf/encoding/protojson"
	"google.golang.org/protobuf/proto"
)

// rpcCall performs one rpc with the generated client of its service.
type rpcCall struct {
	req  func() proto.Message
	call func(ctx context.Context, cc grpc.ClientConnInterface, req proto.Message) (proto.Message, error)
}

func mk[Req any, PReq interface {
	*Req
	proto.Message
}, Res proto.Message](f func(cc grpc.ClientConnInterface) func(context.Context, PReq, ...grpc.CallOption) (Res, error)) rpcCall {
	return rpcCall{
		req: func() proto.Message { return PReq(new(Req)) },
		call: func(ctx context.Context, cc grpc.ClientConnInterface, req proto.Message) (proto.Message, error) {
			res, err := f(cc)(ctx, req.(PReq))
			if err != nil {
				return nil, err
			}
			return res, nil
		},
	}
}

var rpcs = map[string]rpcCall{
	"ReadPromise": mk(func(cc grpc.ClientConnInterface) func(context.Context, *pb.ReadPromiseRequest, ...grpc.CallOption) (*pb.ReadPromiseResponse, error) {
		return pb.NewPromisesClient(cc).ReadPromise
	}),
	"SearchPromises": mk(func(cc grpc.ClientConnInterface) func(context.Context, *pb.SearchPromisesRequest, ...grpc.CallOption) (*pb.SearchPromisesResponse, error) {
		return pb.NewPromisesClient(cc).SearchPromises
	}),
	"CreatePromise": mk(func(cc grpc.ClientConnInterface) func(context.Context, *pb.CreatePromiseRequest, ...grpc.CallOption) (*pb.CreatePromiseResponse, error) {
		return pb.NewPromisesClient(cc).CreatePromise
	}),
	"CreatePromiseAndTask": mk(func(cc grpc.ClientConnInterface) func(context.Context, *pb.CreatePromiseAndTaskRequest, ...grpc.CallOption) (*pb.CreatePromiseAndTaskResponse, error) {
		return pb.NewPromisesClient(cc).CreatePromiseAndTask
	}),
	"ResolvePromise": mk(func(cc grpc.ClientConnInterface) func(context.Context, *pb.ResolvePromiseRequest, ...grpc.CallOption) (*pb.ResolvePromiseResponse, error) {
		return pb.NewPromisesClient(cc).ResolvePromise
	}),
	"RejectPromise": mk(func(cc grpc.ClientConnInterface) func(context.Context, *pb.RejectPromiseRequest, ...grpc.CallOption) (*pb.RejectPromiseResponse, error) {
		return pb.NewPromisesClient(cc).RejectPromise
	}),
	"CancelPromise": mk(func(cc grpc.ClientConnInterface) func(context.Context, *pb.CancelPromiseRequest, ...grpc.CallOption) (*pb.CancelPromiseResponse, error) {
		return pb.NewPromisesClient(cc).CancelPromise
	}),
	"CreateCallback": mk(func(cc grpc.ClientConnInterface) func(context.Context, *pb.CreateCallbackRequest, ...grpc.CallOption) (*pb.CreateCallbackResponse, error) {
		return pb.NewCallbacksClient(cc).CreateCallback
	}),
	"CreateSubscription": mk(func(cc grpc.ClientConnInterface) func(context.Context, *pb.CreateSubscriptionRequest, ...grpc.CallOption) (*pb.CreateSubscriptionResponse, error) {
		return pb.NewSubscriptionsClient(cc).CreateSubscription
	}),
	"CreateSchedule": mk(func(cc grpc.ClientConnInterface) func(context.Context, *pb.CreateScheduleRequest, ...grpc.CallOption) (*pb.CreatedScheduleResponse, error) {
		return pb.NewSchedulesClient(cc).CreateSchedule
	}),
	"ReadSchedule": mk(func(cc grpc.ClientConnInterface) func(context.Context, *pb.ReadScheduleRequest, ...grpc.CallOption) (*pb.ReadScheduleResponse, error) {
		return pb.NewSchedulesClient(cc).ReadSchedule
	}),
	"SearchSchedules": mk(func(cc grpc.ClientConnInterface) func(context.Context, *pb.SearchSchedulesRequest, ...grpc.CallOption) (*pb.SearchSchedulesResponse, error) {
		return pb.NewSchedulesClient(cc).SearchSchedules
	}),
	"DeleteSchedule": mk(func(cc grpc.ClientConnInterface) func(context.Context, *pb.DeleteScheduleRequest, ...grpc.CallOption) (*pb.DeleteScheduleResponse, error) {
		return pb.NewSchedulesClient(cc).DeleteSchedule
	}),
	"AcquireLock": mk(func(cc grpc.ClientConnInterface) func(context.Context, *pb.AcquireLockRequest, ...grpc.CallOption) (*pb.AcquireLockResponse, error) {
		return pb.NewLocksClient(cc).AcquireLock
	}),
	"ReleaseLock": mk(func(cc grpc.ClientConnInterface) func(context.Context, *pb.ReleaseLockRequest, ...grpc.CallOption) (*pb.ReleaseLockResponse, error) {
		return pb.NewLocksClient(cc).ReleaseLock
	}),
	"HeartbeatLocks": mk(func(cc grpc.ClientConnInterface) func(context.Context, *pb.HeartbeatLocksRequest, ...grpc.CallOption) (*pb.HeartbeatLocksResponse, error) {
		return pb.NewLocksClient(cc).HeartbeatLocks
	}),
	"ClaimTask": mk(func(cc grpc.ClientConnInterface) func(context.Context, *pb.ClaimTaskRequest, ...grpc.CallOption) (*pb.ClaimTaskResponse, error) {
		return pb.NewTasksClient(cc).ClaimTask
	}),
	"CompleteTask": mk(func(cc grpc.ClientConnInterface) func(context.Context, *pb.CompleteTaskRequest, ...grpc.CallOption) (*pb.CompleteTaskResponse, error) {
		return pb.NewTasksClient(cc).CompleteTask
	}),
	"HeartbeatTasks": mk(func(cc grpc.ClientConnInterface) func(context.Context, *pb.HeartbeatTasksRequest, ...grpc.CallOption) (*pb.HeartbeatTasksResponse, error) {
		return pb.NewTasksClient(cc).HeartbeatTasks
	}),
}

func grpcClass(c codes.Code) string {
	switch c {
	case codes.OK:
		return "2xx"
	case codes.InvalidArgument, codes.NotFound, codes.AlreadyExists, codes.PermissionDenied, codes.FailedPrecondition, codes.OutOfRange:
		return "4xx"
	case codes.Internal, codes.Unavailable, codes.Unknown, codes.DeadlineExceeded:
		return "5xx"
	}
	return "other"
}

var brokenConn = []string{
	"error reading from server", "connection refused", "transport is closing", "connection reset",
	"connection error", "error while dialing", "broken pipe", "EOF", "connection closed",
}

func (x *exec_) doGRPC(o *stepObs, st *step, now int64) {
	aliveSet := false
	defer func() {
		if !aliveSet {
			o.Alive = x.srv.aliveAfter(aliveDelay)
		}
	}()

	rc, ok := rpcs[st.Rpc]
	if !ok {
		o.Body = "procx: unknown rpc " + st.Rpc
		return
	}
	req := rc.req()
	text := "{}"
	if len(st.Msg) > 0 {
		raw := string(st.Msg)
		// the message may be given as JSON text inside a JSON string
		var asString string
		if json.Unmarshal(st.Msg, &asString) == nil {
			raw = asString
		}
		text = x.expand(raw, now)
	}
	if err := (protojson.UnmarshalOptions{DiscardUnknown: false}).Unmarshal([]byte(text), req); err != nil {
		o.Body = "procx: msg: " + err.Error()
		return
	}
	// a connection of its own for every call: what breaks is then this call's doing
	conn, err := grpc.NewClient(x.srv.grpcAddr(), grpc.WithTransportCredentials(insecure.NewCredentials()))
	if err != nil {
		o.Body = "procx: " + err.Error()
		return
	}
	defer conn.Close()
	ctx, cancel := context.WithTimeout(context.Background(), 10*time.Second)
	defer cancel()
	res, err := rc.call(ctx, conn, req)
	if err == nil {
		o.Replied, o.Code, o.Class = true, 0, "2xx"
		b, merr := (protojson.MarshalOptions{EmitUnpopulated: true}).Marshal(res)
		if merr != nil {
			o.Body = "procx: reply: " + merr.Error()
			return
		}
		o.JSON = normaliseDoc(b)
		return
	}
	s, isStatus := status.FromError(err)
	if !isStatus {
		o.Code = int(codes.Unknown)
		o.Body = "procx: " + err.Error()
		return
	}
	o.Body = truncate([]byte(s.Message()), 4000)
	switch s.Code() {
	case codes.Unavailable:
		o.Alive = x.srv.aliveAfter(aliveDelay)
		aliveSet = true
		broken := !o.Alive
		for _, m := range brokenConn {
			if strings.Contains(s.Message(), m) {
				broken = true
			}
		}
		if broken {
			// nobody answered: the connection failed or the server died under the call
			o.Code = int(codes.Unknown)
			return
		}
	case codes.DeadlineExceeded, codes.Canceled:
		// the 3 s deadline of this client, not an answer; the class still says 5xx
		o.Code = int(s.Code())
		o.Class = grpcClass(codes.DeadlineExceeded)
		return
	}
	o.Replied = true
	o.Code = int(s.Code())
	o.Class = grpcClass(s.Code())
}
