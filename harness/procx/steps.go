//go:build verif

package main

import (
	"bufio"
	"bytes"
	"context"
	"database/sql"
	"encoding/base64"
	"encoding/json"
	"io"
	"net/http"
	"net/url"
	"os"
	"regexp"
	"strconv"
	"strings"
	"sync"
	"syscall"
	"time"

	_ "github.com/mattn/go-sqlite3"
)

// exec_ runs the steps of one scenario.
type exec_ struct {
	sc        *scenario
	srv       *server
	listeners map[string]*listener
	seen      map[string]any // the JSON reply of every named http step (for @JSON:<step>:<field>@)
	seenMu    sync.Mutex     // (the requests of a burst run concurrently)
}

const aliveDelay = 30 * time.Millisecond

// ---------------------------------------------------------------------------------------
// macros
// ---------------------------------------------------------------------------------------

var (
	nowMacro  = regexp.MustCompile(`@NOW(?:([+-])([0-9]+))?@`)
	jsonMacro = regexp.MustCompile(`@JSON:([A-Za-z0-9_-]+):([A-Za-z0-9_]+)@`)
	longText  = strings.Repeat("a", 10000)
)

func (x *exec_) expand(s string, now int64) string {
	if !strings.Contains(s, "@") {
		return s
	}
	s = nowMacro.ReplaceAllStringFunc(s, func(m string) string {
		g := nowMacro.FindStringSubmatch(m)
		t := now
		if g[1] != "" {
			n, err := strconv.ParseInt(g[2], 10, 64)
			if err != nil {
				return m
			}
			if g[1] == "+" {
				t += n
			} else {
				t -= n
			}
		}
		return strconv.FormatInt(t, 10)
	})
	s = jsonMacro.ReplaceAllStringFunc(s, func(m string) string {
		g := jsonMacro.FindStringSubmatch(m)
		x.seenMu.Lock()
		d := x.seen[g[1]]
		x.seenMu.Unlock()
		if doc, ok := d.(map[string]any); ok {
			if v, ok := doc[g[2]].(string); ok {
				return url.QueryEscape(v)
			}
		}
		return "missing"
	})
	s = strings.ReplaceAll(s, "@LONG@", longText)
	s = strings.ReplaceAll(s, "@SID@", x.sc.Sid)
	return s
}

// ---------------------------------------------------------------------------------------
// dispatch
// ---------------------------------------------------------------------------------------

func (x *exec_) run(k int, st *step) *stepObs {
	now := time.Now().UnixMilli()
	o := &stepObs{E: "step", Sid: x.sc.Sid, K: k, Do: st.Do, Name: st.Name, T: now, Class: "none", JSON: []any{}}
	if st.Until != nil {
		u := map[string]any{}
		for k, v := range st.Until {
			if sv, ok := v.(string); ok {
				v = x.expand(sv, now)
			}
			u[k] = v
		}
		st = &step{Do: st.Do, Name: st.Name, Group: st.Group, ID: st.ID, Ms: st.Ms, Until: u}
	}
	switch st.Do {
	case "http":
		x.doHTTP(o, st, now)
	case "grpc":
		x.doGRPC(o, st, now)
	case "sleep":
		time.Sleep(time.Duration(st.Ms) * time.Millisecond)
		o.Alive = x.srv.aliveAfter(0)
	case "probe":
		ok, code := x.srv.probe(10 * time.Second)
		o.Replied, o.Code = ok, code
		o.Class = httpClass(ok, code)
		o.Alive = x.srv.aliveAfter(0) && ok
	case "listen":
		x.doListen(o, st)
	case "received":
		deadline := time.Now().Add(time.Duration(st.Ms) * time.Millisecond)
		for {
			x.doReceived(o, st)
			if st.Until == nil || receivedHas(o.JSON, st.Until) || !time.Now().Before(deadline) || !x.srv.running() {
				break
			}
			time.Sleep(40 * time.Millisecond)
		}
	case "kill":
		gone := x.srv.signal(syscall.SIGKILL, 5*time.Second)
		o.Replied = gone
		if gone {
			o.Code = x.srv.exitCode()
		}
		o.Alive = x.srv.running()
	case "term":
		gone := x.srv.signal(syscall.SIGTERM, 20*time.Second)
		o.Replied = gone
		if gone {
			o.Code = x.srv.exitCode()
		}
		o.Alive = x.srv.running()
	case "start":
		if x.srv.running() {
			o.Body = "procx: already running"
			o.Replied = x.srv.waitReady(20 * time.Second)
		} else if err := x.srv.startChecked(); err != nil {
			o.Body = "procx: " + err.Error()
		} else {
			o.Replied = x.srv.waitReady(20 * time.Second)
		}
		o.Alive = x.srv.aliveAfter(0)
	case "rows":
		// the rows of the database file; with "until" the look is repeated (every 40 ms, at most ms
		// milliseconds) until the named row is in the named state: on a loaded machine background
		// work takes as long as it takes, what is reported is what is there in the end
		deadline := time.Now().Add(time.Duration(st.Ms) * time.Millisecond)
		for {
			rows := dbRows(x.srv.db)
			o.JSON = rows
			if st.Until == nil || rowsHave(rows, st.Until) || !time.Now().Before(deadline) || !x.srv.running() {
				break
			}
			time.Sleep(40 * time.Millisecond)
		}
		o.Replied = true
		o.Alive = x.srv.aliveAfter(0)
	case "burst":
		x.doBurst(o, st, now)
	case "startkill":
		// a crash during recovery: start, do not wait for readiness, kill after ms
		if err := x.srv.start(); err != nil {
			o.Body = "procx: " + err.Error()
		} else {
			time.Sleep(time.Duration(st.Ms) * time.Millisecond)
			o.Replied = x.srv.signal(syscall.SIGKILL, 5*time.Second)
		}
		o.Alive = x.srv.running()
	case "db":
		o.JSON = dbCounts(x.srv.db)
		o.Replied = true
		o.Alive = x.srv.aliveAfter(0)
	default:
		o.Body = "procx: unknown step"
		o.Alive = x.srv.aliveAfter(0)
	}
	if o.JSON == nil {
		o.JSON = []any{}
	}
	return o
}

func httpClass(replied bool, code int) string {
	switch {
	case !replied:
		return "none"
	case code >= 200 && code < 300:
		return "2xx"
	case code >= 400 && code < 500:
		return "4xx"
	case code >= 500 && code < 600:
		return "5xx"
	}
	return "other"
}

func truncate(b []byte, n int) string {
	if len(b) > n {
		b = b[:n]
	}
	return string(bytes.ToValidUTF8(b, []byte("?")))
}

// ---------------------------------------------------------------------------------------
// http
// ---------------------------------------------------------------------------------------

func (x *exec_) doHTTP(o *stepObs, st *step, now int64) {
	defer func() { o.Alive = x.srv.aliveAfter(aliveDelay) }()
	x.httpOnce(o, st, now)
}

func (x *exec_) httpOnce(o *stepObs, st *step, now int64) {

	var body []byte
	if st.BodyB64 != nil {
		b, err := base64.StdEncoding.DecodeString(*st.BodyB64)
		if err != nil {
			o.Body = "procx: bodyb64: " + err.Error()
			return
		}
		body = b
	} else {
		body = []byte(x.expand(st.Body, now))
	}
	method := st.Method
	if method == "" {
		method = "GET"
	}
	path := x.expand(st.Path, now)
	base := "http://" + x.srv.httpAddr()

	var rd io.Reader
	if len(body) > 0 {
		rd = bytes.NewReader(body)
	}
	req, err := http.NewRequest(method, base+path, rd)
	if err != nil {
		// a path the URL parser refuses: send it verbatim as the request target
		req, err = http.NewRequest(method, base+"/", rd)
		if err != nil {
			o.Body = "procx: " + err.Error()
			return
		}
		req.URL = &url.URL{Scheme: "http", Host: x.srv.httpAddr(), Opaque: path}
	}
	if len(body) > 0 {
		req.Header.Set("Content-Type", "application/json")
	}
	for k, v := range st.Headers {
		v = x.expand(v, now)
		if strings.EqualFold(k, "host") {
			req.Host = v
			continue
		}
		req.Header.Set(k, v)
	}
	req.Close = true
	client := &http.Client{
		Transport:     &http.Transport{DisableKeepAlives: true, DisableCompression: true},
		Timeout:       10 * time.Second,
		CheckRedirect: func(*http.Request, []*http.Request) error { return http.ErrUseLastResponse },
	}
	res, err := client.Do(req)
	if err != nil {
		o.Body = "procx: " + err.Error()
		return
	}
	defer res.Body.Close()
	data, _ := io.ReadAll(io.LimitReader(res.Body, 4<<20))
	o.Replied = true
	o.Code = res.StatusCode
	o.Class = httpClass(true, res.StatusCode)
	o.Body = truncate(data, 4000)
	o.JSON = normaliseDoc(data)
	if st.Name != "" {
		x.seenMu.Lock()
		if x.seen == nil {
			x.seen = map[string]any{}
		}
		x.seen[st.Name] = o.JSON
		x.seenMu.Unlock()
	}
}

// ---------------------------------------------------------------------------------------
// poll listeners (server-sent events)
// ---------------------------------------------------------------------------------------

type listener struct {
	mu     sync.Mutex
	data   []string
	cancel context.CancelFunc
}

func (l *listener) add(s string) {
	l.mu.Lock()
	l.data = append(l.data, s)
	l.mu.Unlock()
}

func (l *listener) snapshot() []string {
	l.mu.Lock()
	defer l.mu.Unlock()
	return append([]string(nil), l.data...)
}

var sseClient = &http.Client{Transport: &http.Transport{DisableKeepAlives: true, DisableCompression: true, ResponseHeaderTimeout: 10 * time.Second}}

func (x *exec_) doListen(o *stepObs, st *step) {
	defer func() { o.Alive = x.srv.aliveAfter(aliveDelay) }()
	key := st.Group + "/" + st.ID
	l := x.listeners[key]
	if l == nil {
		l = &listener{}
		x.listeners[key] = l
	} else if l.cancel != nil {
		l.cancel() // a second listen on the same address replaces the connection, not the record
	}
	ctx, cancel := context.WithCancel(context.Background())
	l.cancel = cancel
	u := "http://" + x.srv.pollAddr() + "/" + url.PathEscape(st.Group) + "/" + url.PathEscape(st.ID)
	req, err := http.NewRequestWithContext(ctx, "GET", u, nil)
	if err != nil {
		o.Body = "procx: " + err.Error()
		return
	}
	req.Header.Set("Accept", "text/event-stream")
	res, err := sseClient.Do(req)
	if err != nil {
		o.Body = "procx: " + err.Error()
		return
	}
	o.Replied = true
	o.Code = res.StatusCode
	o.Class = httpClass(true, res.StatusCode)
	go func() {
		defer res.Body.Close()
		r := bufio.NewReaderSize(res.Body, 1<<16)
		for {
			line, err := r.ReadString('\n')
			if strings.HasPrefix(line, "data:") {
				d := strings.TrimPrefix(line, "data:")
				d = strings.TrimPrefix(d, " ")
				d = strings.TrimRight(d, "\r\n")
				l.add(d)
			}
			if err != nil {
				return
			}
		}
	}()
}

func (x *exec_) doReceived(o *stepObs, st *step) {
	list := []any{}
	if l := x.listeners[st.Group+"/"+st.ID]; l != nil {
		o.Replied = true
		for _, d := range l.snapshot() {
			list = append(list, normaliseValue([]byte(d)))
		}
	}
	o.JSON = list
	o.Alive = x.srv.aliveAfter(0)
}

func (x *exec_) closeListeners() {
	for _, l := range x.listeners {
		if l.cancel != nil {
			l.cancel()
		}
	}
}

// ---------------------------------------------------------------------------------------
// database
// ---------------------------------------------------------------------------------------

func dbCounts(path string) map[string]any {
	out := map[string]any{
		"promises": 0, "tasks": 0, "callbacks": 0, "schedules": 0, "locks": 0,
		"pendingPromises": 0, "orphanCallbacks": 0, "routedWithoutTask": 0,
	}
	if _, err := os.Stat(path); err != nil {
		return out
	}
	db, err := sql.Open("sqlite3", "file:"+path+"?mode=ro&_busy_timeout=2000")
	if err != nil {
		return out
	}
	defer db.Close()
	db.SetMaxOpenConns(1)
	count := func(q string) int {
		var n int
		for attempt := 0; attempt < 3; attempt++ {
			err := db.QueryRow(q).Scan(&n)
			if err == nil {
				return n
			}
			if !strings.Contains(err.Error(), "locked") && !strings.Contains(err.Error(), "busy") {
				return 0 // no such table (yet)
			}
			time.Sleep(20 * time.Millisecond)
		}
		return 0
	}
	out["promises"] = count(`SELECT COUNT(*) FROM promises`)
	out["tasks"] = count(`SELECT COUNT(*) FROM tasks`)
	out["callbacks"] = count(`SELECT COUNT(*) FROM callbacks`)
	out["schedules"] = count(`SELECT COUNT(*) FROM schedules`)
	out["locks"] = count(`SELECT COUNT(*) FROM locks`)
	out["pendingPromises"] = count(`SELECT COUNT(*) FROM promises WHERE state = 1`)
	out["orphanCallbacks"] = count(`SELECT COUNT(*) FROM callbacks c LEFT JOIN promises p ON p.id = c.promise_id WHERE p.id IS NULL OR p.state != 1`)
	return out
}

// rowsHave: is the row named by until ({"table": ..., "id"/"sched": ..., "state": n}) there?
func rowsHave(rows map[string]any, until map[string]any) bool {
	table, _ := until["table"].(string)
	list, _ := rows[table].([]any)
	for _, r := range list {
		m, _ := r.(map[string]any)
		ok := true
		for k, v := range until {
			if k == "table" {
				continue
			}
			if k == "prefix" {
				id, _ := m["id"].(string)
				ws, _ := v.(string)
				ok = ok && strings.HasPrefix(id, ws)
				continue
			}
			switch want := v.(type) {
			case float64:
				got, _ := m[k].(int64)
				ok = ok && got == int64(want)
			default:
				ok = ok && m[k] == v
			}
		}
		if ok {
			return true
		}
	}
	return false
}

// receivedHas: has a message for the task named by until ({"task": id}) arrived?
func receivedHas(v any, until map[string]any) bool {
	list, _ := v.([]any)
	if _, named := until["task"]; !named {
		return len(list) > 0 // any message
	}
	for _, e := range list {
		m, _ := e.(map[string]any)
		t, _ := m["task"].(map[string]any)
		if t != nil && t["id"] == until["task"] {
			return true
		}
	}
	return false
}

// dbRows: the identifying columns of every row, read from the database file itself.
func dbRows(path string) map[string]any {
	out := map[string]any{"ok": false, "err": "", "corrupt": false, "promises": []any{}, "callbacks": []any{}, "tasks": []any{}, "schedules": []any{}, "locks": []any{}}
	if _, err := os.Stat(path); err != nil {
		out["ok"] = true // no file: no rows
		return out
	}
	// read-write: after a kill -9 a hot rollback journal may be waiting, and recovering it (what the
	// server's own first access would do) needs write access to the file
	db, err := sql.Open("sqlite3", "file:"+path+"?mode=rw&_busy_timeout=3000")
	if err != nil {
		out["err"] = err.Error()
		return out
	}
	defer db.Close()
	db.SetMaxOpenConns(1)
	ok := true
	out["err"] = ""
	out["corrupt"] = false
	{
		var verdict string
		if err := db.QueryRow(`PRAGMA integrity_check`).Scan(&verdict); err != nil {
			if strings.Contains(err.Error(), "malformed") || strings.Contains(err.Error(), "not a database") || strings.Contains(err.Error(), "corrupt") {
				out["corrupt"] = true
				out["err"] = err.Error()
			}
		} else if verdict != "ok" {
			out["corrupt"] = true
			out["err"] = "integrity_check: " + verdict
		}
	}
	query := func(q string, n int, mk func(v []any) map[string]any) []any {
		list := []any{}
		var rows *sql.Rows
		var err error
		for attempt := 0; attempt < 5; attempt++ {
			rows, err = db.Query(q)
			if err == nil || !(strings.Contains(err.Error(), "locked") || strings.Contains(err.Error(), "busy")) {
				break
			}
			time.Sleep(30 * time.Millisecond)
		}
		if err != nil {
			if !strings.Contains(err.Error(), "no such table") {
				ok = false
				out["err"] = err.Error()
				if strings.Contains(err.Error(), "malformed") || strings.Contains(err.Error(), "corrupt") {
					out["corrupt"] = true
				}
			}
			return list
		}
		defer rows.Close()
		for rows.Next() {
			v := make([]any, n)
			ptr := make([]any, n)
			for i := range v {
				ptr[i] = &v[i]
			}
			if err := rows.Scan(ptr...); err != nil {
				ok = false
				out["err"] = err.Error()
				return list
			}
			list = append(list, mk(v))
		}
		if err := rows.Err(); err != nil {
			ok = false
			out["err"] = err.Error()
			if strings.Contains(err.Error(), "malformed") || strings.Contains(err.Error(), "corrupt") {
				out["corrupt"] = true
			}
		}
		return list
	}
	str := func(v any) string {
		switch t := v.(type) {
		case []byte:
			return string(t)
		case string:
			return t
		case nil:
			return ""
		}
		return ""
	}
	num := func(v any) int64 {
		if t, ok := v.(int64); ok {
			return t
		}
		return 0
	}
	out["promises"] = query(`SELECT id, state, tags FROM promises ORDER BY id`, 3, func(v []any) map[string]any {
		tags := map[string]string{}
		_ = json.Unmarshal([]byte(str(v[2])), &tags)
		_, routed := tags["resonate:invoke"]
		return map[string]any{"id": str(v[0]), "state": num(v[1]), "routed": routed, "sched": tags["resonate:schedule"]}
	})
	out["callbacks"] = query(`SELECT id, promise_id FROM callbacks ORDER BY id`, 2, func(v []any) map[string]any {
		return map[string]any{"id": str(v[0]), "promiseId": str(v[1])}
	})
	out["tasks"] = query(`SELECT id, state, root_promise_id FROM tasks ORDER BY id`, 3, func(v []any) map[string]any {
		return map[string]any{"id": str(v[0]), "state": num(v[1]), "rootPromiseId": str(v[2])}
	})
	out["schedules"] = query(`SELECT id FROM schedules ORDER BY id`, 1, func(v []any) map[string]any {
		return map[string]any{"id": str(v[0])}
	})
	out["locks"] = query(`SELECT resource_id, execution_id FROM locks ORDER BY resource_id`, 2, func(v []any) map[string]any {
		return map[string]any{"id": str(v[0]), "executionId": str(v[1])}
	})
	out["ok"] = ok
	return out
}

// doBurst sends all requests of the step at once and kills the server ms milliseconds later,
// without waiting for the replies; what was acknowledged before the kill is written down.
func (x *exec_) doBurst(o *stepObs, st *step, now int64) {
	type res struct {
		Name    string `json:"name"`
		Replied bool   `json:"replied"`
		Code    int    `json:"code"`
		Class   string `json:"class"`
	}
	results := make([]res, len(st.Reqs))
	var wg sync.WaitGroup
	for i := range st.Reqs {
		wg.Add(1)
		go func(i int) {
			defer wg.Done()
			r := &st.Reqs[i]
			ro := &stepObs{Class: "none"}
			x.httpOnce(ro, r, now)
			results[i] = res{Name: r.Name, Replied: ro.Replied, Code: ro.Code, Class: ro.Class}
		}(i)
	}
	if st.Grow > 0 {
		// kill in the middle of the writing: as soon as the file has grown by Grow bytes (or after 2 s)
		size := func() int64 {
			if fi, err := os.Stat(x.srv.db); err == nil {
				return fi.Size()
			}
			return 0
		}
		base := size()
		deadline := time.Now().Add(2 * time.Second)
		for time.Now().Before(deadline) && size()-base < st.Grow {
			time.Sleep(100 * time.Microsecond)
		}
	}
	time.Sleep(time.Duration(st.Ms) * time.Millisecond)
	gone := x.srv.signal(syscall.SIGKILL, 5*time.Second)
	wg.Wait()
	list := []any{}
	for _, r := range results {
		list = append(list, map[string]any{"name": r.Name, "replied": r.Replied, "code": r.Code, "class": r.Class})
	}
	o.JSON = list
	o.Replied = gone
	o.Alive = x.srv.running()
}

// ---------------------------------------------------------------------------------------
// normalisation: no JSON null, no {} anywhere
// ---------------------------------------------------------------------------------------

func normalise(v any) any {
	switch t := v.(type) {
	case nil:
		return "null"
	case map[string]any:
		if len(t) == 0 {
			return []any{}
		}
		for k, e := range t {
			t[k] = normalise(e)
		}
		return t
	case []any:
		for i, e := range t {
			t[i] = normalise(e)
		}
		return t
	}
	return v
}

func parseJSON(data []byte) (any, bool) {
	dec := json.NewDecoder(bytes.NewReader(data))
	dec.UseNumber()
	var v any
	if err := dec.Decode(&v); err != nil {
		return nil, false
	}
	if _, err := dec.Token(); err != io.EOF {
		return nil, false // trailing garbage
	}
	return v, true
}

// normaliseDoc: a response body; only objects and arrays count as JSON, everything else is [].
func normaliseDoc(data []byte) any {
	v, ok := parseJSON(data)
	if !ok {
		return []any{}
	}
	switch v.(type) {
	case map[string]any, []any:
		return normalise(v)
	}
	return []any{}
}

// normaliseValue: a received payload; any JSON value counts, unparsable text stays text.
func normaliseValue(data []byte) any {
	v, ok := parseJSON(data)
	if !ok {
		return string(bytes.ToValidUTF8(data, []byte("?")))
	}
	return normalise(v)
}
