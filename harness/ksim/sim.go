// ksim drives the REAL kernel (system.System, every coroutine, gocoro), the real sqlite
// store worker on a file database, the real router and the real sender worker, step by
// step.  The harness owns only the AIO layer: it decides which pending store submission
// commits next, in which batch, at which tick, and whether it fails before or after the
// commit; it owns the clock; and it observes all five tables through a second connection
// after every commit.  Everything it sees is written as one ndjson trace that TLC checks
// against spec/ResonateTrace.tla.  The harness never judges: verdicts come from TLC.
package main

import (
	"database/sql"
	"encoding/json"
	"errors"
	"fmt"
	"os"
	"time"

	"github.com/prometheus/client_golang/prometheus"
	"github.com/resonatehq/resonate/internal/aio"
	"github.com/resonatehq/resonate/internal/api"
	"github.com/resonatehq/resonate/internal/app/coroutines"
	"github.com/resonatehq/resonate/internal/app/subsystems/aio/router"
	"github.com/resonatehq/resonate/internal/app/subsystems/aio/sender"
	"github.com/resonatehq/resonate/internal/app/subsystems/aio/store/sqlite"
	"github.com/resonatehq/resonate/internal/kernel/bus"
	"github.com/resonatehq/resonate/internal/kernel/system"
	"github.com/resonatehq/resonate/internal/kernel/t_aio"
	"github.com/resonatehq/resonate/internal/kernel/t_api"
	"github.com/resonatehq/resonate/internal/metrics"
	"github.com/resonatehq/resonate/internal/verif/project"
	"github.com/resonatehq/resonate/pkg/message"

	_ "github.com/mattn/go-sqlite3"
)

type M = map[string]any

// ---------------------------------------------------------------------------------------
// the harness-owned AIO
// ---------------------------------------------------------------------------------------

type sub struct {
	seq int
	sqe *bus.SQE[t_aio.Submission, t_aio.Completion]
	dt  int64 // tick at which the coroutine yielded it
}

type simAIO struct {
	now  int64
	seq  int
	pend []*sub
	cqes []*bus.CQE[t_aio.Submission, t_aio.Completion]
}

func (a *simAIO) String() string                               { return "AIO(verif)" }
func (a *simAIO) Start() error                                 { return nil }
func (a *simAIO) Stop() error                                  { return nil }
func (a *simAIO) Shutdown()                                    {}
func (a *simAIO) Errors() <-chan error                         { return nil }
func (a *simAIO) Signal(<-chan interface{}) <-chan interface{} { panic("not used") }
func (a *simAIO) Flush(int64)                                  {}
func (a *simAIO) EnqueueCQE(c *bus.CQE[t_aio.Submission, t_aio.Completion]) {
	a.cqes = append(a.cqes, c)
}

func (a *simAIO) Dispatch(s *t_aio.Submission, cb func(*t_aio.Completion, error)) {
	a.EnqueueSQE(&bus.SQE[t_aio.Submission, t_aio.Completion]{Id: s.Tags["id"], Submission: s, Callback: cb})
}

func (a *simAIO) EnqueueSQE(sqe *bus.SQE[t_aio.Submission, t_aio.Completion]) {
	a.seq++
	a.pend = append(a.pend, &sub{seq: a.seq, sqe: sqe, dt: a.now})
}

func (a *simAIO) DequeueCQE(n int) []*bus.CQE[t_aio.Submission, t_aio.Completion] {
	k := n
	if k > len(a.cqes) {
		k = len(a.cqes)
	}
	out := a.cqes[:k]
	a.cqes = a.cqes[k:]
	return out
}

var _ aio.AIO = (*simAIO)(nil)

// ---------------------------------------------------------------------------------------
// recording transport plugin
// ---------------------------------------------------------------------------------------

type recPlugin struct {
	typ     string
	w       *world
	outcome func(msg *aio.Message) (bool, error) // set per send
	full    bool                                 // the plugin's queue is full: Enqueue refuses
}

func (p *recPlugin) String() string           { return "verif:" + p.typ }
func (p *recPlugin) Type() string             { return p.typ }
func (p *recPlugin) Start(chan<- error) error { return nil }
func (p *recPlugin) Stop() error              { return nil }
func (p *recPlugin) Enqueue(m *aio.Message) bool {
	if p.full {
		return false
	}
	p.w.lastMsg = &sentMsg{plugin: p.typ, typ: string(m.Type), data: string(m.Data), body: string(m.Body)}
	ok, err := p.outcome(m)
	m.Done(ok, err)
	return true
}

type sentMsg struct {
	plugin, typ, data, body string
}

// ---------------------------------------------------------------------------------------
// world: one booted server on a database file
// ---------------------------------------------------------------------------------------

type kcfg struct {
	CoroutineMaxSize    int      `json:"coroutineMaxSize"`
	SubmissionBatchSize int      `json:"submissionBatchSize"`
	CompletionBatchSize int      `json:"completionBatchSize"`
	PromiseBatchSize    int      `json:"promiseBatchSize"`
	ScheduleBatchSize   int      `json:"scheduleBatchSize"`
	TaskBatchSize       int      `json:"taskBatchSize"`
	TaskEnqueueDelay    int64    `json:"taskEnqueueDelay"` // ms
	SignalTimeout       int64    `json:"signalTimeout"`    // ms
	ApiSize             int      `json:"apiSize"`
	ExtraSource         bool     `json:"extraSource"` // the router has a configured source besides the built-in one
	Background          []string `json:"background"`
}

type world struct {
	sysCfg   *system.Config // the configuration the kernel was built with
	logTicks bool           // record what every tick did about the background coroutines (C11 workloads)
	cfg      kcfg
	path     string
	tr       *tracer
	aio      *simAIO
	api      api.API
	sys      *system.System
	store    *sqlite.SqliteStore
	router   *router.Router
	sender   *sender.Sender
	plugins  map[string]*recPlugin
	obs      *sql.DB
	now      int64
	lastMsg  *sentMsg
	epoch    int // incremented at every boot; responses of earlier epochs are dropped
	reqKind  map[string]string
	open     map[string]bool // requests without a response yet (this epoch)
	nreq     int
	view     M                                    // the last projection read (the driver aims its requests at what exists)
	chars    map[string]bool                      // ids whose character sequence has been logged (for search patterns)
	onReply  map[string]func(res *t_api.Response) // follow-up actions of the driver (search traversals)
	sortIds  map[string]map[int64]string
	meta     map[string]M // extra fields for the submit event of a request (traversal bookkeeping)
}

var allBackground = []string{"TimeoutPromises", "SchedulePromises", "TimeoutLocks", "EnqueueTasks", "TimeoutTasks"}

func (w *world) boot() error {
	reg := prometheus.NewRegistry()
	mt := metrics.New(reg)
	w.epoch++
	w.aio = &simAIO{now: w.now}
	w.api = api.New(w.cfg.ApiSize, mt)
	w.open = map[string]bool{}

	var err error
	rcfg := &router.Config{Size: 100, Workers: 1}
	if w.cfg.ExtraSource {
		// a configured source under another name than "default": the built-in routing tag keeps working beside it
		rcfg.Sources = []router.SourceConfig{{Name: "extra", Type: "tag", Data: json.RawMessage(`{"key":"verif:route"}`)}}
	}
	if w.router, err = router.New(w.aio, mt, rcfg); err != nil {
		return err
	}
	scfg := &sender.Config{Size: 100}
	scfg.Plugins.Http.Enabled = false
	scfg.Plugins.Poll.Enabled = false
	// the logical receivers the workloads name are configured targets: hand-offs fail only when the harness says so
	scfg.Targets = []sender.TargetConfig{{Name: "w", Type: "poll", Data: json.RawMessage(`{"group":"g","id":"w"}`)},
		{Name: "w1", Type: "poll", Data: json.RawMessage(`{"group":"g","id":"w1"}`)}}
	if w.sender, err = sender.New(w.aio, mt, scfg); err != nil {
		return err
	}
	w.plugins = map[string]*recPlugin{}
	for _, typ := range []string{"poll", "http"} {
		p := &recPlugin{typ: typ, w: w}
		w.plugins[typ] = p
		w.sender.VerifWorker().AddPlugin(p)
	}
	if w.store, err = sqlite.New(w.aio, mt, &sqlite.Config{Size: 100, BatchSize: 100, Path: w.path, TxTimeout: 5 * time.Second}); err != nil {
		return err
	}
	if err = w.store.Start(nil); err != nil {
		return err
	}
	// a short busy timeout for the busy-commit fault, set on the (single) connection rather than
	// in the path: the path stays whatever the store makes of a plain file name
	w.store.VerifDB().SetMaxOpenConns(1)
	if _, err = w.store.VerifDB().Exec("PRAGMA busy_timeout = 60"); err != nil {
		return err
	}
	if w.obs == nil {
		if w.obs, err = sql.Open("sqlite3", "file:"+w.path+"?mode=ro&_busy_timeout=5000"); err != nil {
			return err
		}
	}

	sc := &system.Config{
		Url:                 "http://resonate.test",
		CoroutineMaxSize:    w.cfg.CoroutineMaxSize,
		SubmissionBatchSize: w.cfg.SubmissionBatchSize,
		CompletionBatchSize: w.cfg.CompletionBatchSize,
		PromiseBatchSize:    w.cfg.PromiseBatchSize,
		ScheduleBatchSize:   w.cfg.ScheduleBatchSize,
		TaskBatchSize:       w.cfg.TaskBatchSize,
		TaskEnqueueDelay:    time.Duration(w.cfg.TaskEnqueueDelay) * time.Millisecond,
		SignalTimeout:       time.Duration(w.cfg.SignalTimeout) * time.Millisecond,
	}
	w.sysCfg = sc
	s := system.New(w.api, w.aio, sc, mt)
	s.AddOnRequest(t_api.ReadPromise, coroutines.ReadPromise)
	s.AddOnRequest(t_api.SearchPromises, coroutines.SearchPromises)
	s.AddOnRequest(t_api.CreatePromise, coroutines.CreatePromise)
	s.AddOnRequest(t_api.CreatePromiseAndTask, coroutines.CreatePromiseAndTask)
	s.AddOnRequest(t_api.CompletePromise, coroutines.CompletePromise)
	s.AddOnRequest(t_api.CreateCallback, coroutines.CreateCallback)
	s.AddOnRequest(t_api.CreateSubscription, coroutines.CreateSubscription)
	s.AddOnRequest(t_api.ReadSchedule, coroutines.ReadSchedule)
	s.AddOnRequest(t_api.SearchSchedules, coroutines.SearchSchedules)
	s.AddOnRequest(t_api.CreateSchedule, coroutines.CreateSchedule)
	s.AddOnRequest(t_api.DeleteSchedule, coroutines.DeleteSchedule)
	s.AddOnRequest(t_api.AcquireLock, coroutines.AcquireLock)
	s.AddOnRequest(t_api.ReleaseLock, coroutines.ReleaseLock)
	s.AddOnRequest(t_api.HeartbeatLocks, coroutines.HeartbeatLocks)
	s.AddOnRequest(t_api.ClaimTask, coroutines.ClaimTask)
	s.AddOnRequest(t_api.CompleteTask, coroutines.CompleteTask)
	s.AddOnRequest(t_api.HeartbeatTasks, coroutines.HeartbeatTasks)
	for _, name := range w.cfg.Background {
		switch name {
		case "TimeoutPromises":
			s.AddBackground(name, coroutines.TimeoutPromises)
		case "SchedulePromises":
			s.AddBackground(name, coroutines.SchedulePromises)
		case "TimeoutLocks":
			s.AddBackground(name, coroutines.TimeoutLocks)
		case "EnqueueTasks":
			s.AddBackground(name, coroutines.EnqueueTasks)
		case "TimeoutTasks":
			s.AddBackground(name, coroutines.TimeoutTasks)
		}
	}
	w.sys = s
	return nil
}

// crash: the process dies.  Nothing of the kernel survives; the database file does.
func (w *world) crash() error {
	w.tr.emit(M{"e": "crash", "t": w.now})
	// closing the handle releases the file; the abandoned System and its coroutine
	// goroutines are simply never resumed again.
	_ = w.store.VerifDB().Close()
	if err := w.boot(); err != nil {
		return err
	}
	post, err := project.DB(w.obs)
	if err != nil {
		return err
	}
	w.tr.emit(w.tr.withPost(M{"e": "restart", "t": w.now}, post))
	return nil
}

func (w *world) cursorId(kind string, sortId int64) string {
	tbl := "promises"
	if kind == "schedule" {
		tbl = "schedules"
	}
	if w.sortIds != nil {
		if id, ok := w.sortIds[tbl][sortId]; ok {
			return id
		}
	}
	var id string
	if err := w.obs.QueryRow("SELECT id FROM "+tbl+" WHERE sort_id = ?", sortId).Scan(&id); err != nil {
		return fmt.Sprintf("?sort:%d", sortId)
	}
	return id
}

func (w *world) nextRid() string { return fmt.Sprintf("r%d", w.nreq+1) }

// submit hands one request to the real api queue.
func (w *world) submit(req *t_api.Request) string {
	w.nreq++
	rid := fmt.Sprintf("r%d", w.nreq)
	req.Tags = map[string]string{"id": rid, "name": req.Kind.String(), "protocol": "verif"}
	kind, args := project.Request(req, w.cursorId)
	w.reqKind[rid] = kind
	w.open[rid] = true
	sub := M{"e": "submit", "t": w.now, "r": rid, "kind": kind, "args": args, "trav": "", "page": int64(0), "born": int64(0)}
	if req.Kind == t_api.SearchSchedules && req.SearchSchedules != nil && req.SearchSchedules.SortId != nil {
		// a cursor names a sort id, the trace names the row: when that id has been deleted and created again
		// the row of the cursor is another one than the row of that name (told apart by its creation instant)
		var born int64
		if w.obs.QueryRow("SELECT created_on FROM schedules WHERE sort_id = ?", *req.SearchSchedules.SortId).Scan(&born) == nil {
			sub["born"] = born
		}
	}
	if kind == "SearchPromises" || kind == "SearchSchedules" {
		args["qc"] = split(args["q"].(string))
	}
	if m, ok := w.meta[rid]; ok {
		for k, v := range m {
			sub[k] = v
		}
		delete(w.meta, rid)
	}
	w.tr.emit(sub)
	epoch := w.epoch
	replies := 0
	w.api.EnqueueSQE(&bus.SQE[t_api.Request, t_api.Response]{
		Id:         rid,
		Submission: req,
		Callback: func(res *t_api.Response, err error) {
			if epoch != w.epoch {
				return // a reply of a dead process reaches nobody
			}
			replies++
			delete(w.open, rid)
			ev := M{"e": "respond", "t": w.now, "r": rid, "n": replies}
			if err != nil {
				var e *t_api.Error
				code := int64(-1)
				if errors.As(err, &e) {
					code = int64(e.Code())
				}
				ev["err"] = true
				ev["body"] = project.ErrorResponse(kind, code)
			} else {
				ev["err"] = false
				ev["body"] = project.Response(res, w.cursorId)
			}
			w.tr.emit(ev)
			if f, ok := w.onReply[rid]; ok {
				delete(w.onReply, rid)
				if res != nil {
					f(res)
				}
			}
		},
	})
	return rid
}

func (w *world) tick() {
	w.aio.now = w.now
	w.tr.emit(M{"e": "tick", "t": w.now})
	if !w.logTicks {
		w.sys.Tick(w.now)
		return
	}
	pre := bgState(w.sys.VerifBackground())
	w.sys.Tick(w.now)
	// what the tick did about the background coroutines (judged against Tick.tla)
	w.tr.emit(M{"e": "ticked", "t": w.now, "pool": int64(w.sysCfg.CoroutineMaxSize), "st": w.sysCfg.SignalTimeout.Milliseconds(), "pre": pre, "post": bgState(w.sys.VerifBackground())})
}

func bgState(bs []system.VerifBg) []M {
	out := []M{}
	for _, b := range bs {
		out = append(out, M{"name": b.Name, "last": b.Last, "running": b.Running, "inst": fmt.Sprint(b.Inst)})
	}
	return out
}

// pending submissions of one kind, in yield order
func (w *world) pending(kind t_aio.Kind) []*sub {
	out := []*sub{}
	for _, s := range w.aio.pend {
		if s.sqe.Submission.Kind == kind {
			out = append(out, s)
		}
	}
	return out
}

func (w *world) remove(ss []*sub) {
	drop := map[int]bool{}
	for _, s := range ss {
		drop[s.seq] = true
	}
	keep := w.aio.pend[:0]
	for _, s := range w.aio.pend {
		if !drop[s.seq] {
			keep = append(keep, s)
		}
	}
	w.aio.pend = keep
}

func (w *world) owner(s *sub) (string, string) {
	id := s.sqe.Submission.Tags["id"]
	if _, ok := w.reqKind[id]; ok {
		return id, ""
	}
	return id, s.sqe.Submission.Tags["name"]
}

// route runs one router submission through the real router worker.
func (w *world) route(s *sub, fail bool) {
	w.remove([]*sub{s})
	o, bg := w.owner(s)
	ev := M{"e": "route", "t": w.now, "o": o, "bg": bg, "id": s.sqe.Submission.Router.Promise.Id}
	if fail {
		ev["matched"], ev["recv"], ev["err"] = false, "", true
		w.tr.emit(ev)
		w.aio.EnqueueCQE(&bus.CQE[t_aio.Submission, t_aio.Completion]{Id: s.sqe.Id, Callback: s.sqe.Callback, Error: errors.New("verif: injected router failure")})
		return
	}
	cqe := w.router.Process([]*bus.SQE[t_aio.Submission, t_aio.Completion]{s.sqe})[0]
	ev["err"] = cqe.Error != nil
	ev["matched"], ev["recv"] = false, ""
	if cqe.Completion != nil && cqe.Completion.Router != nil {
		ev["matched"] = cqe.Completion.Router.Matched
		ev["recv"] = string(cqe.Completion.Router.Recv)
	}
	w.tr.emit(ev)
	w.aio.EnqueueCQE(cqe)
}

// send runs one sender submission through the real sender worker with a recording
// plugin; outcome: "ok" (accepted), "fail" (refused), "err" (transport error).
func (w *world) send(s *sub, outcome string) {
	w.remove([]*sub{s})
	for _, p := range w.plugins {
		p.full = outcome == "full"
		p.outcome = func(*aio.Message) (bool, error) {
			switch outcome {
			case "ok":
				return true, nil
			case "fail":
				return false, nil
			default:
				return false, errors.New("verif: injected transport error")
			}
		}
	}
	w.lastMsg = nil
	before := len(w.aio.cqes)
	w.sender.VerifWorker().Process(s.sqe)
	t := s.sqe.Submission.Sender.Task
	o, bg := w.owner(s)
	ev := M{"e": "send", "t": w.now, "dt": s.dt, "o": o, "bg": bg, "task": t.Id, "counter": int64(t.Counter), "type": "?", "handed": w.lastMsg != nil}
	if t.Mesg != nil {
		ev["type"] = string(t.Mesg.Type)
	}
	ev["claimHref"], ev["completeHref"], ev["heartbeatHref"] = s.sqe.Submission.Sender.ClaimHref, s.sqe.Submission.Sender.CompleteHref, s.sqe.Submission.Sender.HeartbeatHref
	ev["promise"] = project.OptPromise(s.sqe.Submission.Sender.Promise)
	if w.lastMsg != nil {
		ev["plugin"], ev["data"] = w.lastMsg.plugin, w.lastMsg.data
		var body any
		if json.Unmarshal([]byte(w.lastMsg.body), &body) == nil {
			ev["body"] = scrubNulls(body)
		} else {
			ev["body"] = M{"?": w.lastMsg.body}
		}
	} else {
		ev["plugin"], ev["data"], ev["body"] = "", "", M{}
	}
	res := "lost"
	if len(w.aio.cqes) == before+1 {
		c := w.aio.cqes[before]
		switch {
		case c.Error != nil:
			res = "err"
		case c.Completion != nil && c.Completion.Sender != nil && c.Completion.Sender.Success:
			res = "ok"
		default:
			res = "fail"
		}
	}
	ev["outcome"] = res
	w.tr.emit(ev)
	_ = message.Invoke
}

func scrubNulls(v any) any {
	switch x := v.(type) {
	case map[string]any:
		for k, e := range x {
			if e == nil {
				delete(x, k)
			} else {
				x[k] = scrubNulls(e)
			}
		}
		return x
	case []any:
		for i := range x {
			if x[i] == nil {
				x[i] = "null"
			} else {
				x[i] = scrubNulls(x[i])
			}
		}
		return x
	case float64:
		if x == float64(int64(x)) {
			return int64(x)
		}
		return fmt.Sprintf("%v", x)
	}
	return v
}

// exec runs the given store submissions as ONE batch through the real store worker
// (one SQL transaction), then reads the tables back through the observer connection.
// fail: "none", "pre" (nothing runs, every submission gets an error), "post" (the batch
// commits, every submission is told it failed).
func (w *world) exec(batch []*sub, fail string) error {
	w.remove(batch)
	txs := []any{}
	if fail == "pre" {
		for _, s := range batch {
			o, bg := w.owner(s)
			txs = append(txs, M{"o": o, "bg": bg, "dt": s.dt, "cmds": cmdInfos(s.sqe.Submission.Store.Transaction, nil)})
			w.aio.EnqueueCQE(&bus.CQE[t_aio.Submission, t_aio.Completion]{Id: s.sqe.Id, Callback: s.sqe.Callback, Error: errors.New("verif: simulated failure before processing")})
		}
		post, err := project.DB(w.obs)
		if err != nil {
			return err
		}
		w.tr.emit(w.tr.withPost(M{"e": "commit", "t": w.now, "fail": "pre", "err": true, "txs": txs}, post))
		return nil
	}
	sqes := make([]*bus.SQE[t_aio.Submission, t_aio.Completion], len(batch))
	for i, s := range batch {
		sqes[i] = s.sqe
	}
	var hold *sql.Tx
	if fail == "busy" {
		// another connection holds a read transaction: the COMMIT of the batch cannot get the
		// exclusive lock and fails with SQLITE_BUSY after the busy timeout
		_, _ = w.store.VerifDB().Exec("PRAGMA busy_timeout = 60")
		if tx, err := w.obs.Begin(); err == nil {
			var n int
			_ = tx.QueryRow("SELECT count(*) FROM promises").Scan(&n)
			hold = tx
		}
	}
	cqes := w.store.Process(sqes)
	if hold != nil {
		_ = hold.Rollback()
	}
	storeErr := false
	for i, c := range cqes {
		o, bg := w.owner(batch[i])
		var results []*t_aio.Result
		if c.Error != nil {
			storeErr = true
		} else if c.Completion != nil && c.Completion.Store != nil {
			results = c.Completion.Store.Results
		}
		txs = append(txs, M{"o": o, "bg": bg, "dt": batch[i].dt, "cmds": cmdInfos(batch[i].sqe.Submission.Store.Transaction, results)})
		if fail == "post" && c.Error == nil {
			c.Completion = nil
			c.Error = errors.New("verif: simulated failure after processing")
		}
		w.aio.EnqueueCQE(c)
	}
	post, err := project.DB(w.obs)
	if err != nil {
		return err
	}
	ev := w.tr.withPost(M{"e": "commit", "t": w.now, "fail": fail, "err": storeErr, "txs": txs}, w.look(post))
	if ev["same"] == true && fail == "none" && !storeErr && bgReadsOnly(batch, w) {
		// a batch of background reads that left the projection unchanged carries nothing the
		// specification uses; it is counted, not logged
		w.tr.skipped++
	} else {
		w.tr.emit(ev)
	}
	// what a dispatch cycle selected, at the moment it selected it
	for i, c := range cqes {
		if c.Error != nil || c.Completion == nil || c.Completion.Store == nil {
			continue
		}
		cmds := batch[i].sqe.Submission.Store.Transaction.Commands
		for j, cmd := range cmds {
			if cmd.Kind == t_aio.ReadSchedules && j < len(c.Completion.Store.Results) && c.Completion.Store.Results[j].ReadSchedules != nil {
				// which schedules a firing cycle took, at the moment it took them
				ids := []any{}
				for _, r := range c.Completion.Store.Results[j].ReadSchedules.Records {
					ids = append(ids, r.Id)
				}
				o, bg := w.owner(batch[i])
				w.tr.emit(M{"e": "due", "t": w.now, "o": o, "bg": bg, "time": cmd.ReadSchedules.NextRunTime, "limit": int64(cmd.ReadSchedules.Limit), "ids": ids})
			}
			if cmd.Kind != t_aio.ReadEnqueueableTasks || j >= len(c.Completion.Store.Results) || c.Completion.Store.Results[j].ReadEnqueueableTasks == nil {
				continue
			}
			tasks := []any{}
			for _, r := range c.Completion.Store.Results[j].ReadEnqueueableTasks.Records {
				tasks = append(tasks, M{"id": r.Id, "counter": int64(r.Counter), "rootId": r.RootPromiseId})
			}
			o, bg := w.owner(batch[i])
			w.tr.emit(M{"e": "select", "t": w.now, "o": o, "bg": bg, "tasks": tasks})
		}
	}
	return nil
}

func bgReadsOnly(batch []*sub, w *world) bool {
	for _, s := range batch {
		if _, bg := w.owner(s); bg == "" {
			return false
		}
		for _, c := range s.sqe.Submission.Store.Transaction.Commands {
			switch c.Kind {
			case t_aio.ReadPromise, t_aio.ReadPromises, t_aio.SearchPromises, t_aio.ReadSchedule, t_aio.ReadSchedules,
				t_aio.SearchSchedules, t_aio.ReadTask, t_aio.ReadTasks, t_aio.ReadEnqueueableTasks, t_aio.ReadLock:
			default:
				return false
			}
		}
	}
	return true
}

// cmdInfos: per command, its kind, the id it targets and the rows it reported.
func cmdInfos(tx *t_aio.Transaction, results []*t_aio.Result) []any {
	out := []any{}
	for i, c := range tx.Commands {
		m := M{"k": c.Kind.String(), "id": "", "rows": int64(-1)}
		var r *t_aio.Result
		if results != nil && i < len(results) {
			r = results[i]
		}
		switch c.Kind {
		case t_aio.ReadPromise:
			m["id"] = c.ReadPromise.Id
			if r != nil && r.ReadPromise != nil {
				m["rows"] = r.ReadPromise.RowsReturned
			}
		case t_aio.ReadPromises:
			if r != nil && r.ReadPromises != nil {
				m["rows"] = r.ReadPromises.RowsReturned
			}
		case t_aio.SearchPromises:
			if r != nil && r.SearchPromises != nil {
				m["rows"] = r.SearchPromises.RowsReturned
			}
		case t_aio.CreatePromise:
			m["id"] = c.CreatePromise.Id
			if r != nil && r.CreatePromise != nil {
				m["rows"] = r.CreatePromise.RowsAffected
			}
		case t_aio.UpdatePromise:
			m["id"] = c.UpdatePromise.Id
			if r != nil && r.UpdatePromise != nil {
				m["rows"] = r.UpdatePromise.RowsAffected
			}
		case t_aio.CreateCallback:
			m["id"] = c.CreateCallback.Id
			if r != nil && r.CreateCallback != nil {
				m["rows"] = r.CreateCallback.RowsAffected
			}
		case t_aio.DeleteCallbacks:
			m["id"] = c.DeleteCallbacks.PromiseId
			if r != nil && r.DeleteCallbacks != nil {
				m["rows"] = r.DeleteCallbacks.RowsAffected
			}
		case t_aio.ReadSchedule:
			m["id"] = c.ReadSchedule.Id
			if r != nil && r.ReadSchedule != nil {
				m["rows"] = r.ReadSchedule.RowsReturned
			}
		case t_aio.ReadSchedules:
			if r != nil && r.ReadSchedules != nil {
				m["rows"] = r.ReadSchedules.RowsReturned
			}
		case t_aio.SearchSchedules:
			if r != nil && r.SearchSchedules != nil {
				m["rows"] = r.SearchSchedules.RowsReturned
			}
		case t_aio.CreateSchedule:
			m["id"] = c.CreateSchedule.Id
			if r != nil && r.CreateSchedule != nil {
				m["rows"] = r.CreateSchedule.RowsAffected
			}
		case t_aio.UpdateSchedule:
			m["id"] = c.UpdateSchedule.Id
			if c.UpdateSchedule.LastRunTime != nil {
				m["last"] = *c.UpdateSchedule.LastRunTime
			}
			if r != nil && r.UpdateSchedule != nil {
				m["rows"] = r.UpdateSchedule.RowsAffected
			}
		case t_aio.DeleteSchedule:
			m["id"] = c.DeleteSchedule.Id
			if r != nil && r.DeleteSchedule != nil {
				m["rows"] = r.DeleteSchedule.RowsAffected
			}
		case t_aio.ReadTask:
			m["id"] = c.ReadTask.Id
			if r != nil && r.ReadTask != nil {
				m["rows"] = r.ReadTask.RowsReturned
			}
		case t_aio.ReadTasks:
			if r != nil && r.ReadTasks != nil {
				m["rows"] = r.ReadTasks.RowsReturned
			}
		case t_aio.ReadEnqueueableTasks:
			if r != nil && r.ReadEnqueueableTasks != nil {
				m["rows"] = r.ReadEnqueueableTasks.RowsReturned
			}
		case t_aio.CreateTask:
			m["id"] = c.CreateTask.Id
			if r != nil && r.CreateTask != nil {
				m["rows"] = r.CreateTask.RowsAffected
			}
		case t_aio.CreateTasks:
			m["id"] = c.CreateTasks.PromiseId
			if r != nil && r.CreateTasks != nil {
				m["rows"] = r.CreateTasks.RowsAffected
			}
		case t_aio.CompleteTasks:
			m["id"] = c.CompleteTasks.RootPromiseId
			if r != nil && r.CompleteTasks != nil {
				m["rows"] = r.CompleteTasks.RowsAffected
			}
		case t_aio.UpdateTask:
			m["id"] = c.UpdateTask.Id
			m["to"] = project.TaskState(c.UpdateTask.State)
			if r != nil && r.UpdateTask != nil {
				m["rows"] = r.UpdateTask.RowsAffected
			}
		case t_aio.HeartbeatTasks:
			m["id"] = c.HeartbeatTasks.ProcessId
			if r != nil && r.HeartbeatTasks != nil {
				m["rows"] = r.HeartbeatTasks.RowsAffected
			}
		case t_aio.CreatePromiseAndTask:
			m["id"] = c.CreatePromiseAndTask.PromiseCommand.Id
			if r != nil && r.CreatePromiseAndTask != nil {
				m["rows"] = r.CreatePromiseAndTask.PromiseRowsAffected
				m["trows"] = r.CreatePromiseAndTask.TaskRowsAffected
			}
		case t_aio.ReadLock:
			m["id"] = c.ReadLock.ResourceId
			if r != nil && r.ReadLock != nil {
				m["rows"] = r.ReadLock.RowsReturned
			}
		case t_aio.AcquireLock:
			m["id"] = c.AcquireLock.ResourceId
			if r != nil && r.AcquireLock != nil {
				m["rows"] = r.AcquireLock.RowsAffected
			}
		case t_aio.ReleaseLock:
			m["id"] = c.ReleaseLock.ResourceId
			if r != nil && r.ReleaseLock != nil {
				m["rows"] = r.ReleaseLock.RowsAffected
			}
		case t_aio.HeartbeatLocks:
			m["id"] = c.HeartbeatLocks.ProcessId
			if r != nil && r.HeartbeatLocks != nil {
				m["rows"] = r.HeartbeatLocks.RowsAffected
			}
		case t_aio.TimeoutLocks:
			if r != nil && r.TimeoutLocks != nil {
				m["rows"] = r.TimeoutLocks.RowsAffected
			}
		}
		out = append(out, m)
	}
	return out
}

// ---------------------------------------------------------------------------------------
// trace writer
// ---------------------------------------------------------------------------------------

type tracer struct {
	f       *os.File
	n       int
	skipped int
	last    string // JSON of the last projection written
}

// withPost attaches the projection; an unchanged projection is written as "same": true
// (lossless: the validator substitutes the database it already knows).
func (w *world) look(post M) M {
	w.view = post
	w.logChars(post)
	w.learnSortIds()
	return post
}

// learnSortIds remembers which row every sort id belongs to (cursors name sort ids; a row
// may have been deleted by the time a reply carrying its sort id is rendered).
func (w *world) learnSortIds() {
	if w.sortIds == nil {
		w.sortIds = map[string]map[int64]string{"promises": {}, "schedules": {}}
	}
	for tbl, m := range w.sortIds {
		rows, err := w.obs.Query("SELECT id, sort_id FROM " + tbl)
		if err != nil {
			continue
		}
		for rows.Next() {
			var id string
			var n int64
			if rows.Scan(&id, &n) == nil {
				m[n] = id
			}
		}
		rows.Close()
	}
}

func split(s string) []any {
	out := []any{}
	for _, r := range s {
		out = append(out, string(r))
	}
	return out
}

// logChars logs, once per id, the id as a sequence of characters: TLC has no substring
// operations on strings, the id pattern matcher of the specification works on sequences.
func (w *world) logChars(post M) {
	if w.chars == nil {
		w.chars = map[string]bool{}
	}
	ids := M{}
	for _, tb := range []string{"promises", "schedules"} {
		t, _ := post[tb].(M)
		for id := range t {
			if !w.chars[id] {
				w.chars[id] = true
				ids[id] = split(id)
			}
		}
	}
	if len(ids) > 0 {
		w.tr.emit(M{"e": "chars", "t": w.now, "ids": ids})
	}
}

func (t *tracer) withPost(ev M, post M) M {
	b, err := json.Marshal(post)
	if err != nil {
		panic(err)
	}
	if string(b) == t.last {
		ev["same"] = true
		ev["post"] = M{}
	} else {
		ev["same"] = false
		ev["post"] = post
		t.last = string(b)
	}
	return ev
}

func (t *tracer) emit(ev M) {
	b, err := json.Marshal(project.NoEmptyMaps(ev))
	if err != nil {
		panic(err)
	}
	t.f.Write(b)
	t.f.Write([]byte("\n"))
	t.n++
}
