package main

import (
	"flag"

	"github.com/resonatehq/resonate/internal/kernel/t_api"
	"fmt"
	"math/rand"
	"os"
	"path/filepath"
	"strings"
)

var baseWeights = map[string]int{
	"ReadPromise": 3, "CreatePromise": 5, "CreatePromiseAndTask": 1, "CompletePromise": 5,
	"CreateCallback": 2, "CreateSubscription": 2, "ClaimTask": 2, "CompleteTask": 1, "HeartbeatTasks": 1,
	"AcquireLock": 1, "ReleaseLock": 1, "HeartbeatLocks": 1,
	"CreateSchedule": 1, "ReadSchedule": 1, "DeleteSchedule": 1, "SearchPromises": 1, "SearchSchedules": 1,
}

func weights(focus string) map[string]int {
	w := map[string]int{}
	switch focus {
	case "promise":
		for _, k := range []string{"ReadPromise", "CreatePromise", "CompletePromise"} {
			w[k] = 4
		}
		w["CreatePromiseAndTask"] = 1
	case "wake":
		w["CreatePromise"], w["CompletePromise"], w["ReadPromise"] = 4, 4, 2
		w["CreateCallback"], w["CreateSubscription"] = 5, 4
		w["ClaimTask"] = 1
	case "task":
		w["CreatePromise"], w["CreatePromiseAndTask"], w["CompletePromise"] = 4, 2, 2
		w["CreateCallback"], w["CreateSubscription"] = 3, 1
		w["ClaimTask"], w["CompleteTask"], w["HeartbeatTasks"] = 7, 3, 3
	case "lock":
		w["AcquireLock"], w["ReleaseLock"], w["HeartbeatLocks"] = 5, 3, 3
	case "search":
		w["CreatePromise"], w["CompletePromise"], w["ReadPromise"] = 6, 3, 1
		w["SearchPromises"], w["SearchSchedules"] = 6, 2
		w["CreateSchedule"], w["DeleteSchedule"] = 2, 1
	case "schedule":
		w["CreateSchedule"], w["ReadSchedule"], w["DeleteSchedule"] = 4, 2, 1
		w["CreatePromise"], w["ReadPromise"] = 1, 1
	default:
		for k, v := range baseWeights {
			w[k] = v
		}
	}
	return w
}

func main() {
	out := flag.String("out", "trace.ndjson", "trace file (appended run after run)")
	dir := flag.String("dir", "", "scratch directory for database files")
	seed := flag.Int64("seed", 1, "seed")
	runs := flag.Int("runs", 1, "number of independent runs")
	steps := flag.Int("steps", 40, "steps per run")
	focus := flag.String("focus", "all", "workload focus: all|promise|wake|task|lock|schedule")
	faults := flag.Float64("faults", 0, "probability of an injected store failure per batch")
	crash := flag.Float64("crash", 0, "probability of a crash per step")
	hostile := flag.Bool("hostile", false, "use ids containing ':'")
	busy := flag.Float64("busy", 0, "probability that a batch's COMMIT finds the database locked by another connection")
	routeerr := flag.Float64("routeerr", 0, "probability of an injected router failure")
	converge := flag.Bool("converge", false, "after the clients stop, run the background coroutines for the bounded number of cycles and log the result (C11)")
	tiny := flag.Bool("tiny", false, "kernel configuration at the bottom of the documented ranges (pool, queues, batches of 1..)")
	flag.Parse()

	if *dir == "" {
		d, err := os.MkdirTemp("", "ksim")
		if err != nil {
			die(err)
		}
		*dir = d
		defer os.RemoveAll(d)
	}
	f, err := os.Create(*out)
	if err != nil {
		die(err)
	}
	defer f.Close()
	tr := &tracer{f: f}

	for i := 0; i < *runs; i++ {
		r := rand.New(rand.NewSource(*seed*1000003 + int64(i)))
		path := filepath.Join(*dir, fmt.Sprintf("run%d.db", i))
		for _, sfx := range []string{"", "-journal", "-wal", "-shm"} {
			os.Remove(path + sfx)
		}
		one := func(lo, hi int) int { return lo + r.Intn(hi-lo+1) }
		small := r.Intn(3) == 0 // every third run uses minimal kernel sizes
		cfg := kcfg{
			CoroutineMaxSize: 100, SubmissionBatchSize: one(1, 10), CompletionBatchSize: []int{1, 2, 3, 3, 5, 5, 8, 10}[r.Intn(8)],
			PromiseBatchSize: one(1, 3), ScheduleBatchSize: one(1, 3), TaskBatchSize: one(1, 3),
			TaskEnqueueDelay: int64(one(1, 4)), SignalTimeout: int64(one(0, 2)), ApiSize: 100,
			Background: append([]string{}, allBackground...),
		}
		if !small {
			cfg.SubmissionBatchSize, cfg.CompletionBatchSize = 100, 100
			cfg.PromiseBatchSize, cfg.ScheduleBatchSize, cfg.TaskBatchSize = one(1, 100), one(1, 100), one(1, 100)
		}
		if *tiny {
			cfg.CoroutineMaxSize = []int{1, 2, 3, 5, 8}[r.Intn(5)]
			cfg.SubmissionBatchSize, cfg.CompletionBatchSize = one(1, 3), one(1, 3)
			cfg.PromiseBatchSize, cfg.ScheduleBatchSize, cfg.TaskBatchSize = one(1, 2), one(1, 2), one(1, 2)
			cfg.ApiSize = one(1, 5)
		}
		// like the repository's "lazy" DST mode, some runs have no time-out sweeper (and some no
		// lease sweeper), so that the lazy paths and long-lived overdue rows are exercised
		if !*converge {
			switch r.Intn(5) {
			case 0:
				cfg.Background = []string{"SchedulePromises", "TimeoutLocks", "EnqueueTasks", "TimeoutTasks"}
			case 1:
				cfg.Background = []string{"TimeoutPromises", "SchedulePromises", "TimeoutLocks", "EnqueueTasks"}
			case 2:
				cfg.Background = []string{"SchedulePromises", "EnqueueTasks"}
			}
		}
		prof := profile{
			Weights: weights(*focus), PFailPre: *faults / 2, PFailPost: *faults / 2, PCrash: *crash,
			PBusy: *busy, PSendFull: 0.1, PRouteErr: *routeerr, PSendOk: 0.6, PSendErr: 0.15, PDelay: []float64{0, 0.3, 0.6}[r.Intn(3)], MaxBatch: one(1, 3),
			Promises: map[bool]int{true: one(4, 7), false: one(2, 3)}[*focus == "search"], HostileIds: *hostile,
		}
		d := &driver{r: r, p: prof, converge: *converge, routedBias: *focus == "task"}
		for j := 0; j < prof.Promises; j++ {
			id := fmt.Sprintf("p%d", j+1)
			if *focus == "search" {
				id = []string{"a.x", "a.y", "b.x", "ab.x", "b", "a.b.x", "ba"}[j%7]
			}
			if *hostile && j > 0 {
				id = strings.Repeat("a:", j) + "b"
			}
			d.pids = append(d.pids, id)
		}
		d.subs = []string{"s1", "s2"}
		d.sched = []string{"sc1", "sc2"}
		d.crons = []string{"* * * * * *", "*/2 * * * * *"}
		w := &world{cfg: cfg, path: path, tr: tr, now: int64(10000 + r.Intn(3000)), reqKind: map[string]string{}, onReply: map[string]func(*t_api.Response){}, meta: map[string]M{}}
		d.w = w
		tr.last = ""
		tr.emit(M{"e": "reset", "t": w.now, "run": i, "seed": *seed, "cfg": cfg, "focus": *focus, "profile": prof})
		if err := w.boot(); err != nil {
			die(err)
		}
		if err := d.run(*steps); err != nil {
			fmt.Fprintf(os.Stderr, "ksim: run %d: %v\n", i, err)
			tr.emit(M{"e": "abort", "t": w.now, "why": err.Error()})
			os.Exit(3)
		}
		w.store.VerifDB().Close()
		w.obs.Close()
	}
	fmt.Printf("ksim: %d runs, %d events -> %s\n", *runs, tr.n, *out)
}

func die(err error) {
	fmt.Fprintln(os.Stderr, "ksim:", err)
	os.Exit(2)
}
