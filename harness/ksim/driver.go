package main

import (
	"encoding/base64"
	"encoding/json"
	"fmt"
	"math/rand"
	"sort"
	"strings"

	"github.com/golang-jwt/jwt"
	sapi "github.com/resonatehq/resonate/internal/app/subsystems/api"
	"github.com/resonatehq/resonate/internal/kernel/t_aio"
	"github.com/resonatehq/resonate/internal/kernel/t_api"
	"github.com/resonatehq/resonate/internal/verif/project"
	"github.com/resonatehq/resonate/pkg/idempotency"
	"github.com/resonatehq/resonate/pkg/promise"
)

// profile: relative weights of request kinds and fault / schedule knobs of a random run
type profile struct {
	Weights    map[string]int `json:"weights"`
	PFailPre   float64        `json:"pFailPre"`
	PFailPost  float64        `json:"pFailPost"`
	PCrash     float64        `json:"pCrash"`
	PRouteErr  float64        `json:"pRouteErr"`
	PSendOk    float64        `json:"pSendOk"`
	PSendErr   float64        `json:"pSendErr"`
	PBusy      float64        `json:"pBusy"` // probability that the COMMIT of a batch hits a locked database
	PSendFull  float64        `json:"pSendFull"`
	PDelay     float64        `json:"pDelay"` // probability that a pending store submission is held back this step
	MaxBatch   int            `json:"maxBatch"`
	Promises   int            `json:"promises"`
	HostileIds bool           `json:"hostileIds"`
}

type driver struct {
	w          *world
	r          *rand.Rand
	p          profile
	pids       []string
	instants   []int64 // interesting clock positions (deadlines, lease ends)
	subs       []string
	sched      []string
	crons      []string
	converge   bool
	ntrav      int
	routedBias bool // task-centred workloads: most promises are routed
	settle     bool // convergence phase: every cycle finishes before the next begins
	badTpl     bool // the first schedule id is (often) created with an id template that cannot be rendered
}

// ---- search: every search goes through the real API helper (state names, limits, cursor
// decoding) and every traversal follows the real (JWT) cursors to the end

func (d *driver) pattern() string {
	return d.pick([]string{"*", "a*", "*x", "a*x", "*.*", "b*", "a.x", "*b*", "*.x"})
}

func (d *driver) searchPromises() *t_api.Request {
	h := sapi.New(nil, "verif")
	tags := map[string]string(nil)
	if d.r.Intn(4) == 0 {
		tags = map[string]string{"a": "b"}
	}
	req, e := h.SearchPromises(d.pattern(), d.pick([]string{"", "pending", "resolved", "rejected"}), tags, []int{1, 1, 2, 2, 3, 5, 100}[d.r.Intn(7)], "")
	if e != nil {
		panic(e)
	}
	d.ntrav++
	trav := fmt.Sprintf("t%d", d.ntrav)
	d.follow(trav, 1, "promise")
	return &t_api.Request{Kind: t_api.SearchPromises, SearchPromises: req}
}

func (d *driver) searchSchedules() *t_api.Request {
	h := sapi.New(nil, "verif")
	tags := map[string]string(nil)
	if d.r.Intn(3) == 0 {
		tags = map[string]string{"team": "a"}
	}
	req, e := h.SearchSchedules(d.pick([]string{"*", "sc*", "*1", "sc2"}), tags, []int{1, 1, 2, 100}[d.r.Intn(4)], "")
	if e != nil {
		panic(e)
	}
	d.ntrav++
	trav := fmt.Sprintf("t%d", d.ntrav)
	d.follow(trav, 1, "schedule")
	return &t_api.Request{Kind: t_api.SearchSchedules, SearchSchedules: req}
}

// follow registers, for the request about to be submitted, the continuation of the
// traversal: when the page arrives with a cursor, the cursor is encoded (real JWT),
// sometimes forged, decoded again by the real API helper, and the next page is requested.
func (d *driver) follow(trav string, page int, what string) {
	w := d.w
	rid := w.nextRid()
	w.meta[rid] = M{"trav": trav, "page": int64(page)}
	w.onReply[rid] = func(res *t_api.Response) {
		h := sapi.New(nil, "verif")
		var token string
		var err error
		switch what {
		case "promise":
			if res.SearchPromises == nil || res.SearchPromises.Cursor == nil {
				return
			}
			token, err = res.SearchPromises.Cursor.Encode()
		default:
			if res.SearchSchedules == nil || res.SearchSchedules.Cursor == nil {
				return
			}
			token, err = res.SearchSchedules.Cursor.Encode()
		}
		if err != nil {
			return
		}
		// forged cursors: same claims signed with another key, or a tampered payload
		if d.r.Intn(6) == 0 {
			forged := forge(token, d.r.Intn(2) == 0)
			var ferr *sapi.Error
			if what == "promise" {
				_, ferr = h.SearchPromises("", "", nil, 0, forged)
			} else {
				_, ferr = h.SearchSchedules("", nil, 0, forged)
			}
			w.tr.emit(M{"e": "cursor", "t": w.now, "trav": trav, "forged": true, "accepted": ferr == nil})
		}
		var next *t_api.Request
		if what == "promise" {
			req, e := h.SearchPromises("", "", nil, 0, token)
			w.tr.emit(M{"e": "cursor", "t": w.now, "trav": trav, "forged": false, "accepted": e == nil})
			if e != nil {
				return
			}
			next = &t_api.Request{Kind: t_api.SearchPromises, SearchPromises: req}
		} else {
			req, e := h.SearchSchedules("", nil, 0, token)
			w.tr.emit(M{"e": "cursor", "t": w.now, "trav": trav, "forged": false, "accepted": e == nil})
			if e != nil {
				return
			}
			next = &t_api.Request{Kind: t_api.SearchSchedules, SearchSchedules: req}
		}
		d.follow(trav, page+1, what)
		w.submit(next)
	}
}

func forge(token string, otherKey bool) string {
	claims := jwt.MapClaims{}
	parsed, _ := jwt.ParseWithClaims(token, claims, func(*jwt.Token) (interface{}, error) { return []byte("resonate"), nil })
	if parsed == nil {
		return token + "x"
	}
	if otherKey {
		s, err := jwt.NewWithClaims(jwt.SigningMethodHS256, claims).SignedString([]byte("not-the-key"))
		if err != nil {
			return token + "x"
		}
		return s
	}
	// tampered payload, original signature
	parts := strings.Split(token, ".")
	if len(parts) != 3 {
		return token + "x"
	}
	if next, ok := claims["Next"].(map[string]any); ok {
		next["limit"] = 77
	}
	b, _ := json.Marshal(claims)
	parts[1] = base64.RawURLEncoding.EncodeToString(b)
	return strings.Join(parts, ".")
}

func (d *driver) pick(xs []string) string { return xs[d.r.Intn(len(xs))] }

func sortedKeys(m M) []string {
	ks := make([]string, 0, len(m))
	for k := range m {
		ks = append(ks, k)
	}
	sort.Strings(ks)
	return ks
}

func (d *driver) table(name string) M {
	if d.w.view == nil {
		return M{}
	}
	t, _ := d.w.view[name].(M)
	if t == nil {
		return M{}
	}
	return t
}

// a promise id: mostly one that exists (pending ones preferred when wantPending)
func (d *driver) promiseId(wantPending bool) string {
	ps := d.table("promises")
	if len(ps) > 0 && d.r.Intn(10) < 7 {
		ids := sortedKeys(ps)
		if wantPending {
			pend := []string{}
			for _, id := range ids {
				if ps[id].(M)["state"] == "PENDING" {
					pend = append(pend, id)
				}
			}
			if len(pend) > 0 && d.r.Intn(10) < 8 {
				return d.pick(pend)
			}
		}
		return d.pick(ids)
	}
	return d.pick(d.pids)
}

// a task id and counter: mostly an existing task with its current counter
func (d *driver) taskRef(states ...string) (string, int) {
	ts := d.table("tasks")
	if len(ts) > 0 && d.r.Intn(10) < 8 {
		ids := sortedKeys(ts)
		cand := []string{}
		for _, id := range ids {
			st := ts[id].(M)["state"].(string)
			for _, s := range states {
				if s == st {
					cand = append(cand, id)
				}
			}
		}
		if len(cand) == 0 || d.r.Intn(10) < 2 {
			cand = ids
		}
		id := d.pick(cand)
		c := int(ts[id].(M)["counter"].(int64))
		switch d.r.Intn(10) {
		case 0:
			c--
		case 1:
			c++
		}
		return id, c
	}
	return d.taskId(), []int{1, 1, 1, 2, 2, 3, 0}[d.r.Intn(7)]
}

// refresh the interesting instants from what is stored: pending deadlines, lease ends,
// lock expiries, schedule occurrences
func (d *driver) refreshInstants() {
	now := d.w.now
	add := func(t int64) {
		if t+1 >= now && t < now+4000 {
			d.instants = append(d.instants, t)
		}
	}
	for _, v := range d.table("promises") {
		if p := v.(M); p["state"] == "PENDING" {
			add(p["timeout"].(int64))
		}
	}
	for _, v := range d.table("tasks") {
		t := v.(M)
		if t["state"] == "ENQUEUED" || t["state"] == "CLAIMED" {
			add(t["expiresAt"].(int64))
			add(t["timeout"].(int64))
		}
	}
	for _, v := range d.table("locks") {
		add(v.(M)["expiresAt"].(int64))
	}
	for _, v := range d.table("schedules") {
		add(v.(M)["next"].(int64))
	}
}

func (d *driver) key() *idempotency.Key {
	switch d.r.Intn(4) {
	case 0:
		return nil
	case 1, 2:
		k := idempotency.Key("k1")
		return &k
	default:
		k := idempotency.Key("k2")
		return &k
	}
}

func (d *driver) value() promise.Value {
	switch d.r.Intn(3) {
	case 0:
		return promise.Value{}
	case 1:
		return promise.Value{Headers: map[string]string{"h": "1"}, Data: []byte("d1")}
	default:
		return promise.Value{Data: []byte("d2")}
	}
}

func (d *driver) timeout() int64 {
	now := d.w.now
	var t int64
	switch d.r.Intn(12) {
	case 0:
		t = now - 1
	case 1:
		t = now
	case 2:
		t = now + 1
	case 3, 4:
		t = now + 2
	case 5, 6:
		t = now + 3
	case 7:
		t = now + 4
	case 8:
		t = now + 6
	case 9:
		t = now + 9
	default:
		t = now + 1000000
	}
	d.instants = append(d.instants, t)
	return t
}

func (d *driver) tags() map[string]string {
	if d.routedBias && d.r.Intn(10) < 6 {
		return map[string]string{"resonate:invoke": d.pick([]string{"w1", "w2", "poll://g1/i1"})}
	}
	switch d.r.Intn(8) {
	case 0, 1, 2:
		return nil
	case 3:
		return map[string]string{"resonate:timeout": "true"}
	case 4, 5:
		return map[string]string{"resonate:invoke": d.pick([]string{"w1", "poll://g1/i1", "http://h.test/x"})}
	case 6:
		return map[string]string{"resonate:invoke": "w2", "resonate:timeout": "true"}
	default:
		return map[string]string{"a": "b"}
	}
}

func (d *driver) taskId() string {
	p := d.pick(d.pids)
	switch d.r.Intn(4) {
	case 0, 1:
		return "__invoke:" + p
	case 2:
		return "__resume:" + d.pick(d.pids) + ":" + p
	default:
		return "__notify:" + p + ":" + d.pick(d.subs)
	}
}

func (d *driver) states() promise.State {
	return []promise.State{promise.Resolved, promise.Rejected, promise.Canceled}[d.r.Intn(3)]
}

func (d *driver) createReq() *t_api.CreatePromiseRequest {
	return &t_api.CreatePromiseRequest{Id: d.pick(d.pids), IdempotencyKey: d.key(), Strict: d.r.Intn(3) == 0, Param: d.value(), Timeout: d.timeout(), Tags: d.tags()}
}

func (d *driver) recv() json.RawMessage {
	return json.RawMessage([]string{`"w1"`, `"poll://g1/i2"`, `{"type":"poll","data":{"group":"g2"}}`}[d.r.Intn(3)])
}

func (d *driver) ttl() int {
	return []int{0, 1, 2, 3, 5, 20, 1000, 60000}[d.r.Intn(8)]
}

func (d *driver) gen() *t_api.Request {
	// weighted choice
	kinds := make([]string, 0, len(d.p.Weights))
	for k := range d.p.Weights {
		kinds = append(kinds, k)
	}
	sort.Strings(kinds)
	total := 0
	for _, k := range kinds {
		total += d.p.Weights[k]
	}
	x := d.r.Intn(total)
	kind := kinds[0]
	for _, k := range kinds {
		if x < d.p.Weights[k] {
			kind = k
			break
		}
		x -= d.p.Weights[k]
	}
	switch kind {
	case "ReadPromise":
		return &t_api.Request{Kind: t_api.ReadPromise, ReadPromise: &t_api.ReadPromiseRequest{Id: d.promiseId(true)}}
	case "CreatePromise":
		return &t_api.Request{Kind: t_api.CreatePromise, CreatePromise: d.createReq()}
	case "CreatePromiseAndTask":
		c := d.createReq()
		if d.r.Intn(4) != 0 {
			if c.Tags == nil {
				c.Tags = map[string]string{}
			}
			c.Tags["resonate:invoke"] = "w1"
		}
		ttl := d.ttl()
		d.instants = append(d.instants, d.w.now+int64(ttl))
		return &t_api.Request{Kind: t_api.CreatePromiseAndTask, CreatePromiseAndTask: &t_api.CreatePromiseAndTaskRequest{
			Promise: c, Task: &t_api.CreateTaskRequest{PromiseId: c.Id, ProcessId: d.pick([]string{"w1", "w2"}), Ttl: ttl, Timeout: c.Timeout}}}
	case "CompletePromise":
		return &t_api.Request{Kind: t_api.CompletePromise, CompletePromise: &t_api.CompletePromiseRequest{
			Id: d.promiseId(true), IdempotencyKey: d.key(), Strict: d.r.Intn(3) == 0, State: d.states(), Value: d.value()}}
	case "CreateCallback":
		leaf, root := d.promiseId(true), d.pick(d.pids)
		if ts := d.table("tasks"); len(ts) > 0 && d.r.Intn(10) < 6 {
			roots := []string{}
			for _, id := range sortedKeys(ts) {
				if t := ts[id].(M); t["state"] != "COMPLETED" && t["state"] != "TIMEDOUT" {
					roots = append(roots, t["rootId"].(string))
				}
			}
			if len(roots) > 0 {
				root = d.pick(roots)
			}
		}
		return &t_api.Request{Kind: t_api.CreateCallback, CreateCallback: &t_api.CreateCallbackRequest{
			Id: "", PromiseId: leaf, RootPromiseId: root, Timeout: d.timeout(), Recv: d.recv()}}
	case "CreateSubscription":
		return &t_api.Request{Kind: t_api.CreateSubscription, CreateSubscription: &t_api.CreateSubscriptionRequest{
			Id: d.pick(d.subs), PromiseId: d.promiseId(true), Timeout: d.timeout(), Recv: d.recv()}}
	case "ClaimTask":
		ttl := d.ttl()
		d.instants = append(d.instants, d.w.now+int64(ttl))
		tid, tc := d.taskRef("INIT", "ENQUEUED")
		return &t_api.Request{Kind: t_api.ClaimTask, ClaimTask: &t_api.ClaimTaskRequest{
			Id: tid, Counter: tc, ProcessId: d.pick([]string{"w1", "w2"}), Ttl: ttl}}
	case "CompleteTask":
		tid, tc := d.taskRef("CLAIMED")
		return &t_api.Request{Kind: t_api.CompleteTask, CompleteTask: &t_api.CompleteTaskRequest{Id: tid, Counter: tc}}
	case "HeartbeatTasks":
		return &t_api.Request{Kind: t_api.HeartbeatTasks, HeartbeatTasks: &t_api.HeartbeatTasksRequest{ProcessId: d.pick([]string{"w1", "w2"})}}
	case "AcquireLock":
		ttl := int64(d.ttl())
		d.instants = append(d.instants, d.w.now+ttl)
		return &t_api.Request{Kind: t_api.AcquireLock, AcquireLock: &t_api.AcquireLockRequest{
			ResourceId: d.pick([]string{"l1", "l2"}), ExecutionId: d.pick([]string{"e1", "e2"}), ProcessId: d.pick([]string{"w1", "w2"}), Ttl: ttl}}
	case "ReleaseLock":
		return &t_api.Request{Kind: t_api.ReleaseLock, ReleaseLock: &t_api.ReleaseLockRequest{
			ResourceId: d.pick([]string{"l1", "l2"}), ExecutionId: d.pick([]string{"e1", "e2"})}}
	case "HeartbeatLocks":
		return &t_api.Request{Kind: t_api.HeartbeatLocks, HeartbeatLocks: &t_api.HeartbeatLocksRequest{ProcessId: d.pick([]string{"w1", "w2"})}}
	case "CreateSchedule":
		ptags := map[string]string(nil)
		switch d.r.Intn(5) {
		case 0:
			ptags = map[string]string{"resonate:timeout": "true"}
		case 1:
			ptags = map[string]string{"x": "y"}
		case 2:
			ptags = map[string]string{"resonate:invoke": "w1"} // the scheduled promise is routed: created with its task
		}
		sid := d.pick(d.sched)
		tpl := d.pick([]string{"{{.id}}.{{.timestamp}}", "{{.id}}.{{.timestamp}}", "fixed"})
		if d.badTpl && sid == d.sched[0] && d.r.Intn(3) > 0 {
			// accepted by the server (only the cron expression is validated), never renderable
			tpl = d.pick([]string{"{{.id", "{{index .id 99}}"})
		}
		return &t_api.Request{Kind: t_api.CreateSchedule, CreateSchedule: &t_api.CreateScheduleRequest{
			Id: sid, Description: d.pick([]string{"", "d"}), Cron: d.pick(d.crons), Tags: []map[string]string{nil, {"team": "a"}, {"team": "b"}}[d.r.Intn(3)],
			PromiseId: tpl, PromiseTimeout: []int64{0, 1, 500, 1000000}[d.r.Intn(4)],
			PromiseParam: d.value(), PromiseTags: ptags, IdempotencyKey: d.key()}}
	case "SearchPromises":
		return d.searchPromises()
	case "SearchSchedules":
		return d.searchSchedules()
	case "ReadSchedule":
		return &t_api.Request{Kind: t_api.ReadSchedule, ReadSchedule: &t_api.ReadScheduleRequest{Id: d.pick(d.sched)}}
	case "DeleteSchedule":
		return &t_api.Request{Kind: t_api.DeleteSchedule, DeleteSchedule: &t_api.DeleteScheduleRequest{Id: d.pick(d.sched)}}
	}
	panic("unknown kind " + kind)
}

// advance moves the clock: mostly by small steps, often onto / next to a recorded
// deadline or lease end (before, exactly at, after), sometimes by a jump.
func (d *driver) advance() {
	d.refreshInstants()
	now := d.w.now
	switch x := d.r.Intn(10); {
	case x < 2:
		// stay
	case x < 5:
		d.w.now = now + 1
	case x < 8 && len(d.instants) > 0:
		// the nearest interesting instant not in the past, -1/0/+1
		best := int64(-1)
		for _, t := range d.instants {
			if t+1 >= now && t < now+100 && (best < 0 || t < best) {
				best = t
			}
		}
		if best >= 0 {
			c := best + int64(d.r.Intn(3)) - 1
			if c > now {
				d.w.now = c
			} else {
				d.w.now = now + 1
			}
		} else {
			d.w.now = now + int64(1+d.r.Intn(3))
		}
		// forget instants that are behind us
		keep := d.instants[:0]
		for _, t := range d.instants {
			if t+1 >= d.w.now {
				keep = append(keep, t)
			}
		}
		d.instants = keep
	case x < 9:
		d.w.now = now + int64(2+d.r.Intn(4))
	default:
		if len(d.crons) > 0 && d.r.Intn(2) == 0 {
			d.w.now = now + int64(400+d.r.Intn(2200)) // over one or several cron occurrences
		} else {
			d.w.now = now + int64(5+d.r.Intn(20))
		}
	}
}

// one scheduling round of the AIO: routers and senders run, store submissions are
// executed, held back, batched and failed as the profile says.
func (d *driver) aioRound(drain bool) error {
	w := d.w
	for _, s := range w.pending(t_aio.Router) {
		w.route(s, !drain && d.r.Float64() < d.p.PRouteErr)
	}
	for _, s := range w.pending(t_aio.Sender) {
		out := "fail"
		x := d.r.Float64()
		if drain || x < d.p.PSendOk {
			out = "ok"
		} else if x < d.p.PSendOk+d.p.PSendErr {
			out = "err"
		} else if x < d.p.PSendOk+d.p.PSendErr+d.p.PSendFull {
			out = "full"
		}
		w.send(s, out)
	}
	st := w.pending(t_aio.Store)
	if len(st) == 0 {
		return nil
	}
	// order: yield order, reversed, or shuffled
	switch d.r.Intn(3) {
	case 1:
		for i, j := 0, len(st)-1; i < j; i, j = i+1, j-1 {
			st[i], st[j] = st[j], st[i]
		}
	case 2:
		d.r.Shuffle(len(st), func(i, j int) { st[i], st[j] = st[j], st[i] })
	}
	run := []*sub{}
	for _, s := range st {
		if !drain && d.r.Float64() < d.p.PDelay {
			continue
		}
		run = append(run, s)
	}
	for len(run) > 0 {
		n := 1 + d.r.Intn(d.p.MaxBatch)
		if n > len(run) {
			n = len(run)
		}
		// the selection of a dispatch cycle is logged against the database it was read from: that
		// read is executed as a batch of its own (its position among the others is still free)
		for k := 0; k < n; k++ {
			if selects(run[k]) {
				if k == 0 {
					n = 1
				} else {
					n = k
				}
				break
			}
		}
		batch := run[:n]
		run = run[n:]
		fail := "none"
		if !drain {
			x := d.r.Float64()
			if x < d.p.PFailPre {
				fail = "pre"
			} else if x < d.p.PFailPre+d.p.PFailPost {
				fail = "post"
			} else if x < d.p.PFailPre+d.p.PFailPost+d.p.PBusy {
				fail = "busy"
			}
		}
		if err := w.exec(batch, fail); err != nil {
			return err
		}
	}
	return nil
}

func selects(x *sub) bool {
	for _, c := range x.sqe.Submission.Store.Transaction.Commands {
		// (the sweeps whose selection is judged against the database of that very moment run as a batch of their own)
		if c.Kind == t_aio.ReadEnqueueableTasks || c.Kind == t_aio.ReadSchedules {
			return true
		}
	}
	return false
}

func (d *driver) run(steps int) error {
	w := d.w
	for i := 0; i < steps; i++ {
		n := []int{0, 0, 1, 1, 1, 2, 2, 3}[d.r.Intn(8)]
		for j := 0; j < n; j++ {
			w.submit(d.gen())
		}
		d.advance()
		w.tick()
		if err := d.aioRound(false); err != nil {
			return err
		}
		if d.r.Float64() < d.p.PCrash {
			if err := w.crash(); err != nil {
				return err
			}
		}
	}
	return d.drain(5000)
}

// drain: clients stop; the server runs until every accepted request has been answered
// and nothing is pending (bounded).  With converge, the background coroutines are then
// given the bounded number of cycles the property speaks of, with hand-offs succeeding
// and no faults, before the final state is logged.
func (d *driver) drain(max int) error {
	w := d.w
	for i := 0; i < max; i++ {
		w.now++
		w.tick()
		if err := d.aioRound(true); err != nil {
			return err
		}
		if len(w.open) == 0 && i > 3 {
			break
		}
	}
	if d.converge && len(w.open) == 0 {
		post, err := project.DB(w.obs)
		if err != nil {
			return err
		}
		rows := 0
		for _, tb := range []string{"promises", "tasks", "locks", "schedules"} {
			rows += len(post[tb].(M))
		}
		overdue := countOverdue(post, w.now)
		w.tr.emit(M{"e": "quiesce", "t": w.now, "overdue": overdue, "rows": rows})
		// cycles: every row may need its own cycle (batch size 1), every completion its own
		// tick (completion batch size 1), schedules may have to catch up a few occurrences
		step := w.cfg.SignalTimeout
		if step < 1 {
			step = 1
		}
		cycles := 40 + 12*rows
		// in every other run the server is fast relative to the signal timeout (the production
		// regime: milliseconds against a second): everything a cycle started has finished before the
		// next cycle begins
		settle := d.r.Intn(2) == 0 || d.settle
		w.tr.emit(M{"e": "regime", "t": w.now, "settle": settle})
		for i := 0; i < cycles; i++ {
			w.now += step
			w.tick()
			if err := d.aioRound(true); err != nil {
				return err
			}
			for k := 0; settle && k < 30 && (len(w.aio.pend) > 0 || len(w.aio.cqes) > 0); k++ {
				w.tick()
				if err := d.aioRound(true); err != nil {
					return err
				}
			}
		}
	}
	post, err := project.DB(w.obs)
	if err != nil {
		return err
	}
	open := []any{}
	for r := range w.open {
		open = append(open, r)
	}
	w.tr.emit(w.tr.withPost(M{"e": "end", "t": w.now, "open": open}, post))
	if len(w.open) > 0 {
		return fmt.Errorf("requests without a response after drain: %v", open)
	}
	return nil
}

// countOverdue is bookkeeping for the evidence only (how much there was to converge on);
// it takes no part in any verdict.
func countOverdue(post M, now int64) int {
	n := 0
	for _, v := range post["promises"].(M) {
		p := v.(M)
		if p["state"] == "PENDING" && p["timeout"].(int64) <= now {
			n++
		}
	}
	for _, v := range post["locks"].(M) {
		if v.(M)["expiresAt"].(int64) <= now {
			n++
		}
	}
	for _, v := range post["schedules"].(M) {
		if v.(M)["next"].(int64) <= now {
			n++
		}
	}
	for _, v := range post["tasks"].(M) {
		t := v.(M)
		if (t["state"] == "ENQUEUED" || t["state"] == "CLAIMED") && (t["expiresAt"].(int64) <= now || t["timeout"].(int64) <= now) {
			n++
		}
		if t["state"] == "INIT" {
			n++
		}
	}
	return n
}
