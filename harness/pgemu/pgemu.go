// Package pgemu is a database/sql driver that lets the Postgres store worker of
// resonate (postgres.go: statement text, placeholder numbering, argument order, scan
// order, row-count plumbing, transaction handling) run without a Postgres server: it
// rewrites the Postgres dialect used by that file, purely syntactically, and executes
// the result on the bundled SQLite engine.  No statement is replaced by its SQLite
// counterpart from sqlite.go.  A statement it does not understand is passed through
// unchanged (and then fails in SQLite: the caller reports the run as inconclusive).
package pgemu

import (
	"database/sql"
	"database/sql/driver"
	"encoding/json"
	"reflect"
	"regexp"
	"strings"
	"sync"

	sqlite3 "github.com/mattn/go-sqlite3"
)

var once sync.Once

// Register registers the driver under the name "pgemu".
func Register() {
	once.Do(func() {
		sql.Register("pgemu", &drv{inner: &sqlite3.SQLiteDriver{
			ConnectHook: func(c *sqlite3.SQLiteConn) error {
				return c.RegisterFunc("jsonb_contains", jsonbContains, true)
			},
		}})
	})
}

// jsonbContains implements the `@>` operator for the shapes postgres.go uses:
// top-level object containment with scalar (string) values.
func jsonbContains(a, b any) bool {
	var x, y any
	if json.Unmarshal(toBytes(a), &x) != nil || json.Unmarshal(toBytes(b), &y) != nil {
		return false
	}
	return contains(x, y)
}

func toBytes(v any) []byte {
	switch t := v.(type) {
	case []byte:
		return t
	case string:
		return []byte(t)
	}
	return nil
}

func contains(a, b any) bool {
	switch bb := b.(type) {
	case map[string]any:
		aa, ok := a.(map[string]any)
		if !ok {
			return false
		}
		for k, v := range bb {
			av, ok := aa[k]
			if !ok || !contains(av, v) {
				return false
			}
		}
		return true
	case []any:
		aa, ok := a.([]any)
		if !ok {
			return false
		}
		for _, v := range bb {
			found := false
			for _, w := range aa {
				if contains(w, v) {
					found = true
					break
				}
			}
			if !found {
				return false
			}
		}
		return true
	default:
		return reflect.DeepEqual(a, b)
	}
}

var (
	reParam    = regexp.MustCompile(`\$(\d+)`)
	reCast     = regexp.MustCompile(`::[a-zA-Z_]+`)
	reContains = regexp.MustCompile(`([A-Za-z_][A-Za-z0-9_.]*)\s*@>\s*(\?\d+)`)
	reDistinct = regexp.MustCompile(`(?is)^\s*SELECT\s+DISTINCT\s+ON\s*\(\s*([A-Za-z_]+)\s*\)(.*?)\bFROM\b(.*?)\bORDER\s+BY\b(.*?)\bLIMIT\b(.*)$`)
	reSerial   = regexp.MustCompile(`(?i)\bSERIAL\b`)
	reTable    = regexp.MustCompile(`(?is)CREATE TABLE IF NOT EXISTS (\w+) \((.*?)\);`)
	reComment  = regexp.MustCompile(`--[^\n]*`)
)

// Translate rewrites one statement (or a script of statements) from the Postgres dialect
// used by postgres.go to SQLite.
func Translate(q string) string {
	q = reComment.ReplaceAllString(q, "")
	if strings.Contains(q, "CREATE TABLE") {
		return translateDDL(q)
	}
	q = reCast.ReplaceAllString(q, "")
	q = reParam.ReplaceAllString(q, "?$1")
	q = reContains.ReplaceAllString(q, "jsonb_contains($1, $2)")
	if m := reDistinct.FindStringSubmatch(q); m != nil {
		col, cols, from, order, limit := m[1], m[2], m[3], m[4], m[5]
		// ORDER BY <col>, <rest>: the first element orders the groups, the rest picks the row of each group
		parts := strings.SplitN(order, ",", 2)
		inner := strings.TrimSpace(order)
		if len(parts) == 2 {
			inner = strings.TrimSpace(parts[1])
		}
		q = "SELECT " + cols + " FROM (SELECT *, ROW_NUMBER() OVER (PARTITION BY " + col + " ORDER BY " + inner + ") AS pgemu_rn FROM " +
			from + ") WHERE pgemu_rn = 1 ORDER BY " + col + " LIMIT " + limit
	}
	return q
}

func translateDDL(q string) string {
	var triggers []string
	q = reTable.ReplaceAllStringFunc(q, func(s string) string {
		m := reTable.FindStringSubmatch(s)
		name, body := m[1], m[2]
		if reSerial.MatchString(body) {
			triggers = append(triggers, "CREATE TRIGGER IF NOT EXISTS pgemu_serial_"+name+" AFTER INSERT ON "+name+
				" BEGIN UPDATE "+name+" SET sort_id = (SELECT COALESCE(MAX(sort_id), 0) + 1 FROM "+name+") WHERE rowid = NEW.rowid; END;")
		}
		body = reSerial.ReplaceAllString(body, "INTEGER")
		return "CREATE TABLE IF NOT EXISTS " + name + " (" + body + ");"
	})
	return q + "\n" + strings.Join(triggers, "\n")
}

type drv struct{ inner *sqlite3.SQLiteDriver }

func (d *drv) Open(name string) (driver.Conn, error) {
	c, err := d.inner.Open(name)
	if err != nil {
		return nil, err
	}
	return &conn{c.(*sqlite3.SQLiteConn)}, nil
}

type conn struct{ c *sqlite3.SQLiteConn }

func (c *conn) Prepare(q string) (driver.Stmt, error) { return c.c.Prepare(Translate(q)) }
func (c *conn) Close() error                          { return c.c.Close() }
func (c *conn) Begin() (driver.Tx, error)             { return c.c.Begin() }
func (c *conn) Exec(q string, args []driver.Value) (driver.Result, error) {
	return c.c.Exec(Translate(q), args)
}
func (c *conn) Query(q string, args []driver.Value) (driver.Rows, error) {
	return c.c.Query(Translate(q), args)
}
