// Package project renders the durable state, the requests and the responses of the real
// server in the vocabulary of spec/Store.tla and spec/Resonate.tla.  It is the only place
// where implementation values are turned into trace values; it never infers anything:
// optional values are rendered as a list of length 0 or 1, absent and empty maps / byte
// strings are the same thing (property C20 says they are equivalent), nothing is null.
package project

import (
	"database/sql"
	"encoding/base64"
	"encoding/json"
	"fmt"
	"unicode/utf8"

	"github.com/resonatehq/resonate/internal/kernel/t_api"
	"github.com/resonatehq/resonate/pkg/callback"
	"github.com/resonatehq/resonate/pkg/idempotency"
	"github.com/resonatehq/resonate/pkg/lock"
	"github.com/resonatehq/resonate/pkg/promise"
	"github.com/resonatehq/resonate/pkg/schedule"
	"github.com/resonatehq/resonate/pkg/task"
)

type M = map[string]any

func Bytes(b []byte) string {
	if utf8.Valid(b) {
		ok := true
		for _, c := range b {
			if c < 0x20 || c == 0x7f {
				ok = false
				break
			}
		}
		if ok {
			return string(b)
		}
	}
	return "b64:" + base64.StdEncoding.EncodeToString(b)
}

func OptS(p *string) []any {
	if p == nil {
		return []any{}
	}
	return []any{*p}
}

func OptKey(p *idempotency.Key) []any {
	if p == nil {
		return []any{}
	}
	return []any{string(*p)}
}

func OptI(p *int64) []any {
	if p == nil {
		return []any{}
	}
	return []any{*p}
}

func Map(m map[string]string) M {
	r := M{}
	for k, v := range m {
		r[k] = v
	}
	return r
}

func jsonMap(b []byte) M {
	r := M{}
	if len(b) == 0 {
		return r
	}
	var m map[string]string
	if err := json.Unmarshal(b, &m); err != nil {
		return M{"?": Bytes(b)}
	}
	for k, v := range m {
		r[k] = v
	}
	return r
}

func Value(v promise.Value) M {
	return M{"headers": Map(v.Headers), "data": Bytes(v.Data)}
}

var promiseStates = map[int64]string{1: "PENDING", 2: "RESOLVED", 4: "REJECTED", 8: "REJECTED_CANCELED", 16: "REJECTED_TIMEDOUT"}
var taskStates = map[int64]string{1: "INIT", 2: "ENQUEUED", 4: "CLAIMED", 8: "COMPLETED", 16: "TIMEDOUT"}

func PromiseState(s promise.State) string {
	if v, ok := promiseStates[int64(s)]; ok {
		return v
	}
	return fmt.Sprintf("?%d", int(s))
}

func TaskState(s task.State) string {
	if v, ok := taskStates[int64(s)]; ok {
		return v
	}
	return fmt.Sprintf("?%d", int(s))
}

func mesgOf(b []byte) M {
	var m struct {
		Type string `json:"type"`
		Root string `json:"root"`
		Leaf string `json:"leaf"`
	}
	if err := json.Unmarshal(b, &m); err != nil {
		return M{"type": "?", "root": Bytes(b), "leaf": ""}
	}
	return M{"type": m.Type, "root": m.Root, "leaf": m.Leaf}
}

// ---------------------------------------------------------------------------------------
// database projection (through an observer connection, with its own SELECTs)
// ---------------------------------------------------------------------------------------

type nullS = sql.NullString
type nullI = sql.NullInt64

func optNS(n nullS) []any {
	if !n.Valid {
		return []any{}
	}
	return []any{n.String}
}
func optNI(n nullI) []any {
	if !n.Valid {
		return []any{}
	}
	return []any{n.Int64}
}

// DB reads the five tables.  The statements are the harness's own.
func DB(db *sql.DB) (M, error) {
	out := M{}

	// promises
	{
		rows, err := db.Query(`SELECT id, state, param_headers, param_data, value_headers, value_data, timeout, idempotency_key_for_create, idempotency_key_for_complete, tags, created_on, completed_on FROM promises ORDER BY sort_id ASC`)
		if err != nil {
			return nil, err
		}
		tbl, order := M{}, []any{}
		for rows.Next() {
			var id string
			var state int64
			var ph, pd, vh, vd, tags []byte
			var timeout int64
			var ikc, iku nullS
			var con, don nullI
			if err := rows.Scan(&id, &state, &ph, &pd, &vh, &vd, &timeout, &ikc, &iku, &tags, &con, &don); err != nil {
				rows.Close()
				return nil, err
			}
			st, ok := promiseStates[state]
			if !ok {
				st = fmt.Sprintf("?%d", state)
			}
			created := int64(-1)
			if con.Valid {
				created = con.Int64
			}
			tbl[id] = M{
				"state": st, "param": M{"headers": jsonMap(ph), "data": Bytes(pd)},
				"value":   M{"headers": jsonMap(vh), "data": Bytes(vd)},
				"timeout": timeout, "ikc": optNS(ikc), "iku": optNS(iku), "tags": jsonMap(tags),
				"createdOn": created, "completedOn": optNI(don),
			}
			order = append(order, id)
		}
		rows.Close()
		out["promises"], out["porder"] = tbl, order
	}

	// callbacks
	{
		rows, err := db.Query(`SELECT id, promise_id, root_promise_id, recv, mesg, timeout, created_on FROM callbacks`)
		if err != nil {
			return nil, err
		}
		tbl := M{}
		for rows.Next() {
			var id, pid, rid string
			var recv, mesg []byte
			var timeout, con int64
			if err := rows.Scan(&id, &pid, &rid, &recv, &mesg, &timeout, &con); err != nil {
				rows.Close()
				return nil, err
			}
			tbl[id] = M{"promiseId": pid, "rootId": rid, "recv": Bytes(recv), "mesg": mesgOf(mesg), "timeout": timeout, "createdOn": con}
		}
		rows.Close()
		out["callbacks"] = tbl
	}

	// tasks
	{
		rows, err := db.Query(`SELECT id, process_id, state, root_promise_id, recv, mesg, timeout, counter, attempt, ttl, expires_at, created_on, completed_on FROM tasks ORDER BY sort_id ASC`)
		if err != nil {
			return nil, err
		}
		tbl := M{}
		for rows.Next() {
			var id, root string
			var pid nullS
			var state, timeout, counter, attempt, ttl, exp int64
			var recv, mesg []byte
			var con, don nullI
			if err := rows.Scan(&id, &pid, &state, &root, &recv, &mesg, &timeout, &counter, &attempt, &ttl, &exp, &con, &don); err != nil {
				rows.Close()
				return nil, err
			}
			st, ok := taskStates[state]
			if !ok {
				st = fmt.Sprintf("?%d", state)
			}
			tbl[id] = M{"state": st, "counter": counter, "attempt": attempt, "pid": optNS(pid), "rootId": root,
				"recv": Bytes(recv), "mesg": mesgOf(mesg), "timeout": timeout, "ttl": ttl, "expiresAt": exp,
				"createdOn": optNI(con), "completedOn": optNI(don)}
		}
		rows.Close()
		out["tasks"] = tbl
	}

	// locks
	{
		rows, err := db.Query(`SELECT resource_id, execution_id, process_id, ttl, expires_at FROM locks`)
		if err != nil {
			return nil, err
		}
		tbl := M{}
		for rows.Next() {
			var rid, eid, pid string
			var ttl, exp int64
			if err := rows.Scan(&rid, &eid, &pid, &ttl, &exp); err != nil {
				rows.Close()
				return nil, err
			}
			tbl[rid] = M{"eid": eid, "pid": pid, "ttl": ttl, "expiresAt": exp}
		}
		rows.Close()
		out["locks"] = tbl
	}

	// schedules
	{
		rows, err := db.Query(`SELECT id, description, cron, tags, promise_id, promise_timeout, promise_param_headers, promise_param_data, promise_tags, last_run_time, next_run_time, idempotency_key, created_on FROM schedules ORDER BY sort_id ASC`)
		if err != nil {
			return nil, err
		}
		tbl, order := M{}, []any{}
		for rows.Next() {
			var id, cron, pid string
			var desc nullS
			var tags, pph, ppd, ptags []byte
			var ptimeout, next, con int64
			var last nullI
			var ikey nullS
			if err := rows.Scan(&id, &desc, &cron, &tags, &pid, &ptimeout, &pph, &ppd, &ptags, &last, &next, &ikey, &con); err != nil {
				rows.Close()
				return nil, err
			}
			tbl[id] = M{"desc": desc.String, "cron": cron, "tags": jsonMap(tags), "promiseId": pid, "promiseTimeout": ptimeout,
				"promiseParam": M{"headers": jsonMap(pph), "data": Bytes(ppd)}, "promiseTags": jsonMap(ptags),
				"last": optNI(last), "next": next, "ikey": optNS(ikey), "createdOn": con}
			order = append(order, id)
		}
		rows.Close()
		out["schedules"], out["sorder"] = tbl, order
	}

	return out, nil
}

// ---------------------------------------------------------------------------------------
// API objects
// ---------------------------------------------------------------------------------------

func Promise(p *promise.Promise) M {
	created := int64(-1)
	if p.CreatedOn != nil {
		created = *p.CreatedOn
	}
	return M{"id": p.Id, "state": PromiseState(p.State), "param": Value(p.Param), "value": Value(p.Value),
		"timeout": p.Timeout, "ikc": OptKey(p.IdempotencyKeyForCreate), "iku": OptKey(p.IdempotencyKeyForComplete),
		"tags": Map(p.Tags), "createdOn": created, "completedOn": OptI(p.CompletedOn)}
}

func OptPromise(p *promise.Promise) []any {
	if p == nil {
		return []any{}
	}
	return []any{Promise(p)}
}

func Task(t *task.Task) M {
	mesg := M{"type": "?", "root": "", "leaf": ""}
	if t.Mesg != nil {
		mesg = M{"type": string(t.Mesg.Type), "root": t.Mesg.Root, "leaf": t.Mesg.Leaf}
	}
	return M{"id": t.Id, "state": TaskState(t.State), "counter": int64(t.Counter), "attempt": int64(t.Attempt),
		"pid": OptS(t.ProcessId), "rootId": t.RootPromiseId, "recv": Bytes(t.Recv), "mesg": mesg,
		"timeout": t.Timeout, "ttl": int64(t.Ttl), "expiresAt": t.ExpiresAt,
		"createdOn": OptI(t.CreatedOn), "completedOn": OptI(t.CompletedOn)}
}

func OptTask(t *task.Task) []any {
	if t == nil {
		return []any{}
	}
	return []any{Task(t)}
}

func Callback(c *callback.Callback) M {
	return M{"id": c.Id, "promiseId": c.PromiseId, "timeout": c.Timeout, "createdOn": c.CreatedOn}
}

func OptCallback(c *callback.Callback) []any {
	if c == nil {
		return []any{}
	}
	return []any{Callback(c)}
}

func Schedule(s *schedule.Schedule) M {
	return M{"id": s.Id, "desc": s.Description, "cron": s.Cron, "tags": Map(s.Tags), "promiseId": s.PromiseId,
		"promiseTimeout": s.PromiseTimeout, "promiseParam": Value(s.PromiseParam), "promiseTags": Map(s.PromiseTags),
		"last": OptI(s.LastRunTime), "next": s.NextRunTime, "ikey": OptKey(s.IdempotencyKey), "createdOn": s.CreatedOn}
}

func OptSchedule(s *schedule.Schedule) []any {
	if s == nil {
		return []any{}
	}
	return []any{Schedule(s)}
}

func Lock(l *lock.Lock) M {
	return M{"rid": l.ResourceId, "eid": l.ExecutionId, "pid": l.ProcessId, "ttl": l.Ttl, "expiresAt": l.ExpiresAt}
}

func OptLock(l *lock.Lock) []any {
	if l == nil {
		return []any{}
	}
	return []any{Lock(l)}
}

// ---------------------------------------------------------------------------------------
// requests: the argument record `a` of the level-A operators
// ---------------------------------------------------------------------------------------

func createArgs(r *t_api.CreatePromiseRequest) M {
	return M{"id": r.Id, "ikey": OptKey(r.IdempotencyKey), "strict": r.Strict, "param": Value(r.Param),
		"timeout": r.Timeout, "tags": Map(r.Tags)}
}

func States(ss []promise.State) []any {
	out := []any{}
	for _, s := range ss {
		out = append(out, PromiseState(s))
	}
	return out
}

// Request renders kind and arguments.  cursorId maps a sort id to the row id (for search cursors).
func Request(r *t_api.Request, cursorId func(kind string, sortId int64) string) (string, M) {
	switch r.Kind {
	case t_api.ReadPromise:
		return "ReadPromise", M{"id": r.ReadPromise.Id}
	case t_api.CreatePromise:
		return "CreatePromise", createArgs(r.CreatePromise)
	case t_api.CreatePromiseAndTask:
		a := createArgs(r.CreatePromiseAndTask.Promise)
		a["pid"] = r.CreatePromiseAndTask.Task.ProcessId
		a["ttl"] = int64(r.CreatePromiseAndTask.Task.Ttl)
		return "CreatePromiseAndTask", a
	case t_api.CompletePromise:
		c := r.CompletePromise
		return "CompletePromise", M{"id": c.Id, "ikey": OptKey(c.IdempotencyKey), "strict": c.Strict,
			"state": PromiseState(c.State), "value": Value(c.Value)}
	case t_api.CreateCallback:
		c := r.CreateCallback
		return "CreateCallback", M{"promiseId": c.PromiseId, "rootId": c.RootPromiseId, "recv": Bytes(c.Recv), "timeout": c.Timeout}
	case t_api.CreateSubscription:
		c := r.CreateSubscription
		return "CreateSubscription", M{"promiseId": c.PromiseId, "id": c.Id, "recv": Bytes(c.Recv), "timeout": c.Timeout}
	case t_api.ClaimTask:
		c := r.ClaimTask
		return "ClaimTask", M{"id": c.Id, "counter": int64(c.Counter), "pid": c.ProcessId, "ttl": int64(c.Ttl)}
	case t_api.CompleteTask:
		return "CompleteTask", M{"id": r.CompleteTask.Id, "counter": int64(r.CompleteTask.Counter)}
	case t_api.HeartbeatTasks:
		return "HeartbeatTasks", M{"pid": r.HeartbeatTasks.ProcessId}
	case t_api.AcquireLock:
		c := r.AcquireLock
		return "AcquireLock", M{"rid": c.ResourceId, "eid": c.ExecutionId, "pid": c.ProcessId, "ttl": c.Ttl}
	case t_api.ReleaseLock:
		return "ReleaseLock", M{"rid": r.ReleaseLock.ResourceId, "eid": r.ReleaseLock.ExecutionId}
	case t_api.HeartbeatLocks:
		return "HeartbeatLocks", M{"pid": r.HeartbeatLocks.ProcessId}
	case t_api.CreateSchedule:
		c := r.CreateSchedule
		return "CreateSchedule", M{"id": c.Id, "desc": c.Description, "cron": c.Cron, "tags": Map(c.Tags), "promiseId": c.PromiseId,
			"promiseTimeout": c.PromiseTimeout, "promiseParam": Value(c.PromiseParam), "promiseTags": Map(c.PromiseTags),
			"ikey": OptKey(c.IdempotencyKey)}
	case t_api.ReadSchedule:
		return "ReadSchedule", M{"id": r.ReadSchedule.Id}
	case t_api.DeleteSchedule:
		return "DeleteSchedule", M{"id": r.DeleteSchedule.Id}
	case t_api.SearchPromises:
		c := r.SearchPromises
		cur := []any{}
		if c.SortId != nil {
			cur = []any{cursorId("promise", *c.SortId)}
		}
		return "SearchPromises", M{"q": c.Id, "states": States(c.States), "tags": Map(c.Tags), "limit": int64(c.Limit), "cursor": cur}
	case t_api.SearchSchedules:
		c := r.SearchSchedules
		cur := []any{}
		if c.SortId != nil {
			cur = []any{cursorId("schedule", *c.SortId)}
		}
		return "SearchSchedules", M{"q": c.Id, "tags": Map(c.Tags), "limit": int64(c.Limit), "cursor": cur}
	}
	return "?", M{}
}

// ---------------------------------------------------------------------------------------
// responses: the record `res` of the level-A operators
// ---------------------------------------------------------------------------------------

// ErrorResponse renders a t_api.Error for a request kind: the status and empty resources.
func ErrorResponse(kind string, code int64) M {
	m := M{"status": code}
	switch kind {
	case "ReadPromise", "CreatePromise", "CompletePromise":
		m["promise"] = []any{}
	case "CreatePromiseAndTask":
		m["promise"], m["task"] = []any{}, []any{}
	case "CreateCallback", "CreateSubscription":
		m["promise"], m["callback"] = []any{}, []any{}
	case "ClaimTask":
		m["task"], m["root"], m["leaf"] = []any{}, []any{}, []any{}
	case "CompleteTask":
		m["task"] = []any{}
	case "AcquireLock":
		m["lock"] = []any{}
	case "CreateSchedule", "ReadSchedule":
		m["schedule"] = []any{}
	case "SearchPromises":
		m["promises"], m["cursor"] = []any{}, []any{}
	case "SearchSchedules":
		m["schedules"], m["cursor"] = []any{}, []any{}
	}
	return m
}

func Response(r *t_api.Response, cursorId func(kind string, sortId int64) string) M {
	switch r.Kind {
	case t_api.ReadPromise:
		return M{"status": int64(r.ReadPromise.Status), "promise": OptPromise(r.ReadPromise.Promise)}
	case t_api.CreatePromise:
		return M{"status": int64(r.CreatePromise.Status), "promise": OptPromise(r.CreatePromise.Promise)}
	case t_api.CreatePromiseAndTask:
		x := r.CreatePromiseAndTask
		return M{"status": int64(x.Status), "promise": OptPromise(x.Promise), "task": OptTask(x.Task)}
	case t_api.CompletePromise:
		return M{"status": int64(r.CompletePromise.Status), "promise": OptPromise(r.CompletePromise.Promise)}
	case t_api.CreateCallback:
		x := r.CreateCallback
		return M{"status": int64(x.Status), "promise": OptPromise(x.Promise), "callback": OptCallback(x.Callback)}
	case t_api.CreateSubscription:
		x := r.CreateSubscription
		return M{"status": int64(x.Status), "promise": OptPromise(x.Promise), "callback": OptCallback(x.Callback)}
	case t_api.ClaimTask:
		x := r.ClaimTask
		return M{"status": int64(x.Status), "task": OptTask(x.Task), "root": OptPromise(x.RootPromise), "leaf": OptPromise(x.LeafPromise),
			"rootHref": x.RootPromiseHref, "leafHref": x.LeafPromiseHref}
	case t_api.CompleteTask:
		return M{"status": int64(r.CompleteTask.Status), "task": OptTask(r.CompleteTask.Task)}
	case t_api.HeartbeatTasks:
		return M{"status": int64(r.HeartbeatTasks.Status), "n": r.HeartbeatTasks.TasksAffected}
	case t_api.AcquireLock:
		return M{"status": int64(r.AcquireLock.Status), "lock": OptLock(r.AcquireLock.Lock)}
	case t_api.ReleaseLock:
		return M{"status": int64(r.ReleaseLock.Status)}
	case t_api.HeartbeatLocks:
		return M{"status": int64(r.HeartbeatLocks.Status), "n": r.HeartbeatLocks.LocksAffected}
	case t_api.CreateSchedule:
		return M{"status": int64(r.CreateSchedule.Status), "schedule": OptSchedule(r.CreateSchedule.Schedule)}
	case t_api.ReadSchedule:
		return M{"status": int64(r.ReadSchedule.Status), "schedule": OptSchedule(r.ReadSchedule.Schedule)}
	case t_api.DeleteSchedule:
		return M{"status": int64(r.DeleteSchedule.Status)}
	case t_api.SearchPromises:
		x := r.SearchPromises
		ps := []any{}
		for _, p := range x.Promises {
			ps = append(ps, Promise(p))
		}
		cur := []any{}
		if x.Cursor != nil && x.Cursor.Next != nil && x.Cursor.Next.SortId != nil {
			cur = []any{cursorId("promise", *x.Cursor.Next.SortId)}
		}
		return M{"status": int64(x.Status), "promises": ps, "cursor": cur}
	case t_api.SearchSchedules:
		x := r.SearchSchedules
		ss := []any{}
		for _, s := range x.Schedules {
			// the search statement selects a subset of the columns
			ss = append(ss, M{"id": s.Id, "cron": s.Cron, "tags": Map(s.Tags), "last": OptI(s.LastRunTime), "next": s.NextRunTime,
				"ikey": OptKey(s.IdempotencyKey), "createdOn": s.CreatedOn})
		}
		cur := []any{}
		if x.Cursor != nil && x.Cursor.Next != nil && x.Cursor.Next.SortId != nil {
			cur = []any{cursorId("schedule", *x.Cursor.Next.SortId)}
		}
		return M{"status": int64(x.Status), "schedules": ss, "cursor": cur}
	}
	return M{"status": int64(-1)}
}

// ---------------------------------------------------------------------------------------
// store records (results of read commands), in the row vocabulary of Store.tla
// ---------------------------------------------------------------------------------------

func PromiseRecord(r *promise.PromiseRecord) M {
	created := int64(-1)
	if r.CreatedOn != nil {
		created = *r.CreatedOn
	}
	return M{"id": r.Id, "state": PromiseState(r.State), "param": M{"headers": jsonMap(r.ParamHeaders), "data": Bytes(r.ParamData)},
		"value":   M{"headers": jsonMap(r.ValueHeaders), "data": Bytes(r.ValueData)},
		"timeout": r.Timeout, "ikc": OptKey(r.IdempotencyKeyForCreate), "iku": OptKey(r.IdempotencyKeyForComplete),
		"tags": jsonMap(r.Tags), "createdOn": created, "completedOn": OptI(r.CompletedOn)}
}

func TaskRecord(r *task.TaskRecord) M {
	return M{"id": r.Id, "state": TaskState(r.State), "counter": int64(r.Counter), "attempt": int64(r.Attempt), "pid": OptS(r.ProcessId),
		"rootId": r.RootPromiseId, "recv": Bytes(r.Recv), "mesg": mesgOf(r.Mesg), "timeout": r.Timeout, "ttl": int64(r.Ttl),
		"expiresAt": r.ExpiresAt, "createdOn": OptI(r.CreatedOn), "completedOn": OptI(r.CompletedOn)}
}

func ScheduleRecord(r *schedule.ScheduleRecord) M {
	return M{"id": r.Id, "desc": r.Description, "cron": r.Cron, "tags": jsonMap(r.Tags), "promiseId": r.PromiseId,
		"promiseTimeout": r.PromiseTimeout, "promiseParam": M{"headers": jsonMap(r.PromiseParamHeaders), "data": Bytes(r.PromiseParamData)},
		"promiseTags": jsonMap(r.PromiseTags), "last": OptI(r.LastRunTime), "next": r.NextRunTime, "ikey": OptKey(r.IdempotencyKey),
		"createdOn": r.CreatedOn}
}

func LockRecord(r *lock.LockRecord) M {
	return M{"id": r.ResourceId, "eid": r.ExecutionId, "pid": r.ProcessId, "ttl": r.Ttl, "expiresAt": r.ExpiresAt}
}

// NoEmptyMaps replaces every empty JSON object by an empty JSON array.  In TLA+ both denote
// the empty function, but TLC cannot compare an empty *record* read from JSON with the
// empty tuple <<>> in every position, so traces never contain "{}".
func NoEmptyMaps(v any) any {
	switch x := v.(type) {
	case map[string]any:
		if len(x) == 0 {
			return []any{}
		}
		for k, e := range x {
			x[k] = NoEmptyMaps(e)
		}
		return x
	case []any:
		for i := range x {
			x[i] = NoEmptyMaps(x[i])
		}
		return x
	}
	return v
}
